"""F33 (C15): GreedyEval / AugmentationEval / GreedyMultiStart(Augment)Eval recompute the reward as
env.get_reward(<freshly reset td>, actions).  For envs whose objective is ACCUMULATED IN THE STATE by `_step`
(MDCPDP current_length, mTSP max_subtour_length, FJSP / JSSP finish_times, FFSP schedule, FLP / MCP chosen) the reset state
holds no objective: the reported reward is not the objective of the returned actions (MDCPDP: 0.0 for every instance).
"""
import sys
import torch
from rl4co.envs import MDCPDPEnv
from rl4co.models import AttentionModelPolicy
from rl4co.tasks.eval import GreedyEval

torch.manual_seed(0)
env = MDCPDPEnv(generator_params=dict(num_loc=8, num_depot=2), reward_mode="minsum")
policy = AttentionModelPolicy(env_name=env.name, embed_dim=32, num_encoder_layers=1, num_heads=4)
policy.eval()
td = env.reset(batch_size=[4])
with torch.no_grad():
    out = policy(td.clone(), env, phase="test", decode_type="greedy", return_actions=True)
ev = GreedyEval(env)
with torch.no_grad():
    actions, rewards = ev._inner(policy, td.clone())
print("objective of the greedy rollout (policy output):", [round(float(x), 3) for x in out["reward"]])
print("reward reported by GreedyEval for the same policy :", [round(float(x), 3) for x in rewards])
if not torch.allclose(out["reward"], rewards, atol=1e-4) and torch.equal(out["actions"], actions):
    print("VIOLATION: GreedyEval reports a reward that is not the objective of the actions it returns")
    sys.exit(1)
print("OK")
