"""Witness for F6 (C04/C06): CVRPTWEnv.check_solution_validity compares every row against
ROW 0's depot deadline (`td["time_windows"][..., 0, 1][0]`): the same valid tour of instance b
is accepted alone and in batch (b, a), rejected in batch (a, b)."""
import torch
from tensordict import TensorDict
from rl4co.envs.routing.cvrptw.env import CVRPTWEnv

env = CVRPTWEnv(check_solution=True)


def inst(deadline):
    # depot at origin, two customers; depot window [0, deadline]; customers wide open
    return TensorDict({
        "depot": torch.tensor([[0.0, 0.0]]),
        "locs": torch.tensor([[[3.0, 0.0], [0.0, 4.0]]]),
        "demand": torch.tensor([[0.1, 0.1]]),
        "durations": torch.tensor([[0.0, 1.0, 1.0]]),
        "time_windows": torch.tensor([[[0.0, deadline], [0.0, deadline - 10.0], [0.0, deadline - 10.0]]]),
    }, batch_size=[1])


a, b = inst(20.0), inst(1000.0)
b["time_windows"][0, 1] = torch.tensor([500.0, 900.0])  # b's customer 1 opens late: fine for b (deadline 1000), impossible under a's deadline 20
actions = torch.tensor([[1, 2, 0]])


def accepted(tds, acts):
    td = env.reset(torch.cat(tds, 0))
    try:
        env.check_solution_validity(td, acts)
        return True
    except AssertionError:
        return False


solo = accepted([b], actions)
ba_ = accepted([b, a], torch.cat([actions, actions]))
ab_ = accepted([a, b], torch.cat([actions, actions]))
a_solo = accepted([a], actions)
print("a alone:", a_solo, "| b alone:", solo, "| (b,a):", ba_, "| (a,b):", ab_)
assert a_solo and solo, "both instances/tours are valid on their own"
assert ab_ == ba_ == True, "the verdict for a batch must not depend on which row comes first"
print("PASS")
