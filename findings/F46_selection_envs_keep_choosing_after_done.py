"""F46 (C04 / C08): MCPEnv and FLPEnv keep adding to the selection of an instance that already has its quota while it is stepped
with feasible padding actions next to batch-mates with a larger quota (n_sets_to_choose / to_choose are per-instance fields).
The reward counts every selected item, so the instance ends with more items than its quota and a reward that depends on its
batch-mates.
"""
import sys
import torch
from rl4co.envs import MCPEnv, FLPEnv

bad = 0


def run(env, tdi):
    t = env.reset(tdi.clone())
    acts = []
    while not t["done"].all():
        a = t["action_mask"].float().argmax(-1)          # lowest-index open item: a feasible padding action once finished
        t["action"] = a
        t = env.step(t)["next"]
        acts.append(a)
    acts = torch.stack(acts, 1)
    return env.get_reward(t, acts), t["chosen"].sum(-1)


torch.manual_seed(0)
env = MCPEnv(generator_params=dict(num_items=30, num_sets=10))
td = env.generator(2)
td["n_sets_to_choose"] = torch.tensor([[2.0], [4.0]])
r, n = run(env, td)
r0, n0 = run(env, td[:1])
print(f"MCP quota 2 next to quota 4: chosen {int(n[0])} sets, reward {float(r[0])}; alone: chosen {int(n0[0])}, reward {float(r0[0])}")
bad += int(n[0]) != 2 or abs(float(r[0]) - float(r0[0])) > 1e-5

env = FLPEnv(generator_params=dict(num_loc=12))
td = env.generator(2)
td["to_choose"] = torch.tensor([2, 4])
r, n = run(env, td)
r0, n0 = run(env, td[:1])
print(f"FLP quota 2 next to quota 4: chosen {int(n[0])} locations, reward {float(r[0]):.4f}; alone: chosen {int(n0[0])}, reward {float(r0[0]):.4f}")
bad += int(n[0]) != 2 or abs(float(r[0]) - float(r0[0])) > 1e-5
if bad:
    print("VIOLATION: a finished instance keeps selecting during padding steps; its result depends on its batch-mates")
    sys.exit(1)
print("OK")
