"""F29 (C17): reading an ExtraKeyDataset writes the extra key into the items of the dataset it wraps.

ExtraKeyDataset shares the list of per-instance dicts with the wrapped TensorDictDataset (`self.data = dataset.data`) and
`__getitem__` assigns `data[self.key_name] = self.extra[idx]` on the shared dict.  After the wrapped set has been read once,
the ORIGINAL dataset no longer returns the original instances: every item read so far carries an additional `extra` entry
(which REINFORCE.calculate_loss would pick up as a baseline value), and a second wrapper with other values sees the first
wrapper's key as well.
"""
import sys
import torch
from tensordict import TensorDict
from torch.utils.data import DataLoader
from rl4co.data.dataset import TensorDictDataset

torch.manual_seed(0)
td = TensorDict({"locs": torch.rand(6, 4, 2)}, batch_size=[6])
ds = TensorDictDataset(td)
before = [set(ds[i].keys()) for i in range(len(ds))]
wrapped = ds.add_key("extra", torch.arange(6.0))
for _ in DataLoader(wrapped, batch_size=4, collate_fn=wrapped.collate_fn):
    pass
after = [set(ds[i].keys()) for i in range(len(ds))]
batch = next(iter(DataLoader(ds, batch_size=6, collate_fn=ds.collate_fn)))
print("keys of the original dataset's items before wrapping:", sorted(before[0]))
print("keys of the original dataset's items after the wrapped set was read:", sorted(after[0]))
if before != after or "extra" in batch.keys():
    print("VIOLATION: reading the wrapped dataset changed what the original dataset returns")
    sys.exit(1)
print("OK")
