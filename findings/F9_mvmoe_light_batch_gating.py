"""Witness for F9 (C14, open finding): PointerAttnMoE with light_version gating averages the
glimpse over the WHOLE batch to decide dense-vs-MoE (and to scale the output): the logits computed
for an instance depend on its batch-mates.  Run on real code; deterministic (the multinomial draw is
replaced by comparing the gating probabilities themselves)."""
import torch
from rl4co.models.nn.attention import PointerAttnMoE

torch.manual_seed(0)
E, H, N = 16, 2, 6
m = PointerAttnMoE(E, H, moe_kwargs={"light_version": True, "num_experts": 4, "k": 2, "noisy_gating": False}).eval()


def run(q, k, v, lk, mask):
    with torch.no_grad():
        m(q, k, v, lk, mask)
    return m.probs.clone()


q = torch.randn(2, 1, E); k = torch.randn(2, N, E); v = torch.randn(2, N, E); lk = torch.randn(2, N, E)
mask = torch.ones(2, N, dtype=torch.bool)
p_batch = run(q, k, v, lk, mask)
p_solo = run(q[:1], k[:1], v[:1], lk[:1], mask[:1])
print("gating probs solo", p_solo.tolist(), "in a batch of two", p_batch.tolist())
assert torch.allclose(p_solo, p_batch, atol=1e-6), "the gating distribution used for instance 0 changes with its batch-mate"
print("PASS")
