"""F30 (C01, C07): several envs size the state of a NEW instance from their generator's configuration, not from the instance.

TSPEnv / CVRPEnv size `action_mask` / `visited` from the instance they are reset with, so one env object evaluates instances
of any size (the usual way to test generalisation, and what happens when a dataset file of another size is loaded).  ATSP,
mTSP, PCTSP / SPCTSP, PDP, MDCPDP and SMTWTP instead build these cells with `self.generator.num_loc` (`num_job`,
`num_depot`).  With a LARGER instance the episode silently ends after `generator.num_loc` nodes: a reward is reported for a
tour that leaves customers / jobs unvisited.  (A smaller instance fails with an index error.)
"""
import sys
import torch
from rl4co.envs import ATSPEnv, MTSPEnv, PCTSPEnv, SMTWTPEnv

torch.manual_seed(0)
bad = []


def rollout(env, td):
    acts = []
    while not td["done"].all() and len(acts) < 200:
        a = torch.multinomial(td["action_mask"].float(), 1).squeeze(-1)
        td["action"] = a
        td = env.step(td)["next"]
        acts.append(a)
    return td, torch.stack(acts, 1)


cases = [
    ("ATSPEnv", ATSPEnv, dict(num_loc=6), dict(num_loc=10), lambda td: td["cost_matrix"].shape[-1], 0),
    ("MTSPEnv", MTSPEnv, dict(num_loc=6), dict(num_loc=10), lambda td: td["locs"].shape[-2], 0),
    ("PCTSPEnv", PCTSPEnv, dict(num_loc=6), dict(num_loc=10), lambda td: td["locs"].shape[-2], 0),
    ("SMTWTPEnv", SMTWTPEnv, dict(num_job=4), dict(num_job=7), lambda td: td["job_due_time"].shape[-1], 1),
]
for name, Env, small, big, n_nodes, offset in cases:
    env = Env(generator_params=small)                      # the env object (e.g. the one a model was trained with)
    inst = Env(generator_params=big).generator(batch_size=[2])   # instances of another size, e.g. read from a file
    td = env.reset(inst.clone())
    width = td["action_mask"].shape[-1]
    n = n_nodes(td)
    try:
        tdf, A = rollout(env, td)
        visited = len(set(A[0].tolist()))
        print(f"{name}: instance has {n} nodes, action_mask has {width} columns; episode ended after visiting {visited} distinct nodes")
    except Exception as e:                                   # noqa: BLE001
        print(f"{name}: instance has {n} nodes, action_mask has {width} columns; rollout raised {type(e).__name__}")
    if width != n:
        bad.append(name)
if bad:
    print(f"VIOLATION: {bad}: the mask of a freshly reset instance does not have one column per node of that instance")
    sys.exit(1)
print("OK")
