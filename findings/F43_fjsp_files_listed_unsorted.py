"""F43 (C19): FJSPFileGenerator.list_files / JSSPFileGenerator.list_files enumerate the instance directory with os.listdir,
whose order is arbitrary (directory hash order on ext4 / tmpfs).  A batch written with fjsp.parser.write (files 0001_, 0002_,
...) is read back in that arbitrary order: instance i of the loaded batch is not instance i that was written.
"""
import sys
import os
import tempfile
import torch
from rl4co.envs import FJSPEnv
from rl4co.envs.scheduling.fjsp.parser import write
from rl4co.envs.scheduling.fjsp.generator import FJSPFileGenerator

torch.manual_seed(0)
env = FJSPEnv(generator_params=dict(num_jobs=3, num_machines=3, min_ops_per_job=2, max_ops_per_job=2))
td = env.reset(batch_size=[12])
with tempfile.TemporaryDirectory() as d:
    write(d, td)
    listed = [os.path.basename(f) for f in FJSPFileGenerator.list_files(d)]
    gen = FJSPFileGenerator(d)
    back = gen(12)
same = [bool((back["proc_times"][i] == td["proc_times"][i][:, : back["proc_times"].shape[-1]]).all()) for i in range(12)]
print("files as listed:", [f[:4] for f in listed])
print("instance i read back == instance i written:", same)
if listed != sorted(listed) or not all(same):
    print("VIOLATION: instances come back in directory-listing order, not in the order they were written")
    sys.exit(1)
print("OK")
