"""F48 (C20): get_reinforce_baseline("warmup", n_epochs=k) builds its inner baseline with the default name "rollout", which is
itself a WarmupBaseline around the greedy rollout (with the same n_epochs).  The result is a warm-up inside a warm-up: during
the mixed phase the weight on the rollout baseline is alpha * alpha instead of the stated alpha, and two separate moving
averages are mixed in.  (The leaf RolloutBaseline.eval is replaced by a constant here so that no policy is needed; everything
between the factory and that leaf is the library's code.)
"""
import sys
import torch
from rl4co.models.rl.reinforce.baselines import get_reinforce_baseline, WarmupBaseline, RolloutBaseline

bl = get_reinforce_baseline("warmup", n_epochs=2)
depth, b = 0, bl
while isinstance(b, WarmupBaseline):
    depth += 1
    b = b.baseline
print("warm-up wrappers around the", type(b).__name__, ":", depth)
b.eval = lambda td, reward, env=None: (torch.full_like(reward, 10.0), 0)        # rollout value 10
b.epoch_callback = lambda *a, **k: None
reward = torch.zeros(4)                                                           # moving averages stay at 0
bl.eval(None, reward)                                                             # epoch 0: alpha = 0
bl.epoch_callback(None, epoch=0)                                                  # alpha = 1/2 (in every wrapper)
v, _ = bl.eval(None, reward)
print("alpha =", bl.alpha, " baseline value =", float(v.mean()), " stated convex combination: alpha * 10 + (1 - alpha) * 0 =", bl.alpha * 10)
if depth != 1 or abs(float(v.mean()) - bl.alpha * 10) > 1e-6:
    print("VIOLATION: the warm-up factory nests two warm-ups; the weight on the rollout baseline is alpha^2")
    sys.exit(1)
print("OK")
