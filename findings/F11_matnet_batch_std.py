"""Witness for F11 (C14, open finding): matnet_w_sa.apply_weights_and_combine scales the attention
logits by dots.std() taken over the WHOLE batch: the mixed-score cross attention output (used by the
L2D scheduling policies' MatNet-style encoder) for one instance depends on its batch-mates."""
import torch
from rl4co.models.zoo.matnet.matnet_w_sa import EfficientMixedScoreMultiHeadAttention

torch.manual_seed(0)
m = EfficientMixedScoreMultiHeadAttention(16, 2).eval()
x1 = torch.randn(2, 5, 16); x2 = torch.randn(2, 3, 16); cm = torch.rand(2, 5, 3)
x1[1] *= 10  # a batch-mate with a different scale
with torch.no_grad():
    h1b, h2b = m(x1, x2, cost_mat=cm)
    h1s, h2s = m(x1[:1], x2[:1], cost_mat=cm[:1])
d = (h1b[:1] - h1s).abs().max().item()
print("max |batched - solo| =", d)
assert d < 1e-5, f"output for instance 0 differs by {d} depending on its batch-mate"
print("PASS")
