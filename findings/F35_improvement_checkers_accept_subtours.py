"""F35 (C06): the solution checkers of the improvement envs accept successor lists that are not a single tour.

TSPkoptEnv.check_solution_validity only asserts that td["rec_best"] (node -> next node) is a permutation; two disjoint
3-cycles pass.  PDPRuinRepairEnv.check_solution_validity additionally walks the list from the depot to stamp visit times, but
never asserts that the walk reached every node: nodes on another cycle keep visit time 0, and `pickup before delivery`
(0 < t_delivery) then holds for a solution whose pickups are on a separate cycle.
"""
import sys
import torch
from tensordict import TensorDict
from rl4co.envs.routing.tsp.env import TSPkoptEnv
from rl4co.envs.routing.pdp.env import PDPRuinRepairEnv

bad = []
env = TSPkoptEnv(generator_params=dict(num_loc=6))
td = TensorDict({"rec_best": torch.tensor([[1, 2, 0, 4, 5, 3]])}, batch_size=[1])      # 0->1->2->0 and 3->4->5->3
try:
    env.check_solution_validity(td)
    print("TSPkoptEnv: two disjoint 3-cycles ACCEPTED")
    bad.append("TSPkopt")
except AssertionError as e:
    print("TSPkoptEnv: rejected:", e)
env = PDPRuinRepairEnv(generator_params=dict(num_loc=4))
# n = 4 customers: pickups 1, 2 / deliveries 3, 4; depot cycle 0->3->4->0 holds only the deliveries, pickups 1<->2 form a second cycle
td = TensorDict({"rec_best": torch.tensor([[3, 2, 1, 4, 0]])}, batch_size=[1])
try:
    env.check_solution_validity(td)
    print("PDPRuinRepairEnv: solution with the pickups on a separate cycle ACCEPTED")
    bad.append("PDPRuinRepair")
except AssertionError as e:
    print("PDPRuinRepairEnv: rejected:", e)
if bad:
    print(f"VIOLATION: {bad}: the checker accepts a successor list that is not one tour through all nodes")
    sys.exit(1)
print("OK")
