"""F21 (C18): the "center" location distribution does not sit at the centre and can leave the documented bounds.

get_sampler(..., "center", low, high) returns the constant (high - low) / 2 instead of the midpoint (low + high) / 2.  With
min_loc = 0 both agree; with min_loc = 0.5, max_loc = 1.0 every generated coordinate is 0.25, outside [min_loc, max_loc].
"""
import sys
import torch
from rl4co.envs.routing.tsp.generator import TSPGenerator

g = TSPGenerator(num_loc=5, min_loc=0.5, max_loc=1.0, loc_distribution="center")
locs = g(batch_size=[2])["locs"]
print("min_loc=0.5 max_loc=1.0 -> generated coordinates in [%.3f, %.3f]" % (float(locs.min()), float(locs.max())))
if float(locs.min()) < 0.5 or float(locs.max()) > 1.0 or not torch.allclose(locs, torch.full_like(locs, 0.75)):
    print("VIOLATION: 'center' instances are not at the centre of the box / leave the coordinate bounds")
    sys.exit(1)
print("OK")
