"""F13 (C12.d): forced multi-start nodes are not pairwise distinct when the instance is larger than the
env's generator configuration, although enough feasible distinct starts exist.

rl4co.utils.ops.select_start_nodes reduces the replica index modulo env.generator.num_loc (a
configuration value), not modulo the number of customers of the instance at hand.  An env built
for 10 customers that is handed a 20-customer instance (e.g. a loaded benchmark file) with
num_starts = 20 starts every instance twice from customers 1..10 and never from 11..20.
"""
import sys
import torch
from rl4co.envs import CVRPEnv
from rl4co.utils.ops import select_start_nodes, get_num_starts

torch.manual_seed(0)
small = CVRPEnv(generator_params={"num_loc": 10})
big = CVRPEnv(generator_params={"num_loc": 20})
td = small.reset(big.generator(batch_size=[3]))          # 20-customer instances in an env configured for 10
k = get_num_starts(td, small.name)
assert k == 20, k
feasible = td["action_mask"][:, 1:].sum(-1)
assert (feasible >= k).all(), "all 20 customers are feasible first moves"
sel = select_start_nodes(td, small, k).view(k, 3).T       # [B, k]
distinct = [len(set(r.tolist())) for r in sel]
print("num_starts", k, "feasible first moves", feasible.tolist(), "distinct forced starts per instance", distinct)
if any(d < k for d in distinct):
    print("VIOLATION: forced starts repeat although", k, "distinct feasible starts exist:", sel[0].tolist())
    sys.exit(1)
print("OK")
