"""Witness for F1 (C18): OPGenerator._generate reads the undefined attribute self.device for
prize_type 'const' / 'unif' -> AttributeError instead of an instance."""
from rl4co.envs.routing.op.generator import OPGenerator

for pt in ("dist", "const", "unif"):
    td = OPGenerator(num_loc=10, prize_type=pt)(3)
    assert td["prize"].shape == (3, 10), td["prize"].shape
    print(pt, "ok", td["prize"].min().item(), td["prize"].max().item())
print("PASS")
