"""F56 (C10 / C11): the Pointer Network decoder with the documented option mask_logits=False normalises over ALL nodes
(log_softmax of the unmasked logits) and only afterwards writes -inf on the visited ones: the step "distribution" handed to the
decoding strategy does not sum to one (the mass of the visited nodes is simply removed), so the log-likelihood returned for the
tour is not the log-probability of the actions under a normalised distribution (multinomial re-normalises silently when it draws).
"""
import sys
import torch
from rl4co.models.zoo.ptrnet.decoder import Decoder

torch.manual_seed(0)
B, N, D = 3, 6, 16
worst = {}
for mask_logits in (True, False):
    dec = Decoder(embed_dim=D, hidden_dim=D, tanh_exploration=10.0, use_tanh=True, mask_logits=mask_logits)
    x = torch.randn(B, D)
    context = torch.randn(N, B, D)
    h = (torch.zeros(B, D), torch.zeros(B, D))
    mask = torch.ones(B, N, dtype=torch.bool)
    prev = torch.tensor([0, 1, 2])
    _, log_p, logit_mask = dec.recurrence(x, h, mask, prev, 1, context)
    prev2 = torch.tensor([3, 4, 5])
    _, log_p, logit_mask = dec.recurrence(x, h, logit_mask, prev2, 2, context)
    total = log_p.exp().sum(-1)
    print(f"mask_logits={mask_logits}: probability of the visited nodes {log_p.exp()[~logit_mask].sum().item():.3f}, row sums {[round(v, 4) for v in total.tolist()]}")
    worst[mask_logits] = (total - 1).abs().max().item()
if worst[False] > 1e-4:
    print("VIOLATION: with mask_logits=False the step distribution is not a normalised probability vector (sum", round(1 - worst[False], 4), ")")
    sys.exit(1)
print("OK")
