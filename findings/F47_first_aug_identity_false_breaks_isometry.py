"""F47 (C15): StateAugmentation(first_aug_identity=False) saves `td_aug[feat][list(td.size()), 0]` -- i.e. row B (the first row
of augmentation copy 1), node 0 -- before the augmentation and writes it back afterwards.  One node of one augmented row keeps
its original coordinates while all other nodes of that row are rotated / reflected: that copy is no longer a distance-
preserving image of instance 0, so an action sequence costs something else on it than on the original.
"""
import sys
import torch
from tensordict import TensorDict
from rl4co.data.transforms import StateAugmentation

torch.manual_seed(0)
B, N = 4, 10
td = TensorDict({"locs": torch.rand(B, N, 2)}, batch_size=[B])
worst = 0.0
for fn in ("dihedral8", "symmetric"):
    aug = StateAugmentation(num_augment=8, augment_fn=fn, first_aug_identity=False)
    out = aug(td.clone())["locs"]                                # [8 * B, N, 2], row r belongs to instance r % B
    d0 = torch.cdist(td["locs"], td["locs"])                      # pairwise distances of the originals
    d = torch.cdist(out, out).view(8, B, N, N)
    dev = (d - d0[None]).abs().amax(dim=(-1, -2))                 # [8, B] worst distortion per copy / instance
    print(f"{fn}: worst change of a pairwise distance per (copy, instance):")
    print((dev > 1e-5).int())
    worst = max(worst, float(dev.max()))
print(f"largest distortion of a pairwise distance: {worst:.4f}")
if worst > 1e-4:
    print("VIOLATION: an augmented copy is not a distance-preserving image of its instance")
    sys.exit(1)
print("OK")
