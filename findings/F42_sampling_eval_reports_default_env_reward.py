"""F42 (C15): SamplingEval reports the reward computed inside the policy rollout, but calls the policy without `env=`: the
policy then builds a default-configured environment from its env_name.  When the evaluation env has a non-default objective
(SVRP with tech_costs=[1, 5, 10]; the reward reads env.tech_costs) the reported reward -- and the best-of-k selection made
with it -- belongs to another objective than the one of the returned actions on the evaluated instances.
"""
import sys
import torch
from rl4co.envs import SVRPEnv
from rl4co.models.zoo.am import AttentionModelPolicy
from rl4co.tasks.eval import SamplingEval

torch.manual_seed(0)
env = SVRPEnv(generator_params=dict(num_loc=10, tech_costs=[1, 5, 10]))
policy = AttentionModelPolicy(env_name="svrp").eval()
td = env.reset(batch_size=[4])
ev = SamplingEval(env, samples=4, progress=False)
with torch.no_grad():
    actions, rewards = ev._inner(policy, td)
true = env.get_reward(td, actions)
print("reported reward                  :", [round(x, 3) for x in rewards.flatten().tolist()])
print("objective of the returned actions:", [round(x, 3) for x in true.flatten().tolist()])
if not torch.allclose(rewards.flatten(), true.flatten(), atol=1e-4):
    print("VIOLATION: sampling evaluation reports a reward that is not the objective of the returned actions")
    sys.exit(1)
print("OK")
