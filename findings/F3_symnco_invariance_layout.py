"""Witness for F3 (C12): symnco invariance_loss regroups with "(b a) ..." an axis that
StateAugmentation / batchify lay out as (a b): each group mixes different instances."""
import torch
from einops import rearrange
from rl4co.utils.ops import batchify
import rl4co.models.zoo.symnco.losses as L
import inspect, re

B, A = 3, 4
inst = torch.arange(B).float()[:, None, None].expand(B, 2, 5).contiguous()  # embedding rows tagged with their instance id
aug = batchify(inst, A)  # layout produced by StateAugmentation: (a b)
src = inspect.getsource(L.invariance_loss)
pat = re.search(r'rearrange\(proj_embed,\s*"([^"]+)"', src).group(1)
pe = rearrange(aug, pat, a=A)
groups = pe[:, :, 0, 0].long().tolist()
print("pattern:", pat, "groups of instance ids:", groups)
assert all(len(set(g)) == 1 for g in groups), f"a group of 'augmentations of one instance' contains several instances: {groups}"
# numerical effect: embeddings identical across augmentations of the same instance must give similarity A-1 per node
emb = torch.randn(B, 2, 5)
loss = L.invariance_loss(batchify(emb, A), A)
assert torch.allclose(loss, torch.tensor(float(A - 1)), atol=1e-5), f"invariance loss of perfectly invariant embeddings is {loss.item()} (expected {A - 1})"
print("PASS")
