"""F40 (C05): with the default mask_no_ops=True the FJSP / JSSP environments close the wait action whenever the instance is not
finished, so only non-delay schedules are reachable through the mask.  Waiting is not a pointless move in a job shop: the
optimal schedule may keep a machine idle for an operation that is about to become available.

Instance (2 jobs, 2 machines):  job 0 = [(M0, 10)],  job 1 = [(M1, 1), (M0, 1), (M1, 10)].
Optimum 12: M0 stays idle for one time unit, runs job 1's second operation at t = 1, then job 0.  A non-delay schedule must
start job 0 on M0 at t = 0 and job 1's second operation only at t = 10: makespan 21.
"""
import sys
import itertools
import torch
from tensordict import TensorDict
from rl4co.envs import JSSPEnv


def instance():
    proc = torch.zeros(1, 2, 4)
    proc[0, 0, 0] = 10       # job 0 op 0 on M0
    proc[0, 1, 1] = 1        # job 1 op 0 on M1
    proc[0, 0, 2] = 1        # job 1 op 1 on M0
    proc[0, 1, 3] = 10       # job 1 op 2 on M1
    return TensorDict({"start_op_per_job": torch.tensor([[0, 1]]), "end_op_per_job": torch.tensor([[0, 3]]),
                       "proc_times": proc, "pad_mask": torch.zeros(1, 4, dtype=torch.bool)}, batch_size=[1])


def best_through_mask(mask_no_ops):
    env = JSSPEnv(generator_params=dict(num_jobs=2, num_machines=2), mask_no_ops=mask_no_ops)
    best = [float("inf")]

    def rec(td, depth):
        if bool(td["done"].all()):
            best[0] = min(best[0], float(td["finish_times"].max()))
            return
        if depth > 14:
            return
        for a in td["action_mask"][0].nonzero().flatten().tolist():
            t = td.clone()
            t["action"] = torch.tensor([a])
            rec(env.step(t)["next"], depth + 1)
    rec(env.reset(instance()), 0)
    return best[0]


# brute force from the definition: all operation orders per machine, earliest start semantics with arbitrary idling = enumerate
# start times on a small grid
ops = {0: (0, 10, None), 1: (1, 1, None), 2: (0, 1, 1), 3: (1, 10, 2)}      # op -> (machine, duration, predecessor)
opt = float("inf")
for starts in itertools.product(range(0, 13), repeat=4):
    ok = True
    for o, (m, d, pre) in ops.items():
        if pre is not None and starts[o] < starts[pre] + ops[pre][1]:
            ok = False
    for a, b in ((0, 2), (1, 3)):
        sa, sb = starts[a], starts[b]
        if not (sa + ops[a][1] <= sb or sb + ops[b][1] <= sa):
            ok = False
    if ok:
        opt = min(opt, max(starts[o] + ops[o][1] for o in ops))
d, nd = best_through_mask(True), best_through_mask(False)
print(f"optimal makespan (definition): {opt};  best through the mask, default mask_no_ops=True: {d};  mask_no_ops=False: {nd}")
if d > opt:
    print("VIOLATION: the optimum is not reachable through the default mask")
    sys.exit(1)
print("OK")
