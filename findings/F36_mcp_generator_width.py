"""F36 (C18): MCPGenerator._generate builds the membership tensor with a last axis of `set_sizes.max()` (a value of the random
draw) but the cut-off mask with `self.max_size` (the configuration).  Whenever no set of the batch happens to reach max_size
the two do not broadcast and the generator raises instead of returning an instance; when it works, the width of `membership`
depends on the batch the instance was drawn in.
"""
import sys
import torch
from rl4co.envs.graph.mcp.generator import MCPGenerator

bad = 0
widths = set()
for seed in range(20):
    torch.manual_seed(seed)
    g = MCPGenerator(num_sets=3)
    try:
        td = g(2)
        widths.add(td["membership"].shape[-1])
    except RuntimeError as e:
        bad += 1
        last = str(e).splitlines()[0]
print(f"MCPGenerator(num_sets=3)(2): {bad} of 20 seeds raise" + (f" ({last})" if bad else "") + f"; membership widths seen: {sorted(widths)} (max_size = {g.max_size})")
if bad or widths != {g.max_size}:
    print("VIOLATION: the generator fails for a valid configuration / the documented shape [B, num_sets, max_size] is not produced")
    sys.exit(1)
print("OK")
