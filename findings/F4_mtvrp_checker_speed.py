"""Witness for F4 (C06): MTVRP's checker advances its clock by `dist` although _step and the
mask use `dist / speed`: with speed 2 a mask-generated tour is rejected by the env's own checker."""
import torch
from tensordict import TensorDict
from rl4co.envs.routing.mtvrp.env import MTVRPEnv

env = MTVRPEnv(check_solution=True, generator_params={"variant_preset": "vrptw"})
B = 1
td0 = TensorDict({
    "locs": torch.tensor([[[0.0, 0.0], [0.5, 0.0], [0.0, 0.25]]]),
    "demand_linehaul": torch.tensor([[0.0, 0.1, 0.1]]),
    "demand_backhaul": torch.zeros(B, 3),
    "distance_limit": torch.full((B, 1), float("inf")),
    "service_time": torch.zeros(B, 3),
    "open_route": torch.zeros(B, 1, dtype=torch.bool),
    "time_windows": torch.tensor([[[0.0, 10.0], [0.0, 0.3], [0.0, 10.0]]]),
    "vehicle_capacity": torch.ones(B, 1),
    "capacity_original": torch.ones(B, 1),
    "speed": torch.full((B, 1), 2.0),
}, batch_size=[B])
td = env.reset(td0.clone())
assert bool(td["action_mask"][0, 1]), "mask should offer customer 1 (arrival 0.5/2 = 0.25 <= 0.3)"
acts = []
for a in (1, 2, 0):
    assert bool(td["action_mask"][0, a]), f"action {a} not offered"
    td.set("action", torch.tensor([a]))
    td = env.step(td)["next"]
    acts.append(a)
assert bool(td["done"].all())
actions = torch.tensor([acts])
env.check_solution_validity(td, actions)  # must accept a tour generated through the mask
print("PASS")
