"""F37 (C18): MTVRPGenerator.generate_time_windows places the window start at (1 + (h_max - 1) * u) * d / speed with
h_max = (max_time - service - length) / d * speed - 1.  That construction is reachable-and-returnable only when h_max >= 1,
i.e. when the round trip plus service fits into the horizon.  Nothing checked it (the distance limit has such a guard): with
the documented parameter max_time lowered, or coordinates scaled up, customers get windows that close before the vehicle can
arrive.  The mask never offers them, the episode can only idle at the depot and never finishes.
"""
import sys
import torch
from rl4co.envs.routing.mtvrp.generator import MTVRPGenerator

bad = 0
for kw in (dict(max_time=2.0), dict(max_loc=3.0, distance_limit=10.0), dict()):
    torch.manual_seed(0)
    g = MTVRPGenerator(num_loc=20, variant_preset="vrptw", **kw)
    try:
        td = g(64)
    except AssertionError as e:
        print(kw, "-> refused by the generator:", str(e)[:60])
        continue
    d = (td["locs"][:, 1:] - td["locs"][:, :1]).norm(dim=-1)
    tw = td["time_windows"][:, 1:]
    late = tw[..., 1] < d / td["speed"]
    print(kw, "-> unreachable customers:", int(late.sum()), "of", late.numel())
    bad += int(late.sum())
if bad:
    print("VIOLATION: generated instances contain customers whose window closes before the vehicle can arrive")
    sys.exit(1)
print("OK")
