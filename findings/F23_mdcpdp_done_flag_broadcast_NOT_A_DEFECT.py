"""F23 -- NOT a defect (kept as the evidence behind an exception of the rank-broadcast rule): MDCPDP or-s a [B,1] mask column with the [B] done flag.

MDCPDPEnv._step ends with  action_mask[..., :num_depot].scatter_(-1, current_depot, mask.gather(-1, current_depot) | done)
where the gathered mask is [B, 1] and `done` is [B]: the `|` broadcasts to [B, B] and scatter_ (index [B, 1]) reads column 0,
i.e. `own_mask | done[0]`.  As soon as instance 0 is finished, the current depot of every other instance is offered although
that instance is still carrying orders / has unvisited nodes; conversely a finished instance next to an unfinished row 0 does
not get its depot back.  The mask of an instance therefore depends on its batch-mates.
"""
import sys
import torch
from rl4co.envs import MDCPDPEnv

torch.set_num_threads(2)
env = MDCPDPEnv(generator_params=dict(num_loc=8, num_depot=2))
bad = 0
for seed in range(40):
    torch.manual_seed(seed)
    data = env.generator(batch_size=[3])
    td = env.reset(data.clone())
    solo = [env.reset(data[i:i + 1].clone()) for i in range(3)]
    g = torch.Generator().manual_seed(seed)
    for t in range(40):
        if td["done"].all():
            break
        # one random feasible action per row, drawn from the BATCHED mask
        a = torch.multinomial(td["action_mask"].float() + 1e-9 * (~td["action_mask"].any(-1, keepdim=True)), 1, generator=g).squeeze(-1)
        for i in range(3):
            if not solo[i]["action_mask"][0, a[i]]:
                print(f"seed {seed} step {t}: batched mask offers node {int(a[i])} to instance {i}, which is infeasible for that instance on its own")
                bad += 1
                break
        if bad:
            break
        td.set("action", a)
        td = env.step(td)["next"]
        for i in range(3):
            solo[i].set("action", a[i:i + 1])
            solo[i] = env.step(solo[i])["next"]
        m_b = td["action_mask"]
        m_s = torch.cat([s["action_mask"] for s in solo])
        if not torch.equal(m_b, m_s):
            i = int((m_b != m_s).any(-1).nonzero()[0])
            print(f"seed {seed} step {t}: mask of instance {i} differs between the batch and the single run: batch {m_b[i].int().tolist()} alone {m_s[i].int().tolist()}; done flags {td['done'].flatten().tolist()}")
            bad += 1
            break
    if bad:
        break
if bad:
    print("VIOLATION: the feasibility mask of an MDCPDP instance depends on its batch-mates")
    sys.exit(1)
print("OK")
