"""F53 witness: SDVRPEnv.check_solution_validity rejects a complete, mask-confined episode that never returns to the depot.
The replayed demand table starts as cat((-capacity, demand)); its depot column is only zeroed by a stop at the depot.  An
instance whose whole demand fits into one vehicle is finished after the last customer (done = True, the reward adds the way
back), but the final `(demands == 0).all()` also asks the depot column to be zero: `All demand must be satisfied`."""
import torch
from tensordict import TensorDict
from rl4co.envs import SDVRPEnv

env = SDVRPEnv(generator_params=dict(num_loc=3), check_solution=False)
td0 = TensorDict({
    "locs": torch.tensor([[[0.2, 0.2], [0.5, 0.5], [0.8, 0.2]]]),
    "depot": torch.tensor([[0.5, 0.1]]),
    "demand": torch.tensor([[0.25, 0.25, 0.25]]),
}, batch_size=[1])
td = env.reset(td0)
acts = []
for a in [1, 2, 3]:
    assert td["action_mask"][0, a], ("the mask forbids", a)
    td.set("action", torch.tensor([a]))
    td = env.step(td)["next"]
    acts.append(a)
assert bool(td["done"].all()), "episode not complete after serving every customer"
actions = torch.tensor([acts])
try:
    env.check_solution_validity(td, actions)
except AssertionError as e:
    print("VIOLATED: a complete mask-confined episode (total demand 0.75 <= capacity 1, one route) is rejected:", e)
    raise SystemExit(1)
# an unserved customer must still be rejected
try:
    env.check_solution_validity(td, torch.tensor([[1, 2, 0]]))
    print("VIOLATED: a tour that leaves customer 3 unserved is accepted")
    raise SystemExit(1)
except AssertionError:
    pass
print("PASS")
