"""F34 (C06): SVRPEnv.check_solution_validity never checks the route that is still open at the end of the action sequence.

The skill check runs inside a loop over the DEPOT VISITS of the sequence and validates the segment in front of each visit.
Mask-produced tours do not end with a depot visit, so the last technician's route is never validated; a sequence without any
depot visit is not validated at all.  The checker accepts the least skilled technician serving every customer in one route.
"""
import sys
import torch
from rl4co.envs import SVRPEnv

torch.manual_seed(0)
env = SVRPEnv(generator_params=dict(num_loc=5))
td = env.reset(batch_size=[2])
techs = td["techs"].flatten(1)
skills = td["skills"].flatten(1)
print("technician skills:", [round(float(x), 2) for x in techs[0]], " required skills:", [round(float(x), 2) for x in skills[0]])
weak = techs[0, 0]
too_hard = (skills[0] > weak).nonzero().flatten().tolist()
actions = torch.arange(1, 6)[None].repeat(2, 1)          # technician 0 serves customers 1..5 in one route, no depot visit
mask_says = []
t = td.clone()
for a in actions.T:
    mask_says.append(bool(t["action_mask"][0, a[0]]))
    t["action"] = a
    t = env.step(t)["next"]
print("customers technician 0 is not skilled for (instance 0):", [c + 1 for c in too_hard], "; the mask offered these moves:", mask_says)
try:
    env.check_solution_validity(td, actions)
    accepted = True
except AssertionError as e:
    accepted = False
    print("checker:", e)
if accepted and too_hard:
    print("VIOLATION: the checker accepts a tour in which the least skilled technician serves customers he is not qualified for")
    sys.exit(1)
print("OK")
