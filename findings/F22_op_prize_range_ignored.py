"""F22 (C18): OPGenerator (prizes) and MTVRPGenerator (locations) ignore documented distribution / range parameters.

The constructor documents min_prize, max_prize and prize_distribution and builds self.prize_sampler from them, but _generate
never reads the sampler: prizes are produced from prize_type ('dist' by default, values in (0, 1]).  A configuration such as
min_prize=5, max_prize=10 therefore yields prizes outside the documented range.
"""
import sys
import torch
from torch.distributions import Uniform
from rl4co.envs.routing.op.generator import OPGenerator

torch.manual_seed(0)
g = OPGenerator(num_loc=10, min_prize=5.0, max_prize=10.0, prize_distribution=Uniform)
prize = g(batch_size=[16])["prize"]
print("configured prize range [5, 10]; generated prizes in [%.3f, %.3f]" % (float(prize.min()), float(prize.max())))
bad = float(prize.min()) < 5.0 or float(prize.max()) > 10.0

# the same pattern in MTVRPGenerator: loc_distribution builds self.loc_sampler, generate_locations draws uniformly regardless
from rl4co.envs.routing.mtvrp.generator import MTVRPGenerator
gm = MTVRPGenerator(num_loc=10, loc_distribution="center", variant_preset="cvrp")
locs = gm(batch_size=[4])["locs"]
spread = float(locs.std())
print("MTVRPGenerator(loc_distribution='center'): std of generated coordinates %.3f (a 'center' sampler yields 0)" % spread)
bad = bad or spread > 1e-6
if bad:
    print("VIOLATION: documented distribution / range parameters are silently ignored")
    sys.exit(1)
print("OK")
