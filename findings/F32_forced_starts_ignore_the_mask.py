"""F32 (C12): the generic select_start_nodes forces start nodes without looking at the action mask.

For depot-style envs it returns `arange(k) % (n - 1) + 1`; the orienteering branch only re-draws from the mask when SOME
instance has fewer than k feasible nodes.  An OP instance with at least k feasible first moves whose node 1 cannot be
reached within the length budget is therefore forced to start at node 1: the start is infeasible although k feasible,
pairwise distinct starts exist.  (For DPP / MDPP the same formula `arange(k) % n` hits keep-out and probe cells.)
"""
import sys
import torch
from rl4co.envs import OPEnv
from rl4co.utils.ops import select_start_nodes

torch.manual_seed(0)
env = OPEnv(generator_params=dict(num_loc=10))
inst = env.generator(batch_size=[2])
inst["locs"][:, 0] = torch.tensor([50.0, 50.0])          # customer 1 is far beyond any length budget
td = env.reset(inst.clone())
k = 3
mask = td["action_mask"]
feasible = mask[:, 1:].sum(-1)
sel = select_start_nodes(td, env, k)                       # layout (start, batch)
sel = sel.view(k, -1).T
print("feasible first moves per instance:", feasible.tolist(), " node 1 feasible:", mask[:, 1].tolist())
print("forced starts per instance:", sel.tolist())
bad = [(b, int(a)) for b in range(sel.shape[0]) for a in sel[b] if not bool(mask[b, a])]
if bad and bool((feasible >= k).all()):
    print(f"VIOLATION: forced start(s) {bad} (instance, node) are masked although every instance has at least {k} feasible starts")
    sys.exit(1)
print("OK")
