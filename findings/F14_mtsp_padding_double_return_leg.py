"""F14 (C04 / C03): mTSP min-max reward of a finished instance grows when it is padded with depot steps.

MTSPEnv._step adds the leg prev -> cur on every step and, whenever `done` holds, also cur -> depot.  At the step that
finishes the instance the tour is closed (last city -> depot is added).  If a slower batch-mate forces one more (padding)
step, the action is the depot: the leg last city -> depot is added a SECOND time to current_length, and max_subtour_length
(the reward) follows when the last sub-tour is the longest.  The reward of an instance therefore depends on its batch-mates.
"""
import sys
import torch
from tensordict import TensorDict
from rl4co.envs import MTSPEnv

torch.manual_seed(0)
env = MTSPEnv(generator_params=dict(num_loc=6, min_num_agents=1, max_num_agents=1), cost_type="minmax")


def run(td, plans):
    td = env.reset(td)
    steps = max(len(p) for p in plans)
    acts = []
    for t in range(steps):
        a = torch.tensor([p[t] if t < len(p) else 0 for p in plans])
        assert td["action_mask"].gather(1, a[:, None]).all(), (t, a, td["action_mask"])
        td.set("action", a)
        acts.append(a)
        td = env.step(td)["next"]
    assert td["done"].all()
    return env.get_reward(td, torch.stack(acts, 1))


locs = torch.rand(2, 6, 2)
data = TensorDict({"locs": locs, "num_agents": torch.tensor([1, 2])}, batch_size=[2])
# instance 0: one agent visits 1..5 (5 steps).  instance 1: two agents -> one extra depot visit (6 steps)
plan0 = [1, 2, 3, 4, 5]
plan1 = [1, 2, 0, 3, 4, 5]
solo = run(data[0:1].clone(), [plan0])
both = run(data.clone(), [plan0, plan1])
tour = torch.cat([locs[0, :1], locs[0, plan0], locs[0, :1]])
true_len = (tour[1:] - tour[:-1]).norm(dim=-1).sum()
print("instance 0: true tour length %.4f | reward alone %.4f | reward next to a slower batch-mate %.4f" % (true_len, solo[0], both[0]))
if not torch.allclose(solo[0], both[0], atol=1e-5) or not torch.allclose(-solo[0], true_len, atol=1e-5):
    print("VIOLATION: the reward of instance 0 changes with its batch-mate (return leg counted twice under padding)")
    sys.exit(1)
print("OK")
