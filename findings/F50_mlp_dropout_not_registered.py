"""F50 (C14): rl4co.models.nn.mlp.MLP keeps its nn.Dropout layers in a plain Python list (`self.dropouts = []`), so they are
not registered as sub-modules: `.eval()` / `.train()` never reach them and a non-zero dropout_probs stays active in inference
mode -- two eval-mode calls on the same input differ.
"""
import sys
import torch
from rl4co.models.nn.mlp import MLP

torch.manual_seed(0)
m = MLP(8, 4, num_neurons=[16, 16], dropout_probs=[0.5, 0.5]).eval()
x = torch.randn(5, 8)
with torch.no_grad():
    a, b = m(x), m(x)
d = float((a - b).abs().max())
print("sub-modules seen by eval():", [type(c).__name__ for c in m.modules() if type(c).__name__ == "Dropout"], "; dropout layers training flags:", [dp.training for dp in m.dropouts])
print(f"eval mode, same input, two calls: max abs difference {d:.4f}")
if d > 1e-7:
    print("VIOLATION: dropout is active in eval mode")
    sys.exit(1)
print("OK")
