"""F24 (C08): MDPPEnv ignores the quota `max_decaps` of its own generator parameters.

MDPPEnv.__init__ calls DPPEnv.__init__ first, which builds a DEFAULT DPPGenerator and copies self.max_decaps = 20 from it;
MDPPEnv then replaces self.generator with MDPPGenerator(**generator_params) but never refreshes self.max_decaps.
MDPPEnv(generator_params=dict(max_decaps=5)) therefore keeps selecting until 20 decaps are placed: the episode does not stop
at the configured quota.  (The EDA data files cannot be downloaded in this sandbox; the generators' data loader is replaced by
synthetic tensors of the same shapes, nothing else is touched.)
"""
import sys
import torch
from rl4co.envs.eda.dpp.generator import DPPGenerator
from rl4co.envs.eda.mdpp.generator import MDPPGenerator


def _fake_load(self, *args, **kwargs):
    g = torch.Generator().manual_seed(0)
    self.num_freq = 3
    self.size = 10
    self.raw_pdn = torch.rand(3, 100, 100, generator=g).to(torch.complex64)
    self.decap = torch.rand(3, 1, 1, generator=g).to(torch.complex64)
    self.freq = torch.rand(3, generator=g) + 1.0


DPPGenerator._load_dpp_data = _fake_load
MDPPGenerator._load_dpp_data = _fake_load
from rl4co.envs import DPPEnv, MDPPEnv  # noqa: E402

torch.manual_seed(0)
bad = 0
for Env in (DPPEnv, MDPPEnv):
    env = Env(generator_params=dict(max_decaps=5))
    td = env.reset(batch_size=[2])
    n = 0
    while not td["done"].all() and n < 60:
        td.set("action", td["action_mask"].float().argmax(-1))
        td = env.step(td)["next"]
        n += 1
    print(f"{Env.__name__}(generator_params=dict(max_decaps=5)): generator.max_decaps={env.generator.max_decaps} env.max_decaps={env.max_decaps} decaps placed={n}")
    bad += n != 5
if bad:
    print("VIOLATION: the episode does not stop at the configured quota")
    sys.exit(1)
print("OK")
