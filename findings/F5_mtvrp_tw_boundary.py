"""Witness for F5 (C05): MTVRP mask hides a customer whose arrival time equals the window end
(closed window per docstring and per the env's own checker).  Run: PYTHONPATH=<repo> /venv/bin/python F5_...py"""
import torch
from tensordict import TensorDict
from rl4co.envs.routing.mtvrp.env import MTVRPEnv

env = MTVRPEnv(check_solution=True, generator_params={"variant_preset": "vrptw"})
B = 1
td = TensorDict({
    "locs": torch.tensor([[[0.0, 0.0], [0.5, 0.0], [0.0, 0.25]]]),
    "demand_linehaul": torch.tensor([[0.0, 0.1, 0.1]]),
    "demand_backhaul": torch.zeros(B, 3),
    "distance_limit": torch.full((B, 1), float("inf")),
    "service_time": torch.zeros(B, 3),
    "open_route": torch.zeros(B, 1, dtype=torch.bool),
    "time_windows": torch.tensor([[[0.0, 10.0], [0.0, 0.5], [0.0, 10.0]]]),
    "vehicle_capacity": torch.ones(B, 1),
    "capacity_original": torch.ones(B, 1),
    "speed": torch.ones(B, 1),
}, batch_size=[B])
td = env.reset(td)
mask = td["action_mask"][0]
print("mask at reset:", mask.tolist())
actions = torch.tensor([[1, 2, 0]])
env.check_solution_validity(td, actions)  # the env's own checker accepts the tour 0->1->2->0
print("checker accepts tour [1,2,0] (arrival at customer 1 exactly at its window end 0.5)")
assert bool(mask[1]), "customer 1 is feasible (arrival 0.5 == window end 0.5) but the mask hides it"
print("PASS")
