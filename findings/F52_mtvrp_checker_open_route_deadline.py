"""F52 witness: MTVRPEnv.check_solution_validity applies the depot's closing time to the final `return` of an OPEN route.
The mask (and the distance-limit part of the same checker) drop the return leg of open routes: the vehicle stops at its last
customer.  A mask-confined, complete OVRPTW episode whose (never driven) way back would arrive after the depot closes is rejected
with `vehicle cannot start service before deadline`."""
import torch
from tensordict import TensorDict
from rl4co.envs import MTVRPEnv

env = MTVRPEnv(generator_params=dict(num_loc=2, variant_preset="ovrptw"), check_solution=False)
locs = torch.tensor([[[0., 0.], [2., 0.], [2.5, 0.]]])
td0 = TensorDict({
    "locs": locs,
    "demand_linehaul": torch.tensor([[0., 0.1, 0.1]]),
    "demand_backhaul": torch.zeros(1, 3),
    "distance_limit": torch.full((1, 1), float("inf")),
    "time_windows": torch.tensor([[[0., 3.0], [0., 3.0], [0., 3.0]]]),
    "service_time": torch.tensor([[0., 0.1, 0.1]]),
    "vehicle_capacity": torch.ones(1, 1),
    "capacity_original": torch.ones(1, 1),
    "open_route": torch.ones(1, 1, dtype=torch.bool),
    "speed": torch.ones(1, 1),
}, batch_size=[1])
td = env.reset(td0)
acts = []
for a in [1, 2, 0]:
    assert td["action_mask"][0, a], ("the mask forbids", a)
    td.set("action", torch.tensor([a]))
    td = env.step(td)["next"]
    acts.append(a)
assert bool(td["done"].all()), "episode not complete"
actions = torch.tensor([acts])
# ground truth for an open route: service starts 2.0 and 2.6, both before the customers' deadline 3.0; nothing is driven afterwards
try:
    env.check_solution_validity(td, actions)
except AssertionError as e:
    print("VIOLATED: a mask-confined, complete and feasible open-route episode is rejected by the checker:", e)
    raise SystemExit(1)
# the closed-route twin must still be rejected (the way back arrives at 5.2 > 3.0)
td_c = td.clone()
td_c["open_route"] = torch.zeros(1, 1, dtype=torch.bool)
try:
    env.check_solution_validity(td_c, actions)
    print("VIOLATED: the closed-route twin is accepted although the vehicle is back after the depot closed")
    raise SystemExit(1)
except AssertionError:
    pass
print("PASS")
