"""F39 (C04): the improvement environments cannot be driven with a batch of one instance.

PDPRuinRepairEnv._step shifts its action record with `action_record[:, :-1] = action_record[:, 1:]`, an in-place copy between
overlapping views of one tensor; torch only detects the overlap when the batch axis has size one and raises.
TSPkoptEnv._random_action (k_max > 2) uses dimension-less `.squeeze()` on [B, 1] tensors, which also removes the batch axis
when B = 1 and then indexes out of bounds.  An instance stepped alone must behave as in any batch.
"""
import sys
import torch
from rl4co.envs.routing.pdp.env import PDPRuinRepairEnv
from rl4co.envs.routing.tsp.env import TSPkoptEnv

bad = 0
for bs in (2, 1):
    env = PDPRuinRepairEnv(generator_params=dict(num_loc=10))
    td = env.reset(batch_size=[bs])
    try:
        env._random_action(td)
        td = env.step(td)["next"]
        print(f"PDPRuinRepairEnv batch {bs}: ok")
    except Exception as e:
        bad += 1
        print(f"PDPRuinRepairEnv batch {bs}: {type(e).__name__}: {str(e)[:90]}")
    env = TSPkoptEnv(generator_params=dict(num_loc=10), k_max=3)
    td = env.reset(batch_size=[bs])
    try:
        env._random_action(td)
        td = env.step(td)["next"]
        print(f"TSPkoptEnv(k_max=3) batch {bs}: ok")
    except Exception as e:
        bad += 1
        print(f"TSPkoptEnv(k_max=3) batch {bs}: {type(e).__name__}: {str(e)[:90]}")
if bad:
    print("VIOLATION: an instance stepped alone raises where the same instance in a batch of two does not")
    sys.exit(1)
print("OK")
