"""F41 (C05): FFSPEnv closes the wait action for a machine whenever every remaining job of the stage is available
(`wait_allowed` = a job is still upstream, or a job of the stage is still being processed upstream, or done).  Machines are
offered in a fixed order inside a time step, and they are unrelated (run_time[job, machine]): the first idle machine must take
a job even when a much faster machine is offered next.

Instance: 1 stage, 2 machines, 2 jobs, run_time[j] = (10 on machine 0, 2 on machine 1) for both jobs.
Optimum: both jobs on machine 1, makespan 4.  Through the mask machine 0 is forced to take a job: makespan 10.
"""
import sys
import copy
import itertools
import torch
from rl4co.envs import FFSPEnv

env = FFSPEnv(generator_params=dict(num_stage=1, num_machine=2, num_job=2))
td = env.generator([1])
td["run_time"] = torch.tensor([[[10, 2], [10, 2]]])
best = [float("inf")]


def rec(e, t, depth):
    if bool(t["done"].all()):
        best[0] = min(best[0], float(-t["reward"].flatten()[0]))
        return
    if depth > 16:
        return
    for a in t["action_mask"][0].nonzero().flatten().tolist():
        e2 = copy.deepcopy(e)
        u = t.clone()
        u["action"] = torch.tensor([a])
        rec(e2, e2.step(u)["next"], depth + 1)


rec(env, env.reset(td), 0)
opt = float("inf")
for assign in itertools.product((0, 1), repeat=2):          # machine of each job; jobs on one machine run back to back
    load = [0, 0]
    for j, m in enumerate(assign):
        load[m] += (10, 2)[m]
    opt = min(opt, max(load))
print(f"optimal makespan (definition): {opt};  best through the mask: {best[0]}")
if best[0] > opt:
    print("VIOLATION: the optimum is not reachable through the mask")
    sys.exit(1)
print("OK")
