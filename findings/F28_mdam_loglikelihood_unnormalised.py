"""F28 (C11): MDAM reports the sum of raw clipped logits as log-likelihood.

MDAMDecoder._get_logprobs(fixed, td, path_index, normalize=True) returns the output of _one_to_many_logits -- logits after
tanh clipping and masking -- and never applies log_softmax (the `normalize` parameter is unused).  Sampling from them still
follows softmax(logits) because torch.multinomial renormalises exp(logits), but get_log_likelihood(outputs, actions) gathers
the raw logits: the value returned as `log_likelihood` is sum_t logit_t(a_t), not sum_t log p_t(a_t).  The per-step vectors
do not sum to one after exp and the REINFORCE surrogate misses the -logsumexp term.
"""
import sys
import torch
import rl4co.models.zoo.mdam.decoder as D
from rl4co.envs import TSPEnv
from rl4co.models.zoo.mdam import MDAMPolicy

captured = {}
_orig = D.get_log_likelihood


def spy(outputs, actions, mask=None, return_sum=True):
    captured.setdefault("outputs", outputs.detach().clone())
    captured.setdefault("actions", actions.detach().clone())
    return _orig(outputs, actions, mask, return_sum)


D.get_log_likelihood = spy
torch.manual_seed(0)
env = TSPEnv(generator_params=dict(num_loc=10))
td = env.reset(batch_size=[4])
policy = MDAMPolicy(env_name="tsp", embed_dim=32, num_encoder_layers=1, num_heads=4, num_paths=2)
policy.eval()
with torch.no_grad():
    out = policy(td.clone(), env, decode_type="sampling", phase="test")
o, a = captured["outputs"], captured["actions"]
mass = o.exp().sum(-1)                       # probability mass of every step distribution
true_ll = (o.log_softmax(-1).gather(-1, a[..., None]).squeeze(-1)).sum(1)
rep_ll = o.gather(-1, a[..., None]).squeeze(-1).sum(1)
print("probability mass of the first three step vectors (must be 1):", [round(float(x), 3) for x in mass[0, :3]])
print("reported log-likelihood :", [round(float(x), 3) for x in rep_ll])
print("sum_t log p_t(a_t)      :", [round(float(x), 3) for x in true_ll])
if (mass - 1).abs().max() > 1e-3:
    print("VIOLATION: the step vectors gathered into the log-likelihood are not normalised log-probabilities")
    sys.exit(1)
print("OK")
