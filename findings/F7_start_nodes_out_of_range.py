"""Witness for F7 (C12): default multistart start nodes run out of the action mask for envs that
are neither in get_num_starts' minus-one list nor bounded by generator.num_loc (smtwtp; dpp/mdpp)."""
import torch
from rl4co.envs import SMTWTPEnv
from rl4co.utils.ops import get_num_starts, select_start_nodes

env = SMTWTPEnv(generator_params={"num_job": 5})
td = env.reset(batch_size=[2])
width = td["action_mask"].shape[-1]
k = env.get_num_starts(td)
sel = env.select_start_nodes(td, k)
print("smtwtp: mask width", width, "num_starts", k, "selected", sorted(set(sel.tolist())))
assert int(sel.max()) < width, f"start index {int(sel.max())} is outside the mask of width {width}"
assert bool(td["action_mask"].gather(1, sel.view(k, 2).T).all()), "a forced start is masked"


class _G:  # generator without num_loc (as DPPGenerator / MDPPGenerator)
    pass


class _E:
    def __init__(self, name):
        self.name, self.generator = name, _G()


for name in ("dpp", "mdpp"):
    td = {"action_mask": torch.ones(2, 9, dtype=torch.bool)}
    from tensordict import TensorDict
    td = TensorDict(td, batch_size=[2])
    k = get_num_starts(td, name)
    sel = select_start_nodes(td, _E(name), k)
    print(name, ": mask width 9 num_starts", k, "selected", sorted(set(sel.tolist())))
    assert int(sel.max()) < 9, f"{name}: start index {int(sel.max())} is outside the mask of width 9"
print("PASS")
