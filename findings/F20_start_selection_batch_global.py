"""F20 (C12.d): how an instance's forced start nodes are drawn depends on its batch-mates.

(a) ops.select_start_nodes, OP branch: `if (feasible < num_starts).any():` re-draws the starts of ALL instances with
    torch.multinomial(..., replacement=True) as soon as ONE instance has fewer than num_starts feasible nodes.
(b) ops.sample_n_random_actions: `replace = n_valid_actions < n` with n_valid_actions = feasible.sum(1).min() over the BATCH.
(c) sample_n_random_actions counts the valid actions over columns 1.. only, although column 0 can be drawn as well.
In (a) and (b) an instance that has at least k feasible start nodes gets repeated starts because another instance of the batch
has too few -- the property demands pairwise distinct starts per instance whenever k feasible starts exist.
"""
import sys
import torch
from tensordict import TensorDict
from rl4co.utils.ops import sample_n_random_actions, select_start_nodes

torch.manual_seed(0)
k, n = 6, 8
bad = 0

# (b) instance 0 has 7 feasible nodes (>= k), instance 1 only 3
mask = torch.ones(2, n, dtype=torch.bool)
mask[:, 0] = False
mask[1, 4:] = False
td = TensorDict({"action_mask": mask}, batch_size=[2])
rep = 0
for _ in range(200):
    sel = sample_n_random_actions(td, k).view(k, 2).T
    rep += len(set(sel[0].tolist())) < k
print(f"(b) sample_n_random_actions: instance 0 has {int(mask[0].sum())} feasible nodes, k={k}: repeated starts in {rep}/200 draws when batched with a short instance")
alone = sum(len(set(sample_n_random_actions(td[0:1], k).view(k, 1).T[0].tolist())) < k for _ in range(200))
print(f"    alone: repeated starts in {alone}/200 draws")
bad += rep > 0 and alone == 0


class _G:  # stand-in for env.generator / env.name as used by select_start_nodes
    num_loc = n - 1


class _E:
    name = "op"
    generator = _G()


rep = 0
for _ in range(200):
    sel = select_start_nodes(td, _E(), k).view(k, 2).T
    rep += len(set(sel[0].tolist())) < k
alone = sum(len(set(select_start_nodes(td[0:1], _E(), k).view(k, 1).T[0].tolist())) < k for _ in range(200))
print(f"(a) select_start_nodes[op]: instance 0 repeated starts in {rep}/200 draws next to a short instance; alone: {alone}/200")
bad += rep > 0 and alone == 0
# (c) the count of valid actions skips column 0 although column 0 can be drawn: for an env without a depot (TSP) and
#     n = number of nodes the count is one short, replacement is switched on and starts repeat although n distinct ones exist
full = TensorDict({"action_mask": torch.ones(1, n, dtype=torch.bool)}, batch_size=[1])
rep_c = sum(len(set(sample_n_random_actions(full, n).tolist())) < n for _ in range(200))
print(f"(c) sample_n_random_actions on an all-feasible mask of width {n}, n={n}: repeated starts in {rep_c}/200 draws")
bad += rep_c > 0
if bad:
    print("VIOLATION: an instance with >= k feasible start nodes gets repeated forced starts")
    sys.exit(1)
print("OK")
