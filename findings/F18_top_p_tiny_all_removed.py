"""F18 (C10): nucleus filtering removes EVERY action for a tiny top_p and the step distribution becomes NaN.

modify_logits_for_top_p_filtering removes the ascending-sorted entries whose cumulative probability is <= 1 - top_p.  For
top_p below float32 resolution (about 6e-8) 1 - top_p rounds to 1.0, the last cumulative sum is <= 1.0 as well, so the most
likely action is removed too: all logits are -inf and log_softmax returns NaN.  The property promises a normalised
distribution that always keeps the most likely feasible action for any top-p setting.
"""
import sys
import torch
from rl4co.utils.decoding import process_logits

torch.manual_seed(0)
logits = torch.randn(4, 7)
mask = torch.ones(4, 7, dtype=torch.bool)
bad = 0
for p in (0.9, 1e-3, 1e-6, 1e-8, 1e-9, 1e-12):
    lp = process_logits(logits.clone(), mask, top_p=p)
    probs = lp.exp()
    best_kept = bool((probs.gather(1, logits.argmax(-1, keepdim=True)) > 0).all())
    normal = bool(torch.allclose(probs.sum(-1), torch.ones(4), atol=1e-5))
    print(f"top_p={p:g}: normalised={normal} most-likely-action-kept={best_kept}")
    bad += (not normal) or (not best_kept)
if bad:
    print("VIOLATION: for tiny top_p every action is filtered out")
    sys.exit(1)
print("OK")
