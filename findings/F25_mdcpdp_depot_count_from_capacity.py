"""F25 (C01, C18): MDCPDPEnv counts its depots with td["capacity"].shape[-1], and the generator makes capacity [B, 1].

MDCPDPGenerator samples `capacity` with size (*batch_size, 1) whatever `num_depot` is, while `_step` / `_get_reward` take
`num_depot = td["capacity"].shape[-1]` (and index `capacity.gather(-1, current_depot)` per depot).  `_reset` lays the nodes
out from `generator.num_depot` (default 5): [depots | pickups | deliveries] with `to_deliver` open for the first
num_loc // 2 + num_depot nodes.  `_step` therefore believes there is ONE depot and (num_loc + num_depot - 1) customers:
pickup/delivery pairs are (a, a + (num_loc + num_depot - 1) // 2), the real depots 1.. are treated as pickups, and the first
real deliveries are open from the start.  A mask-confined rollout on the DEFAULT configuration delivers before picking up.
"""
import sys
import torch
from rl4co.envs.routing.mdcpdp.env import MDCPDPEnv

torch.manual_seed(0)
D, N = 5, 20
env = MDCPDPEnv(generator_params=dict(num_loc=N, num_depot=D))
bad = []
for trial in range(20):
    td = env.reset(batch_size=[8])
    acts = []
    while not td["done"].all() and len(acts) < 200:
        a = torch.multinomial(td["action_mask"].float(), 1).squeeze(-1)
        td["action"] = a
        td = env.step(td)["next"]
        acts.append(a)
    A = torch.stack(acts, 1)
    for b in range(A.shape[0]):
        seq = A[b].tolist()
        first = {}
        for t, a in enumerate(seq):
            first.setdefault(a, t)
        for i in range(N // 2):
            p, d = D + i, D + N // 2 + i          # the documented layout: [depots | pickups | deliveries]
            if d in first and (p not in first or first[d] < first[p]):
                bad.append((trial, b, p, d, first.get(p), first[d]))
    if bad:
        break
print("capacity shape:", tuple(td["capacity"].shape), " generator.num_depot:", env.generator.num_depot, " depots believed by _step:", td["capacity"].shape[-1])
if bad:
    t, b, p, d, tp, tdv = bad[0]
    print(f"VIOLATION: mask-confined rollout (trial {t}, row {b}) visits delivery node {d} at step {tdv} before its pickup node {p} (step {tp})")
    sys.exit(1)
print("OK: every delivery follows its pickup")
