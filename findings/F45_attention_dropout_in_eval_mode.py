"""F45 (C14): MultiHeadAttention.forward / MultiHeadCrossAttention.forward pass dropout_p=self.attention_dropout to the scaled
dot product attention regardless of self.training.  torch's SDPA (and the bundled simple implementation, F.dropout with its
default training=True) applies dropout whenever dropout_p > 0, so with the documented attention_dropout option the encoder is
stochastic in eval mode: the embedding of an instance -- and the greedy tour -- changes from call to call.
"""
import sys
import torch
from rl4co.models.nn.attention import MultiHeadAttention

torch.manual_seed(0)
mha = MultiHeadAttention(embed_dim=64, num_heads=4, attention_dropout=0.3).eval()
x = torch.randn(3, 10, 64)
with torch.no_grad():
    a, b = mha(x), mha(x)
diff = float((a - b).abs().max())
print(f"eval mode, same input, two calls: max abs difference of the output = {diff:.4f}")
if diff > 1e-6:
    print("VIOLATION: attention dropout is active in eval mode")
    sys.exit(1)
print("OK")
