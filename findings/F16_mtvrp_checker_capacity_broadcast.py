"""F16 (C06 / C04): MTVRP's solution checker compares every instance's load with EVERY instance's vehicle capacity.

check_solution_validity._check_c1 keeps used_cap with shape [B] and asserts used_cap <= td['vehicle_capacity'], which
has shape [B, 1]: the comparison broadcasts to [B, B].  With unequal capacities in one batch (unscaled data, mixed
files) a valid solution of the instance with the larger vehicle is rejected because its load exceeds the capacity of
ANOTHER instance; evaluated alone the same solution is accepted.
"""
import sys
import torch
from rl4co.envs import MTVRPEnv

torch.manual_seed(0)
torch.set_num_threads(2)
env = MTVRPEnv(generator_params=dict(num_loc=4, variant_preset="cvrp"), check_solution=True)
data = env.generator(batch_size=[2])
# instance 0: a big vehicle serving all four customers in one route; instance 1: a small vehicle, one customer per route
data["demand_linehaul"] = torch.tensor([[0.0, 0.2, 0.2, 0.2, 0.2], [0.0, 0.2, 0.2, 0.2, 0.2]])
data["vehicle_capacity"] = torch.tensor([[1.0], [0.25]])
acts = torch.tensor([[1, 2, 3, 4, 0, 0, 0, 0], [1, 0, 2, 0, 3, 0, 4, 0]])


def verdict(td, a):
    td = env.reset(td.clone())
    try:
        MTVRPEnv.check_solution_validity(td, a)
        return "accepted"
    except AssertionError as e:
        return "rejected (%s)" % str(e)[:60]


alone = [verdict(data[i:i + 1], acts[i:i + 1]) for i in range(2)]
together = verdict(data, acts)
print("alone:", alone, "| in one batch:", together)
if alone == ["accepted", "accepted"] and together != "accepted":
    print("VIOLATION: two solutions that are valid on their own are rejected when checked in one batch")
    sys.exit(1)
print("OK")
