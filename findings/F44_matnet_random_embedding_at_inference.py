"""F44 (C14): MatNetInitEmbedding.forward draws the column embeddings with torch.rand on every call, also in eval mode
(RandomOneHot / Random modes; RandomEncoding in nn/ops.py permutes its table per call the same way).  Greedy decoding of an
instance therefore depends on the state of the global random generator -- and with it on how many instances were decoded
before it and next to it: the same instance gets different tours alone, in a batch, and on a second call.
"""
import sys
import torch
from rl4co.envs import ATSPEnv
from rl4co.models.zoo.matnet import MatNetPolicy

torch.manual_seed(0)
env = ATSPEnv(generator_params=dict(num_loc=12))
policy = MatNetPolicy(env_name="atsp").eval()
td = env.reset(batch_size=[6])
with torch.no_grad():
    torch.manual_seed(1)
    a = policy(td.clone(), env, decode_type="greedy")
    b = policy(td.clone(), env, decode_type="greedy")            # same batch, second call
    torch.manual_seed(1)
    c = policy(td[:1].clone(), env, decode_type="greedy")         # instance 0 alone, same seed as the first call
print("rewards, first call :", [round(x, 4) for x in a["reward"].tolist()])
print("rewards, second call:", [round(x, 4) for x in b["reward"].tolist()])
print("instance 0 alone    :", round(float(c["reward"][0]), 4))
same = torch.equal(a["actions"], b["actions"]) and torch.equal(a["actions"][:1], c["actions"])
if not same:
    print("VIOLATION: greedy inference of the same instance gives different tours depending on the call / the batch")
    sys.exit(1)
print("OK")
