"""F17 (C12 nesting / C16 symmetric losses): SymNCO regroups (start, aug, batch) rollouts with the factors in the wrong order.

SymNCO.shared_step augments the batch first (rows (aug, batch)) and lets the policy expand it for multi-start (rows
(start, aug, batch)); it then calls unbatchify(x, (n_start, n_aug)).  unbatchify peels the LAST tuple element off the
major end of the row index, so the call treats the rows as (aug, start, batch).  With n_start > 1 and n_aug > 1 the cells
of the resulting [B, n_start, n_aug] tensor hold rollouts of other (start, aug) pairs (of the same instance): the
problem- / solution-symmetricity baselines average over mixed groups.  POMO uses (n_aug, n_start), which is consistent.
"""
import sys
import torch
from rl4co.utils.ops import batchify, unbatchify

B, A, S = 2, 2, 3
inst = torch.arange(B)
aug_rows_b = batchify(inst, A)                          # augmentation: rows (aug, batch)
aug_rows_a = torch.arange(A).repeat_interleave(B)
rows_b = batchify(aug_rows_b, S)                        # multi-start inside the policy: rows (start, aug, batch)
rows_a = batchify(aug_rows_a, S)
rows_s = torch.arange(S).repeat_interleave(A * B)
label = rows_s * 100 + rows_a * 10 + rows_b             # what each row really is

z = unbatchify(label, (S, A))                           # the call made by SymNCO.shared_step: claimed [B, n_start, n_aug]
want = torch.tensor([[[s * 100 + a * 10 + b for a in range(A)] for s in range(S)] for b in range(B)])
print("claimed [b, start, aug] cells of instance 0:\n", z[0], "\nshould be:\n", want[0])
if not torch.equal(z, want):
    print("VIOLATION: cell [b, s, a] does not hold the rollout (start s, augmentation a) of instance b")
    sys.exit(1)
print("OK")
