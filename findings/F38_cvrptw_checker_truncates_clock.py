"""F38 (C06): CVRPTWEnv.check_solution_validity truncates the simulated arrival time with `(curr_time + dist).int()`.
The mask and `_step` compare the real-valued time.  With the generator option scale=True every time lies in [0, 1], the
truncated arrival is always 0 and no time window is ever enforced; with scale=False up to one time unit of lateness is forgiven.
"""
import sys
import torch
from rl4co.envs import CVRPTWEnv

total_bad = total_acc = 0
for scale in (False, True):
    torch.manual_seed(1)
    env = CVRPTWEnv(generator_params=dict(num_loc=10, scale=scale))
    td0 = env.reset(batch_size=[256])
    n_bad = n_acc = 0
    for b in range(256):
        td1 = td0[b:b + 1]
        perm = torch.randperm(10) + 1
        seq = []
        for i, c in enumerate(perm.tolist()):          # two customers per route: load is never the problem
            seq.append(c)
            if i % 2 == 1:
                seq.append(0)
        t, cur, late = 0.0, 0, 0.0
        locs, tw, du = td1["locs"][0], td1["time_windows"][0], td1["durations"][0]
        for nx in seq:                                  # the problem definition, from the instance data alone
            t = max(t + float((locs[cur] - locs[nx]).norm()), float(tw[nx, 0]))
            late = max(late, t - float(tw[nx, 1]))
            t += float(du[nx])
            cur = nx
            if nx == 0:
                t = 0.0
        horizon = float(tw[0, 1])
        if late > 1e-4 * horizon:
            n_bad += 1
            try:
                env.check_solution_validity(td1, torch.tensor([seq]))
                n_acc += 1
            except AssertionError:
                pass
    print(f"scale={scale}: tours that miss a time window: {n_bad}; accepted by the checker: {n_acc}")
    total_bad += n_bad
    total_acc += n_acc
if total_acc:
    print("VIOLATION: the checker accepts tours that start service after the window has closed")
    sys.exit(1)
print("OK")
