"""F26 (C03, C01): MDCPDPEnv never switches `current_depot` to the depot a new tour starts from.

`current_depot = torch.where(back_flag, current_node, current_depot)` with back_flag = `moved to a depot that was already
visited`.  The mask only lets an agent return to `current_depot` itself, so the assignment can only ever rewrite the same
value: when the next agent starts from a fresh depot j (available[j] == 1 -> back_flag False) `current_depot` keeps the FIRST
depot.  Consequences on any instance with more than one tour:
  * every later tour is forced to end at the first depot instead of the depot it started from;
  * all leg lengths are accumulated in current_length[:, first depot], so the `minmax` reward (max over depots of the tour
    length) is minus the TOTAL length, i.e. identical to `minsum`.
"""
import sys
import torch
from rl4co.envs.routing.mdcpdp.env import MDCPDPEnv

torch.manual_seed(1)
D, N = 3, 8
env = MDCPDPEnv(generator_params=dict(num_loc=N, num_depot=D), reward_mode="minmax")
td = env.reset(batch_size=[16])
locs = td["locs"].clone()
acts = []
while not td["done"].all() and len(acts) < 100:
    a = torch.multinomial(td["action_mask"].float(), 1).squeeze(-1)
    td["action"] = a
    td = env.step(td)["next"]
    acts.append(a)
A = torch.stack(acts, 1)
rew = env.get_reward(td, A)
bad = 0
for b in range(A.shape[0]):
    seq = A[b].tolist() + [int(td["current_depot"][b, 0])]      # the env closes the last tour at current_depot
    # split into tours: a tour starts at a depot and ends at the next depot visit
    tours, cur = [], None
    for a in seq:
        if a < D:
            if cur is not None and len(cur) > 1:
                cur.append(a)
                tours.append(cur)
                cur = None
            if cur is None or len(cur) == 1:
                cur = [a]
        elif cur is not None:
            cur.append(a)
    real = [t for t in tours if len(t) > 2]
    if len(real) < 2:
        continue
    lens = []
    for t in real:
        p = locs[b, t]
        lens.append(float((p[1:] - p[:-1]).norm(dim=-1).sum()))
    ends_elsewhere = [t for t in real if t[0] != t[-1]]
    true_minmax = max(lens)
    if ends_elsewhere or abs(-float(rew[b]) - true_minmax) > 1e-4:
        bad += 1
        if bad == 1:
            print(f"row {b}: tours {real}")
            print(f"  tours that do not end where they started: {ends_elsewhere}")
            print(f"  tour lengths {['%.3f' % x for x in lens]}  max = {true_minmax:.3f}  sum = {sum(lens):.3f}  reported minmax cost = {-float(rew[b]):.3f}")
            print(f"  current_length = {td['current_length'][b].tolist()}")
if bad:
    print(f"VIOLATION: {bad} of 16 rows: a later tour ends at the first depot and/or the minmax reward is the total length")
    sys.exit(1)
print("OK")
