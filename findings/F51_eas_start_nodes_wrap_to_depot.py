"""F51 witness: EAS forward_eas wraps the start nodes `% num_starts` on top of env.select_start_nodes.
For a depot environment (CVRP) select_start_nodes returns customers 1..N; the extra modulus maps customer N to 0 -- the depot,
which the reset mask closes (depot -> depot while customers are servable) -- so an infeasible first action is emitted and
customer N is never a start node."""
import torch
from rl4co.envs import CVRPEnv
from rl4co.models.zoo.am import AttentionModelPolicy
from rl4co.models.zoo.eas.decoder import forward_eas, forward_pointer_attn_eas_lay
from rl4co.utils.ops import batchify

torch.manual_seed(0)
env = CVRPEnv(generator_params=dict(num_loc=8))
td = env.reset(env.generator(3))
policy = AttentionModelPolicy(env_name="cvrp", embed_dim=32, num_encoder_layers=1, num_heads=2)
n = env.get_num_starts(td)
first_mask = td["action_mask"].clone()
seen = {}
orig_step = env.step
def spy(t):
    if "first" not in seen:
        seen["first"] = t["action"].clone()
    return orig_step(t)
env.step = spy
emb, _ = policy.encoder(td)
cached = policy.decoder._precompute_cache(emb)
dec = policy.decoder
for a_ in ("temperature", "tanh_clipping", "mask_logits"):
    setattr(dec, a_, getattr(policy, a_, None))
with torch.no_grad():
    out = forward_eas(dec, td.clone(), cached, best_solutions=None, iter_count=0, env=env, decode_type="multistart_sampling", num_starts=n)
first = seen["first"]
maskb = batchify(first_mask, n + 1)
feas = maskb.gather(1, first[:, None]).squeeze(1)
print("forced first actions:", sorted(set(first.tolist())), "num_starts", n)
bad = (~feas).sum().item()
if bad:
    print(f"VIOLATED: {bad} of {len(first)} forced first actions are closed by the reset mask (the depot, index 0); customer {n} is a start node: {(first == n).any().item()}")
    raise SystemExit(1)
print("PASS")
