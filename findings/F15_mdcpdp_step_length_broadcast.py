"""F15 (C04 / C03): in a batch, every MDCPDP instance is charged the step lengths of instance 0.

MDCPDPEnv._step computes current_step_length with shape [B] and then masks it with a [B, 1]
condition: torch.where(cond[B,1], 0, length[B]) broadcasts to [B, B]; scatter_add_ with a [B, 1] index
reads column 0 of that matrix, i.e. the step length of batch row 0, for every row.  The reward of an
instance therefore depends on its batch-mates (all rows of a batch report row 0's route lengths).
"""
import sys
import torch
from rl4co.envs import MDCPDPEnv

torch.manual_seed(1)
torch.set_num_threads(2)
bad = 0
for mode in ("minsum", "minmax", "lateness"):
    env = MDCPDPEnv(generator_params=dict(num_loc=10), reward_mode=mode)
    data = env.generator(batch_size=[3])

    def roll(d):
        td = env.reset(d.clone())
        acts = []
        while not td["done"].all():
            a = td["action_mask"].float().argmax(-1)   # deterministic: first feasible node
            td.set("action", a)
            acts.append(a)
            td = env.step(td)["next"]
        return env.get_reward(td, torch.stack(acts, 1)).flatten()

    batched = roll(data)
    solo = torch.cat([roll(data[i:i + 1]) for i in range(3)])
    print(mode, "batched", [round(x, 4) for x in batched.tolist()], "alone", [round(x, 4) for x in solo.tolist()])
    if not torch.allclose(batched, solo, atol=1e-5):
        bad += 1
if bad:
    print("VIOLATION: rewards of the same instances with the same actions differ between batched and single evaluation")
    sys.exit(1)
print("OK")
