"""F32 (fourth construct) witness: the generic select_start_nodes forces customers 1..k as first moves for SVRP without consulting
the mask, but the first technician (the least skilled one, technicians are sorted ascendingly) cannot serve every customer: the
reset mask closes the customers whose required skill exceeds his level.  Forced multi-start first moves are infeasible although
at least k... (as many as the mask opens) feasible, distinct starts exist."""
import torch
from rl4co.envs import SVRPEnv

torch.manual_seed(0)
env = SVRPEnv(generator_params=dict(num_loc=10))
td = env.reset(env.generator(8))
mask = td["action_mask"]                      # [B, 1 + num_loc]
feasible_customers = mask[:, 1:].sum(-1)
keep = feasible_customers >= 2
td = td[keep]
mask = td["action_mask"]
feasible_customers = mask[:, 1:].sum(-1)
k = int(feasible_customers.min())
assert k >= 1
starts = env.select_start_nodes(td, num_starts=k)          # [k * B], row r belongs to instance r % B
B = mask.shape[0]
ok = mask[torch.arange(B).repeat(k), starts]
bad = int((~ok).sum())
print(f"feasible customers per instance at reset: {feasible_customers.tolist()}; k = {k}; forced starts: {starts.view(k, B).T.tolist()}")
if bad:
    print(f"VIOLATED: {bad} of {starts.numel()} forced first moves are closed by the reset mask (required skill above the first technician's) although every instance has at least {k} feasible starts")
    raise SystemExit(1)
print("PASS")
