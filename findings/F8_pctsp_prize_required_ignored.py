"""F8 (C01 / C05 / C06): PCTSP ignores the instance's prize requirement.

The generator parameter `prize_required` is written into every instance (td['prize_required']) and is read by the policy's
context embedding (remaining prize), but get_action_mask and check_solution_validity compare the collected prize with the
literal 1.0.  With prize_required = 2 the mask re-opens the depot at a collected prize of 1 and the checker accepts that tour
although the requirement is not met (and not all nodes are visited); with prize_required = 0.5 returning is hidden until 1.0.
"""
import sys
import torch
from rl4co.envs import PCTSPEnv

torch.manual_seed(0)
env = PCTSPEnv(generator_params=dict(num_loc=10, prize_required=2.0), check_solution=True)
td = env.reset(batch_size=[8])
req = td["prize_required"].clone()
acts = []
while not td["done"].all():
    m = td["action_mask"]
    a = torch.where(m[:, 0], torch.zeros(8, dtype=torch.long), m.float().argmax(-1))   # go home as soon as the mask allows it
    td.set("action", a)
    acts.append(a)
    td = env.step(td)["next"]
acts = torch.stack(acts, 1)
collected = td["cur_total_prize"]
n_visited = (acts != 0).sum(-1)
try:
    env.get_reward(td, acts)
    verdict = "accepted by check_solution_validity"
except AssertionError as e:
    verdict = "rejected: %s" % e
short = (collected < req - 1e-5) & (n_visited < 10)
print("required", req.tolist()[:4], "collected", [round(x, 3) for x in collected.tolist()[:4]], "customers visited", n_visited.tolist()[:4], "|", verdict)
if short.any() and verdict.startswith("accepted"):
    print(f"VIOLATION: {int(short.sum())} of 8 mask-confined tours end with less than the required prize and are accepted")
    sys.exit(1)
print("OK")
