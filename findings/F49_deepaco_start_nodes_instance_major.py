"""F49 (C12): AntSystem.select_start_node_fn draws `multinomial(action_mask, num_starts)` -> [B, k] and flattens it with
.view(-1), i.e. in (instance, start) order.  The decoding hook replicates the state with batchify, whose rows are in
(start, instance) order: row r belongs to instance r mod B.  Row r therefore receives a start node that was drawn from the mask
of instance r // k -- for instances with different first-step masks (OP: nodes out of reach) a forced start can be infeasible
for the instance it is applied to.
"""
import sys
import torch
from tensordict import TensorDict
from rl4co.models.zoo.deepaco.antsystem import AntSystem


class _Env:
    name = "op"


torch.manual_seed(0)
B, N, k = 3, 6, 4
mask = torch.zeros(B, N, dtype=torch.bool)
mask[0, [1, 2]] = True          # each instance has its own feasible start nodes
mask[1, [3]] = True
mask[2, [4, 5]] = True
td = TensorDict({"action_mask": mask}, batch_size=[B])
starts = AntSystem.select_start_node_fn(td, _Env(), k)
rows = torch.arange(B * k)
owner = rows % B                                                   # batchify layout: row r <-> instance r mod B
feasible = mask[owner, starts]
print("start nodes per replicated row:", starts.tolist())
print("feasible for the instance the row belongs to:", feasible.int().tolist())
if not bool(feasible.all()):
    print(f"VIOLATION: {int((~feasible).sum())} of {B * k} forced start nodes are infeasible for their instance")
    sys.exit(1)
print("OK")
