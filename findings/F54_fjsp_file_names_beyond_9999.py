"""F54 witness: FJSP instance files are named with a 4-digit zero-padded index; the readers list the directory with sorted().
From the 10000th instance on (the default val_data_size is 10 000) the name '10000_..' sorts before '1000_..': the instance
read back at position i is not the instance written at position i.  Writing 10 001 tiny instances through parser.write and
listing them as the file generators do."""
import os, tempfile, shutil, torch
from tensordict import TensorDict
from rl4co.envs.scheduling.fjsp import parser

n = 10001
td = TensorDict({
    "proc_times": torch.ones(n, 1, 1),
    "pad_mask": torch.zeros(n, 1, dtype=torch.bool),
    "next_op": torch.zeros(n, 1, dtype=torch.long),
    "job_ops_adj": torch.ones(n, 1, 1),
}, batch_size=[n])
# make instance i recognisable: its only duration is i + 1
td["proc_times"][:, 0, 0] = torch.arange(1, n + 1).float()
d = tempfile.mkdtemp()
try:
    parser.write(d, td)
    files = sorted(os.listdir(d))
    first_tokens = []
    for f in files:
        with open(os.path.join(d, f)) as fh:
            lines = [l for l in fh.read().splitlines() if l.strip()]
        first_tokens.append(int(lines[1].split()[-1]))   # the duration of the single operation
    wrong = [i for i, v in enumerate(first_tokens) if v != i + 1]
finally:
    shutil.rmtree(d)
if wrong:
    i = wrong[0]
    print(f"VIOLATED: {len(wrong)} of {n} positions hold another instance after the sorted listing; first at position {i}: file {files[i]} holds instance {first_tokens[i]}")
    raise SystemExit(1)
print("PASS")
