"""Witness for F2 (C14): dimension-less .squeeze() in env context embeddings removes the batch
axis when the batch size is 1: decoding a single instance fails (or changes rank) although the
same instance decodes fine inside a batch of 2."""
import torch
from rl4co.envs import get_env
from rl4co.models.zoo.am import AttentionModelPolicy

torch.manual_seed(0)
cases = [("mtsp", {}, {}), ("pdp", {}, {"use_graph_context": False}), ("svrp", {}, {"use_graph_context": False}), ("mdcpdp", {}, {"use_graph_context": False})]
for name, ekw, pkw in cases:
    env = get_env(name, generator_params=dict(num_loc=10), **ekw)
    policy = AttentionModelPolicy(env_name=name, embed_dim=32, num_encoder_layers=1, num_heads=2, **pkw).eval()
    td2 = env.reset(batch_size=[2])
    out2 = policy(td2.clone(), env, decode_type="greedy")
    td1 = td2[:1].clone()
    try:
        out1 = policy(td1, env, decode_type="greedy")
    except Exception as e:  # noqa
        raise AssertionError(f"{name}: decoding a batch of ONE instance fails ({type(e).__name__}: {str(e)[:80]}) while a batch of two works")
    assert torch.allclose(out1["reward"], out2["reward"][:1], atol=1e-4), f"{name}: solo reward {out1['reward']} != batched {out2['reward'][:1]}"
    print(name, "ok")
print("PASS")
