"""F31 (C05): SVRPEnv prunes `depot -> depot`, but in SVRP that move is not pointless: it sends out the NEXT technician.

The mask closes the depot while the vehicle is at the depot and some customer the current technician can serve exists
(the CVRP pruning).  In SVRP returning to the depot ends the current technician's route and hands over to the next, more
expensive and more skilled one.  A cheap technician can therefore never stay idle, although leaving him idle can be optimal:
depot (0,0), A (1,0) needs skill 0.5, B (1,0.05) needs skill 1.5, technicians (skill, cost) = (1, 1), (2, 2).
Technician 2 has to go to B anyway (cost 2 per unit); serving A on the way (0 -> A -> B -> 0) costs 2 * 2.05 = 4.10, while the
mask forces technician 1 to serve A first (2.0) before technician 2 drives to B and back (4.0): 6.0.
"""
import itertools
import sys
import torch
from tensordict import TensorDict
from rl4co.envs import SVRPEnv

env = SVRPEnv(generator_params=dict(num_loc=2))
gen = env.generator(batch_size=[1])
inst = gen.clone()
inst["locs"] = torch.tensor([[[1.0, 0.0], [1.0, 0.05]]])
inst["depot"] = torch.tensor([[0.0, 0.0]])
inst["techs"] = torch.tensor([[[1.0], [2.0]]]) if inst["techs"].dim() == 3 else torch.tensor([[1.0, 2.0]])
inst["skills"] = torch.tensor([[[0.5], [1.5]]]) if inst["skills"].dim() == 3 else torch.tensor([[0.5, 1.5]])
env.tech_costs = [1, 2]


def best_through_mask():
    best = None
    stack = [(env.reset(inst.clone()), [])]
    while stack:
        td, acts = stack.pop()
        if bool(td["done"].all()):
            r = float(env.get_reward(td, torch.tensor([acts])))
            best = r if best is None or r > best else best
            continue
        if len(acts) > 8:
            continue
        for a in torch.nonzero(td["action_mask"][0]).flatten().tolist():
            t = td.clone()
            t["action"] = torch.tensor([a])
            stack.append((env.step(t)["next"], acts + [a]))
    return best


reach = best_through_mask()
# feasible solution the mask never offers: technician 1 idle (depot first), technician 2 serves A then B
td = env.reset(inst.clone())
idle_first_offered = bool(td["action_mask"][0, 0])
ref = float(env.get_reward(env.reset(inst.clone()), torch.tensor([[0, 1, 2]]))) if not env.check_solution else None
if ref is None:
    env.check_solution = False
    ref = float(env.get_reward(env.reset(inst.clone()), torch.tensor([[0, 1, 2]])))
print(f"best cost reachable through the mask: {-reach:.3f}; cost of `technician 1 idle, technician 2 serves A and B`: {-ref:.3f}")
print(f"depot offered as the first action (technician 1 stays idle): {idle_first_offered}")
if -ref < -reach - 1e-6 and not idle_first_offered:
    print("VIOLATION: a feasible solution better than everything the mask offers exists (the depot -> depot hand-over is pruned)")
    sys.exit(1)
print("OK")
