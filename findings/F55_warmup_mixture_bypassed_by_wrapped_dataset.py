"""F55 (C20): WarmupBaseline with n_epochs >= 2 around a baseline that wraps the training set (the greedy rollout baseline).
After the first epoch 0 < alpha < 1.  WarmupBaseline.wrap_dataset delegates to the inner baseline as soon as alpha > 0, so every
training batch carries the inner baseline's per-instance values under "extra"; REINFORCE.calculate_loss then takes
`bl_val = extra` and never calls WarmupBaseline.eval: the inner baseline enters the surrogate with weight 1 instead of the stated
alpha, and the exponential warm-up baseline with weight 0 instead of 1 - alpha.  Two sites that each look fine alone
(wrap_dataset: `alpha > 0`; calculate_loss: `eval(...) if extra is None else (extra, 0)`).
Everything below is the library's code; only RolloutBaseline.rollout (the leaf that would need a trained policy) returns a constant.
"""
import sys
import torch
from tensordict import TensorDict
from rl4co.data.dataset import TensorDictDataset
from rl4co.models.rl.reinforce.baselines import WarmupBaseline, RolloutBaseline
from rl4co.models.rl.reinforce.reinforce import REINFORCE

inner = RolloutBaseline()
inner.rollout = lambda policy, env, batch_size=64, device="cpu", dataset=None: torch.full((len(dataset),), -4.0)   # greedy value -4
inner.eval = lambda td, reward, env=None: (torch.full_like(reward, -4.0), 0)
inner.epoch_callback = lambda *a, **k: None
inner.policy = None
bl = WarmupBaseline(inner, n_epochs=2, warmup_exp_beta=0.0)       # beta 0: the warm-up value is the batch mean of the reward
bl.epoch_callback(None, epoch=0)                                   # alpha = 1/2
assert bl.alpha == 0.5
ds = bl.wrap_dataset(TensorDictDataset(TensorDict({"locs": torch.rand(2, 5, 2)}, batch_size=[2])), None)
batch = ds.collate_fn([ds[0], ds[1]])
print("alpha:", bl.alpha, " training set wrapped with the inner baseline's values:", "extra" in batch.keys())

reward = torch.tensor([-7.0, -7.0])
logp = torch.tensor([-1.0, -1.0])
stated, _ = bl.eval(None, reward)                                  # 0.5 * (-4) + 0.5 * (-7) = -5.5
self = type("M", (), {})()
self.baseline, self.env = bl, None
self.advantage_scaler = lambda a: a
out = REINFORCE.calculate_loss(self, batch, batch, {"reward": reward, "log_likelihood": logp}, reward, logp)
print("baseline value used by REINFORCE.calculate_loss:", out["bl_val"].tolist(), " stated convex combination:", stated.tolist())
if not torch.allclose(out["bl_val"].float(), stated.float()):
    print("VIOLATION: with 0 < alpha < 1 the inner baseline is used at weight 1; the warm-up mixture is bypassed")
    sys.exit(1)
print("OK")
