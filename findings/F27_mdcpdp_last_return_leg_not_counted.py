"""F27 (C03): MDCPDPEnv (problem_mode='close') never counts the return leg of the LAST tour.

The episode is done with the last delivery; `_get_reward` appends the closing depot to the action sequence
(`actions = torch.cat([actions, td["current_depot"]], -1)`) but then reads the cost from the accumulator
td["current_length"], which is only advanced by `_step` and therefore stops at the last delivery.  Every earlier tour is
charged for its way back to the depot (the return is an explicit step), the last one is not: the reported `minsum` cost is
the length of all closed tours MINUS the last return leg.
"""
import sys
import torch
from rl4co.envs.routing.mdcpdp.env import MDCPDPEnv

torch.manual_seed(3)
D, N = 2, 6
env = MDCPDPEnv(generator_params=dict(num_loc=N, num_depot=D), reward_mode="minsum", problem_mode="close")
td = env.reset(batch_size=[8])
locs = td["locs"].clone()
acts = []
while not td["done"].all() and len(acts) < 100:
    a = torch.multinomial(td["action_mask"].float(), 1).squeeze(-1)
    td["action"] = a
    td = env.step(td)["next"]
    acts.append(a)
A = torch.stack(acts, 1)
rew = env.get_reward(td, A)
bad = 0
for b in range(A.shape[0]):
    seq = A[b].tolist() + [int(td["current_depot"][b, 0])]   # close the last tour at its depot
    total, last_leg = 0.0, 0.0
    for u, v in zip(seq[:-1], seq[1:]):
        leg = float((locs[b, u] - locs[b, v]).norm())
        if u < D and v < D:
            leg = 0.0                                         # moving between depots opens the next tour, costs nothing
        total += leg
    last_leg = float((locs[b, seq[-2]] - locs[b, seq[-1]]).norm())
    rep = -float(rew[b])
    if abs(rep - total) > 1e-4:
        bad += 1
        if bad == 1:
            print(f"row {b}: actions {A[b].tolist()} (+ return to depot {seq[-1]})")
            print(f"  length of all closed tours = {total:.4f}; reported cost = {rep:.4f}; difference = {total - rep:.4f}; last return leg = {last_leg:.4f}")
if bad:
    print(f"VIOLATION: {bad} of 8 rows: the reported cost omits the last tour's return leg")
    sys.exit(1)
print("OK")
