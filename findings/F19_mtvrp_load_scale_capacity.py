"""F19 (C19): MTVRPEnv.load_data(scale=True) rescales the demands but not the vehicle capacity.

A dataset written by the generator with scale_demand=False stores integer demands, vehicle_capacity = capacity_original = C.
The generator's own scaling (scale_demand=True) divides demand_linehaul, demand_backhaul AND vehicle_capacity by C.
load_data(scale=True) divides only the two demands: the loaded instances have demands in [0, 1] and a vehicle capacity of C,
so the capacity constraint never binds -- masks, solutions and rewards differ from those of the generated (scaled) instances.
"""
import os
import sys
import tempfile
import torch
from rl4co.envs import MTVRPEnv
from rl4co.data.utils import save_tensordict_to_npz

torch.manual_seed(0)
raw_env = MTVRPEnv(generator_params=dict(num_loc=10, variant_preset="cvrp", scale_demand=False))
raw = raw_env.generator(batch_size=[4])
path = os.path.join(tempfile.mkdtemp(), "mtvrp.npz")
save_tensordict_to_npz(raw, path)

env = MTVRPEnv(generator_params=dict(num_loc=10, variant_preset="cvrp"))
loaded = env.load_data(path, scale=True)
C = raw["capacity_original"]
want_cap = raw["vehicle_capacity"] / C            # what the generator's own scaling produces
print("demand_linehaul max after load:", float(loaded["demand_linehaul"].max()), "| vehicle_capacity after load:", loaded["vehicle_capacity"].flatten().tolist(),
      "| scaled generator would give:", want_cap.flatten().tolist())
if not torch.allclose(torch.as_tensor(loaded["vehicle_capacity"], dtype=torch.float32), want_cap.float()):
    print("VIOLATION: demands were normalised by the capacity, the capacity itself was not")
    sys.exit(1)
print("OK")
