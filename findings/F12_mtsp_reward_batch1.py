"""Witness for F12 (C04): MTSPEnv._get_reward (minmax) returns td["reward"].squeeze(-1); the
reward has shape [B], so at batch size 1 the batch axis itself is squeezed away ([] instead of [1])."""
import torch
from rl4co.envs import MTSPEnv
from rl4co.utils.decoding import rollout
from rl4co.utils.ops import gather_by_index

env = MTSPEnv(generator_params=dict(num_loc=6, min_num_agents=2, max_num_agents=2))


def run(td):
    acts = []
    while not td["done"].all():
        a = td["action_mask"].float().argmax(-1)
        td.set("action", a)
        acts.append(a)
        td = env.step(td)["next"]
    return td, torch.stack(acts, 1)


td2 = env.reset(batch_size=[2])
td1 = td2[:1].clone()
tdf2, a2 = run(td2.clone())
r2 = env.get_reward(tdf2, a2)
tdf1, a1 = run(td1)
r1 = env.get_reward(tdf1, a1)
print("batched reward", tuple(r2.shape), "solo reward", tuple(r1.shape))
assert r2.shape == (2,)
assert r1.shape == (1,), f"reward of a batch of one instance has shape {tuple(r1.shape)} (batch axis squeezed away)"
assert torch.allclose(r1, r2[:1])
print("PASS")
