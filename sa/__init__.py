"""Static analyser for ai4co/rl4co (stdlib `ast` only; never imports or executes the repo)."""
