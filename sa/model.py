"""E1 -- repository model: modules, imports, classes, C3 MRO, method / name resolution.

Everything is built from the *source text* of the current working tree of the repo
(`ast.parse`); nothing is imported.
"""
from __future__ import annotations

import ast
import hashlib
import os
import warnings
from dataclasses import dataclass, field
from typing import Dict, List, Optional, Tuple


_PARSE_CACHE: Dict[tuple, ast.Module] = {}  # ASTs are never mutated by the analyser


class AnalysisError(Exception):
    """The analyser cannot establish its own preconditions (exit 2, never a VIOLATION)."""


@dataclass(eq=False, repr=False)
class FuncInfo:
    name: str
    node: ast.FunctionDef
    module: "ModuleInfo"
    cls: Optional["ClassInfo"] = None
    kind: str = "function"  # function | method | staticmethod | classmethod

    @property
    def qualname(self) -> str:
        if self.cls is not None:
            return f"{self.cls.name}.{self.name}"
        return self.name

    @property
    def fq(self) -> str:
        return f"{self.module.name}:{self.qualname}"

    @property
    def loc(self) -> str:
        return f"{self.module.relpath}:{self.node.lineno}"

    def params(self) -> List[str]:
        a = self.node.args
        return [x.arg for x in a.posonlyargs + a.args]


@dataclass(eq=False, repr=False)
class ClassInfo:
    name: str
    node: ast.ClassDef
    module: "ModuleInfo"
    base_exprs: List[ast.expr] = field(default_factory=list)
    methods: Dict[str, FuncInfo] = field(default_factory=dict)
    class_attrs: Dict[str, ast.expr] = field(default_factory=dict)
    _bases: Optional[List[object]] = None  # ClassInfo | str (external dotted)

    @property
    def fq(self) -> str:
        return f"{self.module.name}:{self.name}"


@dataclass(eq=False, repr=False)
class ModuleInfo:
    name: str  # dotted
    path: str
    relpath: str
    source: str
    tree: ast.Module
    is_pkg: bool
    imports: Dict[str, Tuple[str, Optional[str]]] = field(default_factory=dict)
    functions: Dict[str, FuncInfo] = field(default_factory=dict)
    classes: Dict[str, ClassInfo] = field(default_factory=dict)
    assigns: Dict[str, ast.expr] = field(default_factory=dict)


class Repo:
    def __init__(self, root: str, package: str = "rl4co", overrides: Optional[Dict[str, str]] = None):
        """`overrides` maps relpath -> source text (used by the in-memory self-test only)."""
        self.root = os.path.abspath(root)
        self.package = package
        self.modules: Dict[str, ModuleInfo] = {}
        self.by_relpath: Dict[str, ModuleInfo] = {}
        self.consulted: Dict[str, str] = {}
        self.overrides = overrides or {}
        from . import vg as _vg
        _vg.reset_state()  # a new source universe invalidates every interned value
        self._load()

    # ------------------------------------------------------------------ loading
    def _load(self):
        pkgdir = os.path.join(self.root, self.package)
        if not os.path.isdir(pkgdir):
            raise AnalysisError(f"package directory not found: {pkgdir}")
        for dirpath, dirnames, filenames in os.walk(pkgdir):
            dirnames[:] = sorted(d for d in dirnames if d != "__pycache__")
            for fn in sorted(filenames):
                if not fn.endswith(".py"):
                    continue
                path = os.path.join(dirpath, fn)
                rel = os.path.relpath(path, self.root)
                parts = rel[:-3].split(os.sep)
                is_pkg = parts[-1] == "__init__"
                if is_pkg:
                    parts = parts[:-1]
                name = ".".join(parts)
                if rel in self.overrides:
                    src = self.overrides[rel]
                else:
                    with open(path, "r", encoding="utf-8") as f:
                        src = f.read()
                ck = (rel, hash(src))
                tree = _PARSE_CACHE.get(ck)
                if tree is None:
                    try:
                        with warnings.catch_warnings():
                            warnings.simplefilter("ignore")
                            tree = ast.parse(src, filename=rel)
                    except SyntaxError as e:
                        raise AnalysisError(f"cannot parse {rel}: {e}")
                    _PARSE_CACHE[ck] = tree
                mi = ModuleInfo(name, path, rel, src, tree, is_pkg)
                self.modules[name] = mi
                self.by_relpath[rel] = mi
        for mi in self.modules.values():
            self._index(mi)

    def _index(self, mi: ModuleInfo):
        def handle(stmts):
            for st in stmts:
                if isinstance(st, ast.Import):
                    for a in st.names:
                        if a.asname:
                            mi.imports[a.asname] = (a.name, None)
                        else:
                            mi.imports[a.name.split(".")[0]] = (a.name.split(".")[0], None)
                elif isinstance(st, ast.ImportFrom):
                    base = st.module or ""
                    if st.level:
                        pk = mi.name.split(".")
                        if not mi.is_pkg:
                            pk = pk[:-1]
                        if st.level > 1:
                            pk = pk[: len(pk) - (st.level - 1)]
                        base = ".".join(pk + ([st.module] if st.module else []))
                    for a in st.names:
                        mi.imports[a.asname or a.name] = (base, a.name)
                elif isinstance(st, (ast.FunctionDef, ast.AsyncFunctionDef)):
                    mi.functions[st.name] = FuncInfo(st.name, st, mi)
                elif isinstance(st, ast.ClassDef):
                    ci = ClassInfo(st.name, st, mi, list(st.bases))
                    for b in st.body:
                        if isinstance(b, (ast.FunctionDef, ast.AsyncFunctionDef)):
                            kind = "method"
                            for d in b.decorator_list:
                                dn = d.id if isinstance(d, ast.Name) else getattr(d, "attr", None)
                                if dn == "staticmethod":
                                    kind = "staticmethod"
                                elif dn == "classmethod":
                                    kind = "classmethod"
                            ci.methods[b.name] = FuncInfo(b.name, b, mi, ci, kind)
                        elif isinstance(b, ast.Assign):
                            for t in b.targets:
                                if isinstance(t, ast.Name):
                                    ci.class_attrs[t.id] = b.value
                        elif isinstance(b, ast.AnnAssign) and isinstance(b.target, ast.Name) and b.value is not None:
                            ci.class_attrs[b.target.id] = b.value
                    mi.classes[st.name] = ci
                elif isinstance(st, ast.Assign):
                    for t in st.targets:
                        if isinstance(t, ast.Name):
                            mi.assigns[t.id] = st.value
                elif isinstance(st, ast.AnnAssign) and isinstance(st.target, ast.Name) and st.value is not None:
                    mi.assigns[st.target.id] = st.value
                elif isinstance(st, ast.Try):
                    handle(st.body)
                    for h in st.handlers:
                        handle(h.body)
                    handle(st.orelse)
                elif isinstance(st, ast.If):
                    handle(st.body)
                    handle(st.orelse)

        handle(mi.tree.body)

    # ------------------------------------------------------------------ source sites
    def locate(self, relpath: str, lineno: int, col: int, end_lineno: int = 0, end_col: int = 0):
        """-> (qualified name of the innermost enclosing function, normalised source text of
        the expression starting at that position) for reports and exception keys."""
        mi = self.by_relpath.get(relpath)
        if mi is None:
            return "?", "?"
        idx = getattr(mi, "_site_index", None)
        if idx is None:
            idx = {}
            funcs = []

            def visit(node, qual):
                for ch in ast.iter_child_nodes(node):
                    q = qual
                    if isinstance(ch, (ast.FunctionDef, ast.AsyncFunctionDef, ast.ClassDef)):
                        q = f"{qual}.{ch.name}" if qual else ch.name
                        if not isinstance(ch, ast.ClassDef):
                            funcs.append((ch.lineno, getattr(ch, "end_lineno", ch.lineno), q))
                    if isinstance(ch, ast.expr) and hasattr(ch, "lineno"):
                        k = (ch.lineno, ch.col_offset)
                        # outermost expression starting at a position wins for calls; keep all by type
                        idx.setdefault(k, []).append(ch)
                    visit(ch, q)

            visit(mi.tree, "")
            mi._site_index = idx
            mi._func_spans = funcs
        fn = "?"
        best = None
        for lo, hi, q in mi._func_spans:
            if lo <= lineno <= hi and (best is None or lo >= best[0]):
                best = (lo, q)
        if best:
            fn = best[1]
        nodes = idx.get((lineno, col), [])
        text = "?"
        if nodes:
            # the largest expression starting here that is a Call or Subscript, else the largest
            exact = [n for n in nodes if (getattr(n, "end_lineno", 0), getattr(n, "end_col_offset", 0)) == (end_lineno, end_col)]
            pref = exact or [n for n in nodes if isinstance(n, (ast.Call, ast.Subscript))] or nodes
            n = max(pref, key=lambda x: (getattr(x, "end_lineno", 0), getattr(x, "end_col_offset", 0)))
            try:
                text = ast.unparse(n)
            except Exception:
                text = "?"
        return fn, text

    # ------------------------------------------------------------------ digest
    @staticmethod
    def alpha(text: str) -> str:
        """Key form of a source expression: invariant under renaming of variables and under mirrored comparisons.
        Every bare name that is not called and not a well-known module / receiver becomes a positional placeholder
        `_1, _2, ...` (first occurrence order); `a > b` is written `b < a`, `a >= b` as `b <= a`, and the operands of
        `==` / `!=` are ordered.  Attribute names, string keys, constants and call targets are kept."""
        return alpha_key(text)

    def note(self, mi: ModuleInfo):
        if mi.relpath not in self.consulted:
            self.consulted[mi.relpath] = hashlib.sha256(mi.source.encode()).hexdigest()[:16]

    def digest(self) -> str:
        h = hashlib.sha256()
        for k in sorted(self.consulted):
            h.update(k.encode())
            h.update(self.consulted[k].encode())
        return h.hexdigest()[:16]

    # ------------------------------------------------------------------ lookup
    def module(self, name: str) -> ModuleInfo:
        if name not in self.modules:
            raise AnalysisError(f"module not found: {name}")
        mi = self.modules[name]
        self.note(mi)
        return mi

    def module_by_path(self, relpath: str) -> ModuleInfo:
        if relpath not in self.by_relpath:
            raise AnalysisError(f"file not found: {relpath}")
        mi = self.by_relpath[relpath]
        self.note(mi)
        return mi

    def resolve_global(self, mi: ModuleInfo, name: str, _depth=0):
        """Resolve a module-level name to ('class', ClassInfo) | ('func', FuncInfo) |
        ('module', dotted) | ('const', ast.expr, ModuleInfo) | ('external', dotted) | None."""
        if _depth > 12:
            return None
        if name in mi.classes:
            self.note(mi)
            return ("class", mi.classes[name])
        if name in mi.functions:
            self.note(mi)
            return ("func", mi.functions[name])
        if name in mi.imports:
            base, attr = mi.imports[name]
            if attr is None:
                if base in self.modules:
                    return ("module", base)
                return ("external", base)
            sub = f"{base}.{attr}" if base else attr
            if sub in self.modules:
                return ("module", sub)
            if base in self.modules:
                r = self.resolve_global(self.modules[base], attr, _depth + 1)
                if r is not None:
                    return r
                return ("external", sub)
            return ("external", sub)
        if name in mi.assigns:
            self.note(mi)
            return ("const", mi.assigns[name], mi)
        return None

    def resolve_dotted(self, mi: ModuleInfo, expr: ast.expr):
        """Resolve Name / Attribute chains against module globals."""
        if isinstance(expr, ast.Name):
            return self.resolve_global(mi, expr.id)
        if isinstance(expr, ast.Attribute):
            base = self.resolve_dotted(mi, expr.value)
            if base is None:
                return None
            if base[0] == "module":
                sub = f"{base[1]}.{expr.attr}"
                if sub in self.modules:
                    return ("module", sub)
                return self.resolve_global(self.modules[base[1]], expr.attr) or ("external", sub)
            if base[0] == "external":
                return ("external", f"{base[1]}.{expr.attr}")
            if base[0] == "class":
                ci = base[1]
                r = self.resolve_method(ci, expr.attr)
                if r is not None:
                    return ("func", r)
                return None
        return None

    def get_class(self, relpath: str, name: str) -> ClassInfo:
        mi = self.module_by_path(relpath)
        if name not in mi.classes:
            raise AnalysisError(f"class {name} not found in {relpath}")
        return mi.classes[name]

    def get_function(self, relpath: str, name: str) -> FuncInfo:
        mi = self.module_by_path(relpath)
        if "." in name:
            c, m = name.split(".", 1)
            if c not in mi.classes or m not in mi.classes[c].methods:
                raise AnalysisError(f"function {name} not found in {relpath}")
            return mi.classes[c].methods[m]
        if name not in mi.functions:
            raise AnalysisError(f"function {name} not found in {relpath}")
        return mi.functions[name]

    def find_class(self, name: str) -> List[ClassInfo]:
        return [m.classes[name] for m in self.modules.values() if name in m.classes]

    # ------------------------------------------------------------------ classes
    def bases(self, ci: ClassInfo) -> List[object]:
        if ci._bases is None:
            out: List[object] = []
            for b in ci.base_exprs:
                r = self.resolve_dotted(ci.module, b)
                if r is not None and r[0] == "class":
                    out.append(r[1])
                else:
                    try:
                        out.append("ext:" + ast.unparse(b))
                    except Exception:
                        out.append("ext:?")
            ci._bases = out
        return ci._bases

    def mro(self, ci: ClassInfo) -> List[object]:
        """C3 linearisation; external bases appear as 'ext:<expr>' strings."""
        def lin(c) -> List[object]:
            if isinstance(c, str):
                return [c]
            seqs = [lin(b) for b in self.bases(c)] + [list(self.bases(c))]
            res: List[object] = [c]
            seqs = [list(s) for s in seqs if s]
            while seqs:
                for s in seqs:
                    cand = s[0]
                    if not any(cand in t[1:] for t in seqs):
                        break
                else:
                    raise AnalysisError(f"inconsistent MRO for {c.name}")
                res.append(cand)
                seqs = [[x for x in s if not (x is cand or (isinstance(x, str) and x == cand))] for s in seqs]
                seqs = [s for s in seqs if s]
            return res

        return lin(ci)

    def mro_fully_in_repo(self, ci: ClassInfo, allowed_ext=("object", "metaclass")) -> bool:
        for c in self.mro(ci):
            if isinstance(c, str):
                return False
        return True

    def resolve_method(self, ci: ClassInfo, name: str, after: Optional[ClassInfo] = None) -> Optional[FuncInfo]:
        """First definition of `name` in ci's MRO; if `after` is given, start after that class
        (this is `super()` semantics from within a method defined in `after`)."""
        mro = self.mro(ci)
        start = 0
        if after is not None:
            for i, c in enumerate(mro):
                if c is after:
                    start = i + 1
                    break
            else:
                return None
        for c in mro[start:]:
            if isinstance(c, str):
                continue
            if name in c.methods:
                self.note(c.module)
                return c.methods[name]
        return None

    def resolve_class_attr(self, ci: ClassInfo, name: str):
        for c in self.mro(ci):
            if isinstance(c, str):
                continue
            if name in c.class_attrs:
                return c.class_attrs[name], c
        return None

    def subclasses(self, base: ClassInfo) -> List[ClassInfo]:
        out = []
        for m in self.modules.values():
            for c in m.classes.values():
                if c is base:
                    continue
                try:
                    if base in self.mro(c):
                        out.append(c)
                except AnalysisError:
                    pass
        return out


_ALPHA_KEEP = {"self", "cls", "td", "torch", "F", "nn", "np", "math", "True", "False", "None", "len", "range", "int", "float", "bool", "str", "list", "tuple", "dict",
               "set", "min", "max", "sum", "abs", "any", "all", "zip", "enumerate", "isinstance", "hasattr", "getattr", "slice", "print", "super", "type", "sorted", "reversed", "map"}
_ALPHA_CACHE: Dict[str, str] = {}


def alpha_key(text: str) -> str:
    if text in _ALPHA_CACHE:
        return _ALPHA_CACHE[text]
    try:
        tree = ast.parse(text, mode="eval")
    except SyntaxError:
        _ALPHA_CACHE[text] = text
        return text
    called = {id(n.func) for n in ast.walk(tree) if isinstance(n, ast.Call) and isinstance(n.func, ast.Name)}

    class Mirror(ast.NodeTransformer):
        def visit_Compare(self, node):
            self.generic_visit(node)
            if len(node.ops) == 1:
                op, a, b = node.ops[0], node.left, node.comparators[0]
                if isinstance(op, (ast.Gt, ast.GtE)):
                    return ast.Compare(left=b, ops=[ast.Lt() if isinstance(op, ast.Gt) else ast.LtE()], comparators=[a])
                if isinstance(op, (ast.Eq, ast.NotEq)) and ast.dump(a) > ast.dump(b):
                    return ast.Compare(left=b, ops=[op], comparators=[a])
            return node
    tree = Mirror().visit(tree)

    class Size(ast.NodeTransformer):
        def visit_Subscript(self, node):
            self.generic_visit(node)
            if isinstance(node.value, ast.Attribute) and node.value.attr == "shape" and not isinstance(node.slice, (ast.Slice, ast.Tuple)):
                return ast.Call(func=ast.Attribute(value=node.value.value, attr="size", ctx=ast.Load()), args=[node.slice], keywords=[])
            return node
    tree = Size().visit(tree)

    class Get(ast.NodeTransformer):
        """x.get('key')  ->  x['key']  (TensorDict read without a default)"""
        def visit_Call(self, node):
            self.generic_visit(node)
            if isinstance(node.func, ast.Attribute) and node.func.attr == "get" and len(node.args) == 1 and not node.keywords \
                    and isinstance(node.args[0], ast.Constant) and isinstance(node.args[0].value, str):
                return ast.Subscript(value=node.func.value, slice=node.args[0], ctx=ast.Load())
            return node
    tree = Get().visit(tree)

    class Axis(ast.NodeTransformer):
        """x.m(dim=k) -> x.m(k), torch.f(x, dim=k) -> torch.f(x, k) for axis-taking calls; commutative operands ordered"""
        M = {"sum", "mean", "amax", "amin", "argmax", "argmin", "cumsum", "softmax", "log_softmax", "squeeze", "unsqueeze", "all", "any", "prod", "std", "var", "max", "min"}
        F = {"cat", "stack", "sum", "mean", "cumsum", "softmax", "argmax", "squeeze", "unsqueeze", "concat"}

        def visit_Call(self, node):
            self.generic_visit(node)
            if isinstance(node.func, ast.Attribute):
                torchy = isinstance(node.func.value, ast.Name) and node.func.value.id == "torch"
                dk = [k for k in node.keywords if k.arg == "dim"]
                if dk and ((not torchy and node.func.attr in self.M and not node.args) or (torchy and node.func.attr in self.F and len(node.args) == 1)):
                    node.args = list(node.args) + [dk[0].value]
                    node.keywords = [k for k in node.keywords if k.arg != "dim"]
            return node

        def visit_BinOp(self, node):
            self.generic_visit(node)
            if isinstance(node.op, (ast.Add, ast.Mult, ast.BitAnd, ast.BitOr)) and ast.dump(node.left) > ast.dump(node.right):
                return ast.BinOp(left=node.right, op=node.op, right=node.left)
            return node
    tree = Axis().visit(tree)
    ast.fix_missing_locations(tree)
    names: Dict[str, str] = {}
    # deterministic first-occurrence order = source order of the mirrored tree
    order = []

    def walk(n):
        if isinstance(n, ast.Name):
            order.append(n)
        for ch in ast.iter_child_nodes(n):
            walk(ch)
    walk(tree)
    for n in order:
        if id(n) in called or n.id in _ALPHA_KEEP:
            continue
        if n.id not in names:
            names[n.id] = f"_{len(names) + 1}"
        n.id = names[n.id]
    try:
        out = ast.unparse(tree)
    except Exception:
        out = text
    _ALPHA_CACHE[text] = out
    return out


def canon_counters(fn_node):
    """A copy of a function's AST in which the two spellings of a counter step are one: `k = k + c` / `k = c + k` / `k = k - c`
    (k a name, c an integer literal) become `k += c` / `k -= c`.  Rules that look for `the counter is advanced once` read this."""
    import ast
    import copy

    class _C(ast.NodeTransformer):
        def visit_Assign(self, n):
            self.generic_visit(n)
            if len(n.targets) == 1 and isinstance(n.targets[0], ast.Name) and isinstance(n.value, ast.BinOp) and isinstance(n.value.op, (ast.Add, ast.Sub)):
                k = n.targets[0].id
                l, r = n.value.left, n.value.right
                is_c = lambda x: isinstance(x, ast.Constant) and isinstance(x.value, int) and not isinstance(x.value, bool)
                if isinstance(l, ast.Name) and l.id == k and is_c(r):
                    return ast.copy_location(ast.AugAssign(target=ast.Name(id=k, ctx=ast.Store()), op=n.value.op, value=r), n)
                if isinstance(n.value.op, ast.Add) and isinstance(r, ast.Name) and r.id == k and is_c(l):
                    return ast.copy_location(ast.AugAssign(target=ast.Name(id=k, ctx=ast.Store()), op=ast.Add(), value=l), n)
            return n
    out = _C().visit(copy.deepcopy(fn_node))
    ast.fix_missing_locations(out)
    return out


def returned_exprs(fn_node, within=None):
    """Expressions a function (or the statement list `within`) returns, looking through `tmp = <expr>; return tmp`
    (a local that is assigned exactly once in the function)."""
    scope = within if within is not None else fn_node.body
    out = []
    assigns = {}
    for n in ast.walk(fn_node):
        if isinstance(n, ast.Assign) and len(n.targets) == 1 and isinstance(n.targets[0], ast.Name):
            assigns.setdefault(n.targets[0].id, []).append(n.value)
    rets = []
    for st in scope:
        for n in ast.walk(st):
            if isinstance(n, ast.Return) and n.value is not None:
                rets.append(n.value)
    for v in rets:
        if isinstance(v, ast.Name) and len(assigns.get(v.id, [])) >= 1:
            # the assignment that textually precedes this return inside the same block, else the only one
            cands = assigns[v.id]
            prev = [c for c in cands if (c.lineno, c.col_offset) < (v.lineno, v.col_offset)]
            out.append(prev[-1] if prev else cands[0])
        else:
            out.append(v)
    return out
