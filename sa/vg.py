"""E3 -- value graph: def-use resolution of a function into interned expression DAGs.

A syntax-directed abstract walk over the AST of a function (and, inter-procedurally, of the
resolved callees that receive a TensorDict or are methods of the analysed class).  Nothing of
the repository is executed: every Python expression becomes an interned node `S(op, args)`;
locals, `self.x` attributes and *TensorDict cells* (td x constant key) map to the node of
their reaching definition; `if` merges produce `phi(test, a, b)` nodes, loops produce
`loop(init, body)` nodes.  Rules then query the DAG: slices (which cells/params a value
depends on), normal forms (sa.nf), boolean structure (sa.boolnf), ordering (which definition
a read sees).

No path enumeration, no solver: this is reaching-definitions + expression reconstruction.
"""
from __future__ import annotations

import ast
from typing import Any, Callable, Dict, List, Optional, Tuple

from .model import AnalysisError, ClassInfo, FuncInfo, ModuleInfo, Repo

# ----------------------------------------------------------------------------- nodes


class S:
    __slots__ = ("op", "args", "tag", "id", "_canon", "_atoms")

    def __init__(self, op, args, tag, id_):
        self.op = op
        self.args = args
        self.tag = tag
        self.id = id_
        self._canon = None
        self._atoms = None

    def __repr__(self):
        return show(self, 4)


_INTERN: Dict[tuple, S] = {}
_NEXT = [0]


def _k(a):
    if isinstance(a, S):
        return ("s", a.id)
    if isinstance(a, tuple):
        return ("t",) + tuple(_k(x) for x in a)
    return (type(a).__name__, a)


def mk(op: str, *args, tag=None) -> S:
    key = (op, tag, tuple(_k(a) for a in args))
    s = _INTERN.get(key)
    if s is None:
        _NEXT[0] += 1
        s = S(op, args, tag, _NEXT[0])
        _INTERN[key] = s
    return s


def const(v) -> S:
    return mk("const", v)


def is_const(s, v=None) -> bool:
    if not isinstance(s, S) or s.op != "const":
        return False
    return True if v is None else (type(s.args[0]) is type(v) and s.args[0] == v) or (
        not isinstance(v, bool) and not isinstance(s.args[0], bool) and isinstance(v, (int, float)) and isinstance(s.args[0], (int, float)) and s.args[0] == v
    )


def is_none(s) -> bool:
    """the literal None (is_const(x, None) means "any literal")"""
    return isinstance(s, S) and s.op == "const" and s.args[0] is None


def canon(s):
    """Same DAG with call-site tags removed (structural comparison across functions)."""
    if not isinstance(s, S):
        if isinstance(s, tuple):
            return tuple(canon(x) for x in s)
        return s
    if s._canon is None:
        s._canon = mk(s.op, *[canon(a) for a in s.args])
        s._canon._canon = s._canon
    return s._canon


LOOP_BODY: Dict[int, "S"] = {}  # loopvar placeholder id -> value at the end of the loop body
LOOP_PH: Dict[int, "S"] = {}  # loopvar placeholder id -> the placeholder node
SITE_OF: Dict[int, tuple] = {}  # untagged node id (subscripts) -> first source site (relpath, line, col)


def site_of(n: "S"):
    if n.tag is not None and isinstance(n.tag, tuple) and len(n.tag) >= 6 and isinstance(n.tag[0], str):
        return n.tag[:3] + n.tag[4:6]
    return SITE_OF.get(n.id)


def children(s: S):
    if s.op == "loopvar":
        b = LOOP_BODY.get(s.id)
        if b is not None:
            yield b
    for a in s.args:
        if isinstance(a, S):
            yield a
        elif isinstance(a, tuple):
            for x in a:
                if isinstance(x, S):
                    yield x


def walk(s: S, stop: Optional[Callable[[S], bool]] = None):
    seen = set()
    stack = [s]
    while stack:
        n = stack.pop()
        if n.id in seen:
            continue
        seen.add(n.id)
        yield n
        if stop is not None and stop(n):
            continue
        stack.extend(children(n))


ATOM_OPS = {"cell0", "param", "selfattr", "self", "global", "ext", "func", "class", "get0", "cellany", "tdref", "unknown", "iter_opaque"}


def atoms(s: S) -> frozenset:
    """Leaf atoms a value depends on (data and, through phi/loop tests, control)."""
    if s._atoms is None:
        out = set()
        for n in walk(s):
            if n.op in ATOM_OPS:
                out.add(n)
        s._atoms = frozenset(out)
    return s._atoms


SHAPE_ATTRS = {"shape", "device", "dtype", "ndim", "batch_size", "is_cuda"}
AXIS_METHODS = {"sum", "mean", "amax", "amin", "argmax", "argmin", "cumsum", "softmax", "log_softmax", "squeeze", "unsqueeze", "all", "any", "prod", "std", "var",
                "max", "min", "flip", "cumprod", "logsumexp", "median", "sort", "argsort"}
AXIS_FUNCS = {"torch.cat", "torch.stack", "torch.concat", "torch.sum", "torch.mean", "torch.cumsum", "torch.softmax", "torch.log_softmax", "torch.argmax", "torch.squeeze",
              "torch.unsqueeze", "torch.max", "torch.min", "torch.unbind", "torch.nn.functional.softmax", "torch.nn.functional.log_softmax", "torch.count_nonzero", "torch.all", "torch.any"}
SHAPE_METHS = {"size", "dim", "numel", "new", "new_zeros", "new_ones", "new_full", "new_empty", "type"}
LIKE_FUNCS = {"torch.zeros_like", "torch.ones_like", "torch.empty_like", "torch.full_like", "len"}


def shape_only(n: S) -> bool:
    """Nodes whose value does not depend on the *values* held by their tensor operand."""
    if n.op == "attr" and n.args[1] in SHAPE_ATTRS:
        return True
    if n.op == "meth" and n.args[1] in SHAPE_METHS:
        return True
    if n.op == "call" and isinstance(n.args[0], S) and n.args[0].op in ("ext", "global") and n.args[0].args[0] in LIKE_FUNCS:
        return True
    return False


_VATOMS: Dict[int, frozenset] = {}


def value_atoms(s: S) -> frozenset:
    """Atoms a value depends on through *values* (shape/dtype/device-only uses are ignored)."""
    r = _VATOMS.get(s.id)
    if r is None:
        out = set()
        for n in walk(s, stop=shape_only):
            if n.op in ATOM_OPS and not shape_only(n):
                out.add(n)
        r = frozenset(out)
        _VATOMS[s.id] = r
    return r


def cells_of(s: S, td_name: Optional[str] = None, shapes: bool = False) -> set:
    """Keys of initial TensorDict cells that a value depends on (by value; with
    `shapes=True` also through shape/device-only uses)."""
    out = set()
    for a in (atoms(s) if shapes else value_atoms(s)):
        if a.op in ("cell0", "get0") and (td_name is None or a.args[0] == td_name):
            out.add(a.args[1])
        elif a.op == "cellany":
            out.add("*")
    return out


def params_of(s: S) -> set:
    return {a.args[0] for a in value_atoms(s) if a.op == "param"}


def selfattrs_of(s: S) -> set:
    return {a.args[0] for a in value_atoms(s) if a.op == "selfattr"}


def show(s, depth=6) -> str:
    if not isinstance(s, S):
        if isinstance(s, tuple):
            return "(" + ", ".join(show(x, depth) for x in s) + ")"
        return repr(s)
    if depth <= 0:
        return "…"
    o, a = s.op, s.args
    d = depth - 1
    if o == "const":
        return repr(a[0])
    if o == "cell0":
        return f'{a[0]}["{a[1]}"]'
    if o == "get0":
        return f'{a[0]}.get("{a[1]}")'
    if o == "param":
        return f"{a[0]}"
    if o == "selfattr":
        return f"self.{a[0]}"
    if o in ("global", "ext", "func", "class"):
        return str(a[0])
    if o == "attr":
        return f"{show(a[0], d)}.{a[1]}"
    if o == "sub":
        return f"{show(a[0], d)}[{show(a[1], d)}]"
    if o == "call":
        return f"{show(a[0], d)}({', '.join(show(x, d) for x in a[1:])})"
    if o == "meth":
        return f"{show(a[0], d)}.{a[1]}({', '.join(show(x, d) for x in a[2:])})"
    if o == "kw":
        return f"{a[0]}={show(a[1], d)}"
    if o in BINOPS.values() or o in CMPOPS.values():
        return f"({show(a[0], d)} {o} {show(a[1], d)})"
    if o in ("neg", "inv", "not", "pos"):
        return {"neg": "-", "inv": "~", "not": "not ", "pos": "+"}[o] + show(a[0], d)
    if o == "tuple":
        return "(" + ", ".join(show(x, d) for x in a) + ")"
    if o == "list":
        return "[" + ", ".join(show(x, d) for x in a) + "]"
    if o == "slice":
        return ":".join("" if is_const(x) and x.args[0] is None else show(x, d) for x in a)
    return f"{o}<" + ", ".join(show(x, d) for x in a) + ">"


BINOPS = {
    ast.Add: "+", ast.Sub: "-", ast.Mult: "*", ast.Div: "/", ast.FloorDiv: "//", ast.Mod: "%",
    ast.Pow: "**", ast.MatMult: "@", ast.BitAnd: "&", ast.BitOr: "|", ast.BitXor: "^",
    ast.LShift: "<<", ast.RShift: ">>",
}
CMPOPS = {
    ast.Lt: "<", ast.LtE: "<=", ast.Gt: ">", ast.GtE: ">=", ast.Eq: "==", ast.NotEq: "!=",
    ast.Is: "is", ast.IsNot: "isnot", ast.In: "in", ast.NotIn: "notin",
}

SELF = mk("self")
_RESET_HOOKS: List[Callable[[], None]] = []


def reset_state():
    """Forget every interned node and derived cache (one analysis run = one fresh universe;
    loop placeholders are keyed by source position, so caches must not survive a change of
    the analysed sources)."""
    _INTERN.clear()
    LOOP_BODY.clear()
    LOOP_PH.clear()
    SITE_OF.clear()
    _VATOMS.clear()
    SELF._canon = None
    SELF._atoms = None
    _INTERN[("self", None, ())] = SELF
    for h in _RESET_HOOKS:
        h()

# ----------------------------------------------------------------------------- TensorDict model


class TD:
    """Abstract TensorDict: cells addressed by constant string keys."""

    _uid = [0]

    def __init__(self, name: str, closed=False, parent=None):
        TD._uid[0] += 1
        self.uid = TD._uid[0]
        self.name = name
        self.cells: Dict[str, S] = {}
        self.closed = closed  # created by TensorDict({...}): unknown keys are missing
        self.parent: Optional[Tuple["TD", S]] = parent  # (td, index) for td[mask] views
        self.opaque_updates: List[S] = []

    def __repr__(self):
        return f"<TD {self.name}#{self.uid} {sorted(self.cells)}>"


class Tup:
    """A Python tuple holding at least one non-symbolic object (a TD or a closure)."""

    def __init__(self, items):
        self.items = list(items)


class Closure:
    def __init__(self, node, frame):
        self.node = node
        self.frame = frame


class Frame:
    def __init__(self, func: Optional[FuncInfo], module: ModuleInfo, cls: Optional[ClassInfo], parent=None, callnode=None):
        self.func = func
        self.module = module
        self.cls = cls  # class that *defines* the running function (for super())
        self.parent = parent
        self.callnode = callnode
        self.locals: Dict[str, Any] = {}
        self.reads: List[Tuple[int, str, S, ast.AST]] = []
        self.writes: List[Tuple[int, str, S, ast.AST, str]] = []
        self.returns: List[Tuple[Optional[S], Any]] = []
        self.ret: Any = None
        self.enclosing: Optional["Frame"] = None
        self.depth = 0 if parent is None else parent.depth + 1
        self.nograd = False

    @property
    def name(self):
        return self.func.qualname if self.func else "<module>"


class Event:
    __slots__ = ("kind", "frame", "node", "data", "conds", "seq")

    def __init__(self, kind, frame, node, data, conds, seq):
        self.kind, self.frame, self.node, self.data, self.conds, self.seq = kind, frame, node, data, conds, seq

    def __repr__(self):
        return f"<{self.kind}@{getattr(self.node, 'lineno', '?')} {self.data}>"


INPLACE_OK = ("requires_grad_",)

TD_PARAM_NAMES = ("td", "td_reset", "td_init", "batch", "td_load", "tensordict", "td_new", "next_td", "td_aug", "td_step", "td_op")

# ----------------------------------------------------------------------------- interpreter


class Interp:
    def __init__(self, repo: Repo, selfcls: Optional[ClassInfo] = None, inline_depth=8,
                 inline_policy: Optional[Callable[[FuncInfo, list], bool]] = None,
                 no_inline: Tuple[str, ...] = ()):
        self.repo = repo
        self.selfcls = selfcls
        self.inline_depth = inline_depth
        self.inline_policy = inline_policy
        self.no_inline = set(no_inline)
        self.events: List[Event] = []
        self.tds: List[TD] = []
        self.selfattrs: Dict[str, Any] = {}
        self.frames: List[Frame] = []
        self.conds: List[S] = []
        self.call_frames: List[Frame] = []  # every inlined frame, in call order
        self.unresolved: List[str] = []
        self._seq = 0
        self.nograd_depth = 0

    # ---------------------------------------------------------------- helpers
    @property
    def frame(self) -> Frame:
        return self.frames[-1]

    def new_td(self, name, closed=False, parent=None) -> TD:
        t = TD(name, closed, parent)
        self.tds.append(t)
        return t

    def emit(self, kind, node, data):
        self._seq += 1
        ev = Event(kind, self.frame if self.frames else None, node, data, tuple(self.conds), self._seq)
        self.events.append(ev)
        return ev

    def site(self, node):
        return (self.frame.module.relpath, getattr(node, "lineno", 0), getattr(node, "col_offset", 0), self._chain(),
                getattr(node, "end_lineno", 0), getattr(node, "end_col_offset", 0))

    def _chain(self):
        # distinguishes the same syntactic call site inlined through different call chains
        return tuple(getattr(f.callnode, "lineno", 0) for f in self.frames[1:])

    # ---------------------------------------------------------------- TD cells
    def td_read(self, td: TD, key: str, node=None) -> S:
        if key in td.cells:
            v = td.cells[key]
        elif td.parent is not None:
            ptd, idx = td.parent
            v = mk("sub", self.td_read(ptd, key, node), idx)
            td.cells[key] = v
        elif td.closed:
            v = mk("missing", td.name, key)
            self.emit("missing-key", node, (td, key))
        else:
            v = mk("cell0", td.name, key)
            td.cells[key] = v
        if self.frames:
            for f in self.frames:
                f.reads.append((td.uid, key, v, node))
        return v

    def td_write(self, td: TD, key: str, val, node=None, kind="whole"):
        if self.nograd_depth and isinstance(val, S):
            val = mk("nograd", val)
        if not isinstance(val, S):
            val = self.as_sym(val)
        td.cells[key] = val
        for f in self.frames:
            f.writes.append((td.uid, key, val, node, kind))
        self.emit("tdwrite", node, (td, key, val, kind))

    def as_sym(self, v) -> S:
        if isinstance(v, S):
            return v
        if isinstance(v, TD):
            return mk("tdref", v.name, v.uid)
        if isinstance(v, Closure):
            return mk("closure", getattr(v.node, "name", "<lambda>"), tag=id(v.node))
        if isinstance(v, Tup):
            return mk("tuple", *[self.as_sym(x) for x in v.items])
        if isinstance(v, (list, tuple)):
            return mk("tuple", *[self.as_sym(x) for x in v])
        return const(v) if isinstance(v, (int, float, str, bool, type(None))) else mk("unknown", repr(v))

    def replace_identity(self, old: S, new: S):
        if old is new:
            return
        for f in self.frames:
            for k, v in list(f.locals.items()):
                if v is old:
                    f.locals[k] = new
            if f.enclosing is not None:
                for k, v in list(f.enclosing.locals.items()):
                    if v is old:
                        f.enclosing.locals[k] = new
        for td in self.tds:
            for k, v in list(td.cells.items()):
                if v is old:
                    td.cells[k] = new
                    for f in self.frames:
                        f.writes.append((td.uid, k, new, None, "inplace"))
                    self.emit("tdwrite", None, (td, k, new, "inplace"))
        for k, v in list(self.selfattrs.items()):
            if v is old:
                self.selfattrs[k] = new

    # ---------------------------------------------------------------- snapshots
    def snapshot(self):
        return (
            [dict(f.locals) for f in self.frames],
            {td.uid: dict(td.cells) for td in self.tds},
            dict(self.selfattrs),
            len(self.tds),
        )

    def restore(self, snap):
        locs, cells, sa, ntd = snap
        for f, l in zip(self.frames, locs):
            f.locals = dict(l)
        for td in self.tds:
            if td.uid in cells:
                td.cells = dict(cells[td.uid])
            else:
                td.cells = {}
        self.selfattrs = dict(sa)

    def merge(self, test: S, sa, sb):
        """Current state := phi(test, sa, sb)."""
        la, ca, aa, _ = sa
        lb, cb, ab, _ = sb
        for f, xa, xb in zip(self.frames, la, lb):
            out = {}
            for k in set(xa) | set(xb):
                va, vb = xa.get(k), xb.get(k)
                if va is vb:
                    out[k] = va
                elif va is None or vb is None:
                    other = va if vb is None else vb
                    if isinstance(other, S):
                        out[k] = mk("phi", test, other if vb is None else mk("undef", k), mk("undef", k) if vb is None else other)
                    else:
                        out[k] = other
                elif isinstance(va, S) and isinstance(vb, S):
                    out[k] = mk("phi", test, va, vb)
                elif isinstance(va, TD) and isinstance(vb, TD):
                    out[k] = va  # same-object case handled by `is`; different TDs: keep first
                else:
                    out[k] = va if isinstance(va, (TD, Closure)) else vb
            f.locals = out
        for td in self.tds:
            xa, xb = ca.get(td.uid, {}), cb.get(td.uid, {})
            out = {}
            for k in set(xa) | set(xb):
                va, vb = xa.get(k), xb.get(k)
                if va is vb:
                    out[k] = va
                    continue
                if va is None:
                    va = mk("cell0", td.name, k) if not td.closed else mk("missing", td.name, k)
                if vb is None:
                    vb = mk("cell0", td.name, k) if not td.closed else mk("missing", td.name, k)
                out[k] = va if va is vb else mk("phi", test, va, vb)
            td.cells = out
        out = {}
        for k in set(aa) | set(ab):
            va, vb = aa.get(k), ab.get(k)
            if va is vb:
                out[k] = va
            elif isinstance(va, S) and isinstance(vb, S):
                out[k] = mk("phi", test, va, vb)
            elif va is None or vb is None:
                other = va if vb is None else vb
                out[k] = mk("phi", test, self.as_sym(other), mk("selfattr", k)) if isinstance(other, S) else other
            else:
                out[k] = va
        self.selfattrs = out

    # ---------------------------------------------------------------- entry
    def run_function(self, fi: FuncInfo, args: Optional[Dict[str, Any]] = None, selfcls: Optional[ClassInfo] = None):
        """Analyse `fi` as an entry point.  Parameters default to TD objects (when they look
        like TensorDicts) or `param` atoms."""
        if selfcls is not None:
            self.selfcls = selfcls
        fr = Frame(fi, fi.module, fi.cls)
        self.repo.note(fi.module)
        a = fi.node.args
        allargs = a.posonlyargs + a.args + a.kwonlyargs
        for i, p in enumerate(allargs):
            if i == 0 and fi.kind in ("method", "classmethod") and fi.cls is not None:
                fr.locals[p.arg] = SELF if fi.kind == "method" else mk("class", fi.cls.fq)
                continue
            if args and p.arg in args:
                fr.locals[p.arg] = args[p.arg]
            elif self._looks_td(p):
                fr.locals[p.arg] = self.new_td(p.arg)
            else:
                fr.locals[p.arg] = mk("param", p.arg)
        if a.vararg:
            fr.locals[a.vararg.arg] = mk("param", "*" + a.vararg.arg)
        if a.kwarg:
            fr.locals[a.kwarg.arg] = mk("param", "**" + a.kwarg.arg)
        self.frames.append(fr)
        self.call_frames.append(fr)
        nog = self._decorated_nograd(fi)
        if nog:
            self.nograd_depth += 1
        try:
            self.exec_block(fi.node.body)
        finally:
            if nog:
                self.nograd_depth -= 1
            self.frames.pop()
        fr.ret = self._fold_returns(fr)
        if nog and isinstance(fr.ret, S):
            fr.ret = mk("nograd", fr.ret)
        return fr

    def _decorated_nograd(self, fi: FuncInfo) -> bool:
        for d in fi.node.decorator_list:
            try:
                t = ast.unparse(d)
            except Exception:
                continue
            if "no_grad" in t or "inference_mode" in t:
                return True
        return False

    def _looks_td(self, p: ast.arg) -> bool:
        if p.arg in ("actions", "action", "reward", "rewards", "logits", "mask"):
            return False  # mis-annotated tensors in the repo (e.g. `actions: TensorDict`)
        if p.annotation is not None:
            try:
                t = ast.unparse(p.annotation)
            except Exception:
                t = ""
            if "TensorDict" in t:
                return True
            if t in ("torch.Tensor", "Tensor", "int", "float", "bool", "str", "list", "tuple"):
                return False
        return p.arg in TD_PARAM_NAMES or p.arg.startswith("td_") or p.arg == "td"

    def _fold_returns(self, fr: Frame):
        if not fr.returns:
            return const(None)
        res = fr.returns[-1][1]
        for cond, val in reversed(fr.returns[:-1]):
            if val is res:
                continue
            if isinstance(val, Tup) and isinstance(res, Tup) and len(val.items) == len(res.items):
                items = []
                for a, b in zip(val.items, res.items):
                    if a is b or not (isinstance(a, S) and isinstance(b, S)):
                        items.append(b if not isinstance(a, TD) else a)
                    else:
                        items.append(mk("phi", cond if cond is not None else mk("unknown", "path"), a, b))
                res = Tup(items)
                continue
            if isinstance(val, S) and isinstance(res, S) and cond is not None:
                res = mk("phi", cond, val, res)
            elif isinstance(val, TD) and isinstance(res, TD):
                pass
            elif isinstance(val, S) and isinstance(res, S):
                res = mk("phi", mk("unknown", "path"), val, res)
        return res

    # ---------------------------------------------------------------- statements
    def exec_block(self, stmts) -> bool:
        """Returns True when every path through the block terminated (return / raise)."""
        for st in stmts:
            if self.exec_stmt(st):
                return True
        return False

    def exec_stmt(self, st) -> bool:
        m = getattr(self, "st_" + type(st).__name__, None)
        if m is None:
            self.emit("unhandled-stmt", st, type(st).__name__)
            return False
        return bool(m(st))

    def st_Pass(self, st):
        return False

    def st_Import(self, st):
        return False

    st_ImportFrom = st_Import
    st_Global = st_Import
    st_Nonlocal = st_Import

    def st_Break(self, st):
        return False

    st_Continue = st_Break

    def st_Delete(self, st):
        for t in st.targets:
            if isinstance(t, ast.Name):
                self.frame.locals.pop(t.id, None)
        return False

    def st_Expr(self, st):
        if isinstance(st.value, ast.Constant):
            return False
        self.eval(st.value)
        return False

    def st_Return(self, st):
        val = self.eval(st.value) if st.value is not None else const(None)
        cond = None
        fr_conds = self.conds[self.frame_cond_base():]
        if fr_conds:
            cond = fr_conds[0] if len(fr_conds) == 1 else mk("and", *fr_conds)
        self.frame.returns.append((cond, val))
        self.emit("return", st, val)
        return True

    def frame_cond_base(self) -> int:
        return getattr(self.frame, "_cond_base", 0)

    def st_Raise(self, st):
        self.emit("raise", st, self.eval(st.exc) if st.exc is not None else None)
        return True

    def st_Assert(self, st):
        t = self.eval(st.test)
        self.emit("assert", st, t)
        return False

    def st_FunctionDef(self, st):
        self.frame.locals[st.name] = Closure(st, self.frame)
        return False

    st_AsyncFunctionDef = st_FunctionDef

    def st_ClassDef(self, st):
        self.frame.locals[st.name] = mk("localclass", st.name)
        return False

    def st_Assign(self, st):
        val = self.eval(st.value)
        if self.nograd_depth and isinstance(val, S) and not isinstance(st.value, (ast.Name, ast.Attribute)):
            val = mk("nograd", val)  # (a plain `x = y` only creates another reference to the same object)
        for t in st.targets:
            self.assign(t, val, st)
        return False

    def st_AnnAssign(self, st):
        if st.value is not None:
            val = self.eval(st.value)
            self.assign(st.target, val, st)
        return False

    def st_AugAssign(self, st):
        op = BINOPS[type(st.op)]
        rhs = self.sym(self.eval(st.value))
        t = st.target
        if isinstance(t, ast.Name):
            old = self.lookup(t.id, t)
            olds = self.sym(old)
            new = mk(op, olds, rhs)
            if self.nograd_depth:
                new = mk("nograd", new)
            if self._numberish(olds):
                self.frame.locals[t.id] = new
            else:
                self.set_name(t.id, new)
                self.replace_identity(olds, new)
                self.set_name(t.id, new)
        elif isinstance(t, ast.Subscript):
            base = self.eval(t.value)
            if isinstance(base, TD):
                key = self.eval(t.slice)
                if is_const(key) and isinstance(key.args[0], str):
                    old = self.td_read(base, key.args[0], t)
                    self.td_write(base, key.args[0], mk(op, old, rhs), st, kind="aug")
                else:
                    self.emit("td-dynamic-write", st, (base, key))
            else:
                idx = self.sym(self.eval(t.slice))
                bs = self.sym(base)
                new = mk("store", bs, idx, mk(op, mk("sub", bs, idx), rhs))
                self.replace_identity(bs, new)
                self._rebind_target_base(t.value, bs, new)
        elif isinstance(t, ast.Attribute):
            old = self.sym(self.eval(t))
            new = mk(op, old, rhs)
            self.assign(t, new, st)
            if not self._numberish(old):
                # `self.x += v` on a tensor attribute mutates the tensor in place: every other
                # holder of the old object (e.g. `old = self.x` taken before) now sees the new value
                self.replace_identity(old, new)
                self.assign(t, new, st)
        return False

    def _numberish(self, s: S) -> bool:
        if s.op == "const":
            return True
        if s.op in ("+", "-", "*", "//", "%"):
            return all(isinstance(a, S) and self._numberish(a) for a in s.args)
        if s.op == "call" and isinstance(s.args[0], S) and s.args[0].op in ("global", "ext") and s.args[0].args[0] in ("len", "int", "float", "builtins.len"):
            return True
        return False

    def _rebind_target_base(self, node, old, new):
        # x[idx] = v where x is a local holding a value not shared by identity
        if isinstance(node, ast.Name):
            cur = self.frame.locals.get(node.id)
            if cur is old:
                self.frame.locals[node.id] = new

    def assign(self, target, val, st):
        if isinstance(target, ast.Name):
            self.set_name(target.id, val)
        elif isinstance(target, (ast.Tuple, ast.List)) and isinstance(val, Tup) and len(val.items) == len(target.elts) and not any(isinstance(e, ast.Starred) for e in target.elts):
            for e, v in zip(target.elts, val.items):
                self.assign(e, v, st)
        elif isinstance(target, (ast.Tuple, ast.List)):
            n = len(target.elts)
            vs = self.sym(val) if not isinstance(val, (list,)) else None
            for i, e in enumerate(target.elts):
                if isinstance(e, ast.Starred):
                    self.assign(e.value, mk("sub", vs, mk("slice", const(i), const(None), const(None))), st)
                    continue
                if vs is not None and vs.op in ("tuple", "list") and len(vs.args) == n and not any(isinstance(x, ast.Starred) for x in target.elts):
                    item = vs.args[i]
                    raw = self._raw_tuple_item(val, i)
                    self.assign(e, raw if raw is not None else item, st)
                else:
                    self.assign(e, mk("sub", vs, const(i)), st)
        elif isinstance(target, ast.Subscript):
            base = self.eval(target.value)
            if isinstance(base, TD):
                key = self.eval(target.slice)
                if isinstance(key, S) and is_const(key) and isinstance(key.args[0], str):
                    self.td_write(base, key.args[0], val if isinstance(val, S) else self.as_sym(val), st)
                elif isinstance(val, TD):
                    idx = self.sym(key)
                    for k, v in list(val.cells.items()):
                        old = self.td_read(base, k, target)
                        self.td_write(base, k, mk("store", old, idx, v), st, kind="rowmerge")
                    self.emit("td-rowmerge", st, (base, idx, val))
                else:
                    self.emit("td-dynamic-write", st, (base, key))
                    base.opaque_updates.append(self.sym(val))
            else:
                idx = self.sym(self.eval(target.slice))
                bs = self.sym(base)
                new = mk("store", bs, idx, self.sym(val))
                if self.nograd_depth:
                    new = mk("nograd", new)
                self.replace_identity(bs, new)
                self._rebind_target_base(target.value, bs, new)
                self.emit("store", st, (bs, idx, self.sym(val), new))
        elif isinstance(target, ast.Attribute):
            base = self.eval(target.value)
            if base is SELF:
                self.selfattrs[target.attr] = val
                self.emit("selfwrite", st, (target.attr, val))
            else:
                self.emit("attrwrite", st, (self.sym(base), target.attr, self.sym(val)))
        elif isinstance(target, ast.Starred):
            self.assign(target.value, val, st)

    def _raw_tuple_item(self, val, i):
        return None

    def set_name(self, name, val):
        self.frame.locals[name] = val

    def st_If(self, st):
        # canonical orientation: `if not c: A else: B` is analysed as `if c: B else: A`
        if isinstance(st.test, ast.UnaryOp) and isinstance(st.test.op, ast.Not) and st.orelse:
            sw = ast.If(test=st.test.operand, body=st.orelse, orelse=st.body)
            ast.copy_location(sw, st)
            return self.st_If(sw)
        test = self.sym(self.eval(st.test))
        static = self._static_truth(test)
        if static is True:
            return self.exec_block(st.body)
        if static is False:
            return self.exec_block(st.orelse)
        s0 = self.snapshot()
        self.conds.append(test)
        ta = self.exec_block(st.body)
        self.conds.pop()
        sa = self.snapshot()
        self.restore(s0)
        self.conds.append(mk("not", test))
        tb = self.exec_block(st.orelse)
        self.conds.pop()
        if ta and tb:
            return True
        if ta:
            return False  # state is already the else-state
        if tb:
            self.restore(sa)
            return False
        sb = self.snapshot()
        self.merge(test, sa, sb)
        return False

    def _static_truth(self, test: S):
        if test.op == "const":
            return bool(test.args[0])
        if test.op == "not" and isinstance(test.args[0], S) and test.args[0].op == "const":
            return not bool(test.args[0].args[0])
        if test.op in ("is", "isnot") and all(isinstance(a, S) and a.op == "const" for a in test.args):
            r = test.args[0].args[0] is test.args[1].args[0]
            return r if test.op == "is" else not r
        return None

    def _assigned_names(self, stmts) -> set:
        out = set()
        for st in stmts:
            for n in ast.walk(st):
                if isinstance(n, ast.Name) and isinstance(n.ctx, ast.Store):
                    out.add(n.id)
                elif isinstance(n, (ast.AugAssign,)) and isinstance(n.target, ast.Name):
                    out.add(n.target.id)
                elif isinstance(n, ast.Subscript) and isinstance(n.ctx, ast.Store):
                    b = n.value
                    while isinstance(b, (ast.Subscript, ast.Attribute)):
                        b = b.value
                    if isinstance(b, ast.Name):
                        out.add(b.id)
                elif isinstance(n, ast.Call) and isinstance(n.func, ast.Attribute) and n.func.attr.endswith("_") and not n.func.attr.startswith("__"):
                    b = n.func.value
                    while isinstance(b, (ast.Subscript, ast.Attribute)):
                        b = b.value
                    if isinstance(b, ast.Name):
                        out.add(b.id)
        return out

    def _loop(self, st, pre: Callable[[], None], body_stmts, test_node=None):
        site = self.site(st)
        assigned = self._assigned_names(body_stmts)
        # pass 1: discover written cells / self attrs (state restored afterwards)
        s0 = self.snapshot()
        nev = len(self.events)
        ncf = len(self.call_frames)
        self._loop_placeholders(assigned, {}, set(), site, s0)
        pre()
        if test_node is not None:
            self.eval(test_node)
        self.exec_block(body_stmts)
        s1 = self.snapshot()
        written_cells = {}
        for td in self.tds:
            before = s0[1].get(td.uid, {})
            after = s1[1].get(td.uid, {})
            ks = {k for k in after if after.get(k) is not before.get(k) and k in before}
            ks |= {k for k in after if k not in before and not (after[k].op == "cell0")}
            if ks:
                written_cells[td.uid] = ks
        written_attrs = {k for k in s1[2] if s1[2].get(k) is not s0[2].get(k)}
        del self.events[nev:]
        del self.call_frames[ncf:]
        self.restore(s0)
        # pass 2: real
        inits = self._loop_placeholders(assigned, written_cells, written_attrs, site, s0)
        pre()
        test = self.sym(self.eval(test_node)) if test_node is not None else None
        if test is not None:
            self.emit("while", st, test)
        self.conds.append(test if test is not None else mk("loopcond", tag=site))
        self.exec_block(body_stmts)
        self.conds.pop()
        # close
        for (kind, ref, key), (ph, init) in inits.items():
            if ph is not None:
                endv = self.frame.locals.get(key) if kind == "local" else (ref.cells.get(key) if kind == "cell" else self.selfattrs.get(key))
                if isinstance(endv, S) and endv is not ph:
                    LOOP_BODY[ph.id] = endv
                    LOOP_PH[ph.id] = ph
            if kind == "local":
                cur = self.frame.locals.get(key)
                if isinstance(cur, S) and cur is not ph:
                    self.frame.locals[key] = mk("loop", init if init is not None else mk("undef", key), cur, tag=site)
                elif cur is ph and init is not None:
                    self.frame.locals[key] = init
            elif kind == "cell":
                cur = ref.cells.get(key)
                if isinstance(cur, S) and cur is not ph:
                    ref.cells[key] = mk("loop", init, cur, tag=site)
                    self.emit("tdwrite", st, (ref, key, ref.cells[key], "loop"))
                elif cur is ph:
                    ref.cells[key] = init
            elif kind == "attr":
                cur = self.selfattrs.get(key)
                if isinstance(cur, S) and cur is not ph:
                    self.selfattrs[key] = mk("loop", init, cur, tag=site)
        return False

    def _loop_placeholders(self, assigned, written_cells, written_attrs, site, s0):
        inits = {}
        for n in sorted(assigned):
            cur = self.frame.locals.get(n)
            if isinstance(cur, S):
                ph = mk("loopvar", n, cur, tag=site)
                self.frame.locals[n] = ph
                inits[("local", None, n)] = (ph, cur)
            elif cur is None:
                inits[("local", None, n)] = (None, None)
        for td in self.tds:
            for k in sorted(written_cells.get(td.uid, ())):
                cur = td.cells.get(k)
                if cur is None:
                    cur = mk("cell0", td.name, k) if not td.closed else mk("missing", td.name, k)
                ph = mk("loopvar", f"{td.name}[{k}]", cur, tag=site)
                td.cells[k] = ph
                inits[("cell", td, k)] = (ph, cur)
        for k in sorted(written_attrs):
            cur = self.selfattrs.get(k)
            cur = cur if isinstance(cur, S) else mk("selfattr", k)
            ph = mk("loopvar", f"self.{k}", cur, tag=site)
            self.selfattrs[k] = ph
            inits[("attr", None, k)] = (ph, cur)
        return inits

    def st_For(self, st):
        it = self.sym(self.eval(st.iter))

        def pre():
            self.assign(st.target, mk("iter", it, tag=self.site(st)), st)

        self._loop(st, pre, st.body)
        if st.orelse:
            self.exec_block(st.orelse)
        return False

    st_AsyncFor = st_For

    def st_While(self, st):
        self._loop(st, lambda: None, st.body, test_node=st.test)
        if st.orelse:
            self.exec_block(st.orelse)
        return False

    def st_With(self, st):
        nog = False
        for item in st.items:
            v = self.eval(item.context_expr)
            try:
                txt = ast.unparse(item.context_expr)
            except Exception:
                txt = ""
            if "no_grad" in txt or "inference_mode" in txt:
                nog = True
            if item.optional_vars is not None:
                self.assign(item.optional_vars, v, st)
        if nog:
            self.nograd_depth += 1
        try:
            r = self.exec_block(st.body)
        finally:
            if nog:
                self.nograd_depth -= 1
        return r

    st_AsyncWith = st_With

    def st_Try(self, st):
        s0 = self.snapshot()
        t = self.exec_block(st.body)
        if not t and st.orelse:
            t = self.exec_block(st.orelse)
        sa = self.snapshot()
        all_term = t
        for h in st.handlers:
            self.restore(s0)
            if h.name:
                self.frame.locals[h.name] = mk("unknown", "exc")
            th = self.exec_block(h.body)
            if not th:
                sb = self.snapshot()
                if all_term:
                    sa = sb
                    all_term = False
                else:
                    self.merge(mk("unknown", "exc", tag=self.site(h)), sa, sb)
                    sa = self.snapshot()
        if not all_term:
            self.restore(sa)
        if st.finalbody:
            if self.exec_block(st.finalbody):
                return True
        return all_term

    st_TryStar = st_Try

    def st_Match(self, st):
        self.emit("unhandled-stmt", st, "match")
        return False

    # ---------------------------------------------------------------- expressions
    def sym(self, v) -> S:
        return v if isinstance(v, S) else self.as_sym(v)

    def eval(self, node):
        m = getattr(self, "ex_" + type(node).__name__, None)
        if m is None:
            self.emit("unhandled-expr", node, type(node).__name__)
            return mk("unknown", type(node).__name__, tag=self.site(node))
        return m(node)

    def ex_Constant(self, n):
        v = n.value
        if isinstance(v, (int, float, str, bool, type(None), bytes)):
            return const(v)
        if v is Ellipsis:
            return mk("ellipsis")
        return const(repr(v))

    def lookup(self, name, node=None):
        fr = self.frame
        f = fr
        while f is not None:
            if name in f.locals:
                return f.locals[name]
            f = f.enclosing
        r = self.repo.resolve_global(fr.module, name)
        if r is None:
            if name in ("True", "False", "None"):
                return const({"True": True, "False": False, "None": None}[name])
            return mk("global", name)
        if r[0] == "func":
            return mk("func", r[1].fq)
        if r[0] == "class":
            return mk("class", r[1].fq)
        if r[0] == "module":
            return mk("global", r[1])
        if r[0] == "external":
            return mk("ext", r[1])
        if r[0] == "const":
            e = r[1]
            if isinstance(e, ast.Constant):
                return self.ex_Constant(e)
            return mk("global", f"{r[2].name}.{name}")
        return mk("global", name)

    def ex_Name(self, n):
        return self.lookup(n.id, n)

    def ex_Attribute(self, n):
        base = self.eval(n.value)
        if base is SELF:
            if n.attr in self.selfattrs:
                return self.selfattrs[n.attr]
            return mk("selfattr", n.attr)
        if isinstance(base, TD):
            return mk("attr", mk("tdref", base.name), n.attr)
        if isinstance(base, S) and base.op in ("global", "ext"):
            # dotted module path: torch.zeros, F.softmax ...
            r = None
            if base.op == "global" and base.args[0] in self.repo.modules:
                r = self.repo.resolve_global(self.repo.modules[base.args[0]], n.attr)
                if r is None and f"{base.args[0]}.{n.attr}" in self.repo.modules:
                    return mk("global", f"{base.args[0]}.{n.attr}")
                if r is not None:
                    if r[0] == "func":
                        return mk("func", r[1].fq)
                    if r[0] == "class":
                        return mk("class", r[1].fq)
            return mk(base.op, f"{base.args[0]}.{n.attr}")
        return mk("attr", self.sym(base), n.attr)

    def ex_Subscript(self, n):
        base = self.eval(n.value)
        idx = self.eval(n.slice)
        if isinstance(base, TD):
            idx = self.sym(idx)
            if is_const(idx) and isinstance(idx.args[0], str):
                return self.td_read(base, idx.args[0], n)
            if idx.op in ("tuple", "list") and idx.args and all(is_const(a) and isinstance(a.args[0], str) for a in idx.args):
                # nested key / key tuple: treat first
                return self.td_read(base, idx.args[0].args[0], n)
            if self._key_like(idx):
                self.emit("td-dynamic-read", n, (base, idx))
                for f in self.frames:
                    f.reads.append((base.uid, "*", idx, n))
                return mk("cellany", base.name, idx)
            # row indexing: td[mask] / td[idx]
            return self.new_td(base.name, parent=(base, idx))
        r = mk("sub", self.sym(base), self.sym(idx))
        SITE_OF.setdefault(r.id, (self.frame.module.relpath, getattr(n, "lineno", 0), getattr(n, "col_offset", 0),
                                  getattr(n, "end_lineno", 0), getattr(n, "end_col_offset", 0)))
        return r

    def _key_like(self, idx: S) -> bool:
        """A TD subscript whose index is a (non-constant) string key rather than a row index."""
        if idx.op == "param":
            return True
        if idx.op in ("iter", "loopvar"):
            return True
        if idx.op == "fstr":
            return True
        return False

    def ex_Slice(self, n):
        return mk(
            "slice",
            self.sym(self.eval(n.lower)) if n.lower is not None else const(None),
            self.sym(self.eval(n.upper)) if n.upper is not None else const(None),
            self.sym(self.eval(n.step)) if n.step is not None else const(None),
        )

    def ex_Tuple(self, n):
        vals = [self.eval(e) for e in n.elts]
        if any(isinstance(v, (TD, Closure, Tup)) for v in vals):
            return Tup(vals)
        return mk("tuple", *[self.sym(v) for v in vals])

    def ex_List(self, n):
        if not n.elts:
            # an empty list literal is a fresh mutable accumulator: one object per site
            return mk("list", tag=self.site(n))
        return mk("list", *[self.sym(self.eval(e)) for e in n.elts])

    def ex_Set(self, n):
        return mk("set", *[self.sym(self.eval(e)) for e in n.elts])

    def ex_Dict(self, n):
        items = []
        for k, v in zip(n.keys, n.values):
            if k is None:
                items.append(mk("dictsplat", self.sym(self.eval(v))))
            else:
                items.append(mk("item", self.sym(self.eval(k)), self.sym(self.eval(v))))
        return mk("dict", *items)

    def ex_Starred(self, n):
        return mk("starred", self.sym(self.eval(n.value)))

    def ex_JoinedStr(self, n):
        parts = []
        for v in n.values:
            if isinstance(v, ast.FormattedValue):
                parts.append(self.sym(self.eval(v.value)))
            else:
                parts.append(self.sym(self.eval(v)))
        return mk("fstr", *parts)

    def ex_FormattedValue(self, n):
        return self.sym(self.eval(n.value))

    def _site(self, r, n):
        """remember the first source site of an untagged (hash-consed) operator node"""
        if isinstance(r, S):
            SITE_OF.setdefault(r.id, (self.frame.module.relpath, getattr(n, "lineno", 0), getattr(n, "col_offset", 0),
                                      getattr(n, "end_lineno", 0), getattr(n, "end_col_offset", 0)))
        return r

    def ex_BinOp(self, n):
        return self._site(mk(BINOPS[type(n.op)], self.sym(self.eval(n.left)), self.sym(self.eval(n.right))), n)

    def ex_UnaryOp(self, n):
        v = self.sym(self.eval(n.operand))
        if isinstance(n.op, ast.USub):
            if v.op == "const" and isinstance(v.args[0], (int, float)) and not isinstance(v.args[0], bool):
                return const(-v.args[0])
            return mk("neg", v)
        if isinstance(n.op, ast.Invert):
            return mk("inv", v)
        if isinstance(n.op, ast.Not):
            return mk("not", v)
        return v

    def ex_BoolOp(self, n):
        vals = [self.sym(self.eval(v)) for v in n.values]
        return mk("and" if isinstance(n.op, ast.And) else "or", *vals)

    def ex_Compare(self, n):
        left = self.sym(self.eval(n.left))
        parts = []
        for op, c in zip(n.ops, n.comparators):
            right = self.sym(self.eval(c))
            parts.append(self._site(mk(CMPOPS[type(op)], left, right), n))
            left = right
        return parts[0] if len(parts) == 1 else mk("and", *parts)

    def ex_IfExp(self, n):
        if isinstance(n.test, ast.UnaryOp) and isinstance(n.test.op, ast.Not):
            sw = ast.IfExp(test=n.test.operand, body=n.orelse, orelse=n.body)
            ast.copy_location(sw, n)
            return self.ex_IfExp(sw)
        t = self.sym(self.eval(n.test))
        st = self._static_truth(t)
        if st is True:
            return self.eval(n.body)
        if st is False:
            return self.eval(n.orelse)
        a = self.eval(n.body)
        b = self.eval(n.orelse)
        if a is b:
            return a
        return mk("ifexp", t, self.sym(a), self.sym(b))

    def ex_NamedExpr(self, n):
        v = self.eval(n.value)
        self.assign(n.target, v, n)
        return v

    def ex_Lambda(self, n):
        return Closure(n, self.frame)

    def _comp(self, n, elts):
        fr = self.frame
        saved = dict(fr.locals)
        its = []
        for g in n.generators:
            it = self.sym(self.eval(g.iter))
            its.append(it)
            self.assign(g.target, mk("iter", it, tag=self.site(g.iter)), n)
            for c in g.ifs:
                its.append(self.sym(self.eval(c)))
        vals = [self.sym(self.eval(e)) for e in elts]
        fr.locals = saved
        return mk("comp", type(n).__name__, *vals, *[mk("over", i) for i in its])

    def ex_ListComp(self, n):
        return self._comp(n, [n.elt])

    ex_GeneratorExp = ex_ListComp
    ex_SetComp = ex_ListComp

    def ex_DictComp(self, n):
        return self._comp(n, [n.key, n.value])

    def ex_Await(self, n):
        return self.eval(n.value)

    def ex_Yield(self, n):
        return self.sym(self.eval(n.value)) if n.value is not None else const(None)

    ex_YieldFrom = ex_Yield

    # ---------------------------------------------------------------- calls
    def eval_args(self, n: ast.Call):
        pos, kw = [], {}
        for a in n.args:
            if isinstance(a, ast.Starred):
                v = self.eval(a.value)
                vs = self.sym(v)
                if vs.op in ("tuple", "list"):
                    pos.extend(vs.args)
                else:
                    pos.append(mk("starred", vs))
            else:
                pos.append(self.eval(a))
        for k in n.keywords:
            if k.arg is None:
                kw["**"] = self.eval(k.value)
            else:
                kw[k.arg] = self.eval(k.value)
        return pos, kw

    def pack(self, pos, kw):
        out = [self.sym(p) for p in pos]
        for k in sorted(kw):
            out.append(mk("kw", k, self.sym(kw[k])))
        return out

    def ex_Call(self, n: ast.Call):
        f = n.func
        # ---- method-style calls
        if isinstance(f, ast.Attribute):
            # super().m(...)
            if isinstance(f.value, ast.Call) and isinstance(f.value.func, ast.Name) and f.value.func.id == "super":
                pos, kw = self.eval_args(n)
                target = None
                if self.selfcls is not None and self.frame.cls is not None:
                    target = self.repo.resolve_method(self.selfcls, f.attr, after=self.frame.cls)
                if target is not None:
                    return self.call_function(target, pos, kw, n, bind_self=SELF)
                return mk("call", mk("super", f.attr), *self.pack(pos, kw), tag=self.site(n))
            base = self.eval(f.value)
            pos, kw = self.eval_args(n)
            if base is SELF:
                if f.attr in self.selfattrs and isinstance(self.selfattrs[f.attr], Closure):
                    return self.call_closure(self.selfattrs[f.attr], pos, kw, n)
                target = self.repo.resolve_method(self.selfcls, f.attr) if self.selfcls is not None else None
                if target is not None:
                    return self.call_function(target, pos, kw, n, bind_self=SELF)
                res = mk("meth", SELF, f.attr, *self.pack(pos, kw), tag=self.site(n))
                # a method of `self` that is not defined in the repo (framework hook, sub-module call): keep the call visible
                self.emit("selfcall", n, (SELF, f.attr, tuple(self.pack(pos, kw)), res))
                return res
            if isinstance(base, TD):
                return self.td_method(base, f.attr, pos, kw, n)
            if isinstance(base, S) and base.op == "class":
                # ClassName.method(...)
                ci = self._class_by_fq(base.args[0])
                target = self.repo.resolve_method(ci, f.attr) if ci is not None else None
                if target is not None:
                    if target.kind == "method" and pos:
                        return self.call_function(target, pos[1:], kw, n, bind_self=pos[0])
                    return self.call_function(target, pos, kw, n)
            if isinstance(base, S) and base.op in ("global", "ext"):
                fn = self.ex_Attribute(f)
                return self.call_value(fn, pos, kw, n)
            return self.method_call(self.sym(base), f.attr, pos, kw, n, f.value)
        fn = self.eval(f)
        pos, kw = self.eval_args(n)
        if isinstance(fn, Closure):
            return self.call_closure(fn, pos, kw, n)
        return self.call_value(fn, pos, kw, n)

    def _class_by_fq(self, fq: str) -> Optional[ClassInfo]:
        mod, name = fq.split(":")
        mi = self.repo.modules.get(mod)
        if mi is None:
            return None
        return mi.classes.get(name)

    def _func_by_fq(self, fq: str) -> Optional[FuncInfo]:
        mod, name = fq.split(":")
        mi = self.repo.modules.get(mod)
        if mi is None:
            return None
        if "." in name:
            c, m = name.split(".", 1)
            return mi.classes[c].methods.get(m) if c in mi.classes else None
        return mi.functions.get(name)

    def call_value(self, fn, pos, kw, n):
        fn = self.sym(fn)
        if fn.op == "func":
            fi = self._func_by_fq(fn.args[0])
            if fi is not None:
                return self.call_function(fi, pos, kw, n)
        if fn.op == "ext" and fn.args[0] in ("tensordict.TensorDict", "tensordict.tensordict.TensorDict"):
            return self.make_td(pos, kw, n)
        if fn.op in ("ext", "global") and fn.args[0] in ("isinstance", "hasattr", "len", "int", "float", "range", "getattr"):
            pass
        if fn.op in ("ext", "global") and fn.args[0] in AXIS_FUNCS and len(pos) == 1 and ("dim" in kw or "axis" in kw):
            # torch.cat(xs, dim=k) and torch.cat(xs, k) are one call
            kw = dict(kw)
            pos = list(pos) + [kw.pop("dim") if "dim" in kw else kw.pop("axis")]
        return mk("call", fn, *self.pack(pos, kw), tag=self.site(n))

    def make_td(self, pos, kw, n):
        td = self.new_td(f"TD@{getattr(n, 'lineno', 0)}", closed=True)
        src = pos[0] if pos else kw.get("source")
        if isinstance(src, S) and src.op == "dict":
            for it in src.args:
                if it.op == "item" and is_const(it.args[0]) and isinstance(it.args[0].args[0], str):
                    self.td_write(td, it.args[0].args[0], it.args[1], n, kind="init")
                else:
                    td.closed = False
                    td.opaque_updates.append(it)
        elif isinstance(src, TD):
            td.cells = dict(src.cells)
            td.closed = src.closed
            td.name = src.name
        elif src is not None:
            td.closed = False
            td.opaque_updates.append(self.sym(src))
        td.meta = {k: self.sym(v) for k, v in kw.items()}
        return td

    def should_inline(self, fi: FuncInfo, pos, kw, bind_self) -> bool:
        if fi.fq in self.no_inline or fi.qualname in self.no_inline:
            return False
        if self.frame.depth >= self.inline_depth:
            return False
        for f in self.frames:
            if f.func is fi:
                return False  # recursion cut
        if self.inline_policy is not None:
            r = self.inline_policy(fi, pos)
            if r is not None:
                return r
        if bind_self is SELF:
            return True
        if any(isinstance(a, TD) for a in pos) or any(isinstance(a, TD) for a in kw.values()):
            return True
        return False

    def call_function(self, fi: FuncInfo, pos, kw, n, bind_self=None):
        if not self.should_inline(fi, pos, kw, bind_self):
            fn = mk("func", fi.fq)
            if bind_self is not None:
                pos = [bind_self] + list(pos)
            for a in list(pos) + list(kw.values()):
                if isinstance(a, TD):
                    self.emit("td-escape", n, (a, fi.fq))
            return mk("call", fn, *self.pack(pos, kw), tag=self.site(n))
        self.repo.note(fi.module)
        fr = Frame(fi, fi.module, fi.cls, parent=self.frame, callnode=n)
        fr._cond_base = len(self.conds)
        self._bind(fr, fi.node.args, pos, kw, bind_self if fi.kind == "method" else (mk("class", fi.cls.fq) if fi.kind == "classmethod" and fi.cls else None), fi)
        return self._run_frame(fr, fi.node.body, n, self._decorated_nograd(fi))

    def call_closure(self, c: Closure, pos, kw, n):
        if self.frame.depth >= self.inline_depth or any(getattr(f, "_closure", None) is c.node for f in self.frames):
            return mk("call", self.as_sym(c), *self.pack(pos, kw), tag=self.site(n))
        fr = Frame(c.frame.func, c.frame.module, c.frame.cls, parent=self.frame, callnode=n)
        fr._closure = c.node
        fr._cond_base = len(self.conds)
        fr.enclosing = c.frame
        self._bind(fr, c.node.args, pos, kw, None, None)
        if isinstance(c.node, ast.Lambda):
            self.frames.append(fr)
            try:
                v = self.eval(c.node.body)
            finally:
                self.frames.pop()
            return v
        return self._run_frame(fr, c.node.body, n, False)

    def _run_frame(self, fr: Frame, body, n, nograd):
        self.frames.append(fr)
        self.call_frames.append(fr)
        fr.entry_cells = {td.uid: dict(td.cells) for td in self.tds}
        fr.entry_conds = tuple(self.conds)
        ev = self.emit("call-enter", n, fr)
        if nograd:
            self.nograd_depth += 1
        try:
            self.exec_block(body)
        finally:
            if nograd:
                self.nograd_depth -= 1
            self.frames.pop()
        fr.ret = self._fold_returns(fr)
        if nograd and isinstance(fr.ret, S):
            fr.ret = mk("nograd", fr.ret)
        self.emit("call-exit", n, fr)
        return fr.ret

    def _bind(self, fr: Frame, a: ast.arguments, pos, kw, selfval, fi: Optional[FuncInfo]):
        params = [x.arg for x in a.posonlyargs + a.args]
        defaults = [None] * (len(params) - len(a.defaults)) + list(a.defaults)
        pos = list(pos)
        if selfval is not None and params:
            fr.locals[params[0]] = selfval
            params = params[1:]
            defaults = defaults[1:]
        kw = dict(kw)
        for i, p in enumerate(params):
            if i < len(pos):
                fr.locals[p] = pos[i]
            elif p in kw:
                fr.locals[p] = kw.pop(p)
            elif defaults[i] is not None:
                fr.locals[p] = self._eval_default(defaults[i], fr)
            else:
                fr.locals[p] = mk("param", p)
        if a.vararg:
            fr.locals[a.vararg.arg] = mk("tuple", *[self.sym(x) for x in pos[len(params):]])
        for p, d in zip(a.kwonlyargs, a.kw_defaults):
            if p.arg in kw:
                fr.locals[p.arg] = kw.pop(p.arg)
            elif d is not None:
                fr.locals[p.arg] = self._eval_default(d, fr)
            else:
                fr.locals[p.arg] = mk("param", p.arg)
        if a.kwarg:
            fr.locals[a.kwarg.arg] = mk("dict", *[mk("item", const(k), self.sym(v)) for k, v in sorted(kw.items())])

    def _eval_default(self, d, fr):
        self.frames.append(fr)
        try:
            return self.eval(d)
        finally:
            self.frames.pop()

    # ---------------------------------------------------------------- TD methods
    def td_method(self, td: TD, name: str, pos, kw, n):
        def key_of(v):
            v = self.sym(v)
            return v.args[0] if is_const(v) and isinstance(v.args[0], str) else None

        if name in ("set", "set_"):
            k = key_of(pos[0]) if pos else None
            if k is not None and len(pos) > 1:
                self.td_write(td, k, pos[1], n)
            elif k is not None and "item" in kw:
                self.td_write(td, k, kw["item"], n)
            else:
                self.emit("td-dynamic-write", n, (td, pos))
            return td
        if name in ("update", "update_"):
            src = pos[0] if pos else None
            if isinstance(src, S) and src.op == "dict":
                for it in src.args:
                    if it.op == "item" and key_of(it.args[0]) is not None:
                        self.td_write(td, key_of(it.args[0]), it.args[1], n)
                    else:
                        td.opaque_updates.append(it)
                        self.emit("td-dynamic-write", n, (td, it))
            elif isinstance(src, TD):
                for k, v in list(src.cells.items()):
                    self.td_write(td, k, v, n)
            else:
                td.opaque_updates.append(self.sym(src) if src is not None else const(None))
                self.emit("td-dynamic-write", n, (td, src))
            return td
        if name == "get":
            k = key_of(pos[0]) if pos else None
            if k is None:
                self.emit("td-dynamic-read", n, (td, pos))
                return mk("cellany", td.name, self.sym(pos[0]) if pos else const(None))
            if len(pos) == 1 and "default" not in kw:
                return self.td_read(td, k, n)          # td.get(key) without a default is td[key]
            if k in td.cells or td.closed or (td.parent is not None):
                if k in td.cells or td.parent is not None:
                    return self.td_read(td, k, n)
                return self.sym(pos[1]) if len(pos) > 1 else const(None)
            dflt = self.sym(pos[1]) if len(pos) > 1 else (self.sym(kw["default"]) if "default" in kw else const(None))
            v = mk("get0", td.name, k, dflt)
            for f in self.frames:
                f.reads.append((td.uid, k, v, n))
            return v
        if name in ("clone", "copy", "contiguous", "to", "cpu", "cuda", "detach", "exclude", "select", "float"):
            if name in ("clone", "copy", "detach", "exclude", "select"):
                t2 = self.new_td(td.name, closed=td.closed, parent=td.parent)
                t2.cells = dict(td.cells)
                if name == "clone":
                    t2.cloned_from = td
                return t2
            return td
        if name in ("masked_select",):
            return self.new_td(td.name, parent=(td, self.sym(pos[0]) if pos else const(None)))
        if name in ("keys", "items", "values", "size", "dim", "numel", "pop", "view", "reshape", "unsqueeze", "squeeze", "expand", "apply", "gather", "split", "chunk", "unbind"):
            if name == "pop":
                k = key_of(pos[0]) if pos else None
                if k is not None:
                    v = self.td_read(td, k, n)
                    td.cells.pop(k, None)
                    return v
            return mk("meth", mk("tdref", td.name), name, *self.pack(pos, kw), tag=self.site(n))
        self.emit("td-unknown-method", n, (td, name))
        return mk("meth", mk("tdref", td.name), name, *self.pack(pos, kw), tag=self.site(n))

    # ---------------------------------------------------------------- tensor-ish methods
    def method_call(self, base: S, name: str, pos, kw, n, base_node=None):
        if name in AXIS_METHODS and not pos and ("dim" in kw or "axis" in kw):
            # x.sum(dim=k) and x.sum(k) are one call: the axis becomes the first positional operand
            kw = dict(kw)
            pos = [kw.pop("dim") if "dim" in kw else kw.pop("axis")]
        args = self.pack(pos, kw)
        for a in list(pos) + list(kw.values()):
            if isinstance(a, TD):
                self.emit("td-escape", n, (a, f"{show(base, 2)}.{name}"))
        res = mk("meth", base, name, *args, tag=self.site(n))
        self.emit("methcall", n, (base, name, tuple(args), res))
        if name.endswith("_") and not name.startswith("__") and name not in INPLACE_OK:
            # in-place tensor op: every holder of the old value now holds the new one
            if self.nograd_depth:
                res = mk("nograd", res)
            self.replace_identity(base, res)
            if base_node is not None:
                self._inplace_through(base_node, base, res, n)
            self.emit("inplace", n, (base, name, res))
        return res

    def _inplace_through(self, base_node, old: S, new: S, n):
        """`td["k"][idx].add_(v)` / `x[..., :k].scatter_()`: the mutated object is a view of a
        cell or local; write the mutation back to the viewed object."""
        node = base_node
        if isinstance(node, ast.Subscript):
            inner = self.eval_quiet(node.value)
            if isinstance(inner, TD):
                return
            idx = old.args[1] if old.op == "sub" else None
            if isinstance(inner, S) and idx is not None:
                newer = mk("store", inner, idx, new)
                self.replace_identity(inner, newer)
                if isinstance(node.value, ast.Subscript):
                    self._inplace_through(node.value, inner, newer, n)
                elif isinstance(node.value, ast.Name) and self.frame.locals.get(node.value.id) is inner:
                    self.frame.locals[node.value.id] = newer

    def eval_quiet(self, node):
        ne, nr = len(self.events), [len(f.reads) for f in self.frames]
        v = self.eval(node)
        del self.events[ne:]
        for f, k in zip(self.frames, nr):
            del f.reads[k:]
        return v


# ----------------------------------------------------------------------------- convenience


def analyse(repo: Repo, fi: FuncInfo, selfcls: Optional[ClassInfo] = None, args=None, **kw) -> Tuple[Interp, Frame]:
    it = Interp(repo, selfcls or fi.cls, **kw)
    fr = it.run_function(fi, args=args)
    return it, fr


def final_td(it: Interp, fr: Frame) -> Optional[TD]:
    """The TD returned by the entry function (or its first TD parameter)."""
    if isinstance(fr.ret, TD):
        return fr.ret
    for cond, v in fr.returns:
        if isinstance(v, TD):
            return v
        if isinstance(v, Tup):
            for x in v.items:
                if isinstance(x, TD):
                    return x
    return None
