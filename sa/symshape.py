"""Symbolic sizes of tensor axes, resolved through the constructions that create them.

`dim(node, k)` returns the size of axis k (negative k: counted from the end) of the tensor denoted by a value-graph node as a
polynomial over configuration attributes, or None when the construction is not understood.  A TensorDict cell read in
`_step` / `_get_reward` is resolved through the value `_reset` stores under that key, and a cell read in `_reset` through the
value the generator's `_generate` stores -- so `td["capacity"].shape[-1]` in `_step` becomes the last entry of the `size=`
tuple of the generator's `torch.randint(...)`.

Constructions understood: torch.zeros/ones/full/rand/randn/randint/empty with a size tuple (a starred batch_size prefix is
allowed for negative k), sampler.sample(shape), x.repeat(r0, r1, ..), torch.cat / stack, value-transparent wrappers, indexing
with None / full slices / integer lists, transpose, phi (all alternatives must agree).
"""
from typing import Callable, Optional

from . import nf, vg
from .vg import S

CTORS = {"torch.zeros", "torch.ones", "torch.full", "torch.rand", "torch.randn", "torch.randint", "torch.empty"}
WRAP = {"clone", "to", "float", "double", "contiguous", "detach", "cpu", "cuda", "long", "int", "bool", "half", "type_as", "requires_grad_"}


class SymShape:
    def __init__(self, levels):
        """levels: list of {key: defining node}; a cell read at level i is defined by levels[i][key], whose own cell reads are
        at level i + 1 (step state -> values stored by _reset -> values stored by the generator)."""
        self.levels = list(levels)
        self.level = 0
        self.trace = []

    def cell_lookup(self, key):
        if self.level >= len(self.levels):
            return None
        return self.levels[self.level].get(key)

    def _down(self, f, *a):
        self.level += 1
        try:
            return f(*a)
        finally:
            self.level -= 1

    @staticmethod
    def _size_items(n: S):
        """shape entries of a constructor call / sample call: list of nodes (may start with a `starred` batch prefix)"""
        args = list(n.args[1:]) if n.op == "call" else list(n.args[2:])
        kw = {a.args[0]: a.args[1] for a in args if isinstance(a, S) and a.op == "kw"}
        pos = [a for a in args if not (isinstance(a, S) and a.op == "kw")]
        if "size" in kw:
            t = kw["size"]
            return list(t.args) if t.op in ("tuple", "list") else None
        tup = [a for a in pos if isinstance(a, S) and a.op in ("tuple", "list")]
        if tup:
            return list(tup[-1].args) if nf._fn(n) in ("torch.randint", "torch.full") or n.op == "meth" else list(tup[0].args)
        if nf._fn(n) in ("torch.zeros", "torch.ones", "torch.rand", "torch.randn", "torch.empty") and pos:
            return pos
        return None

    def rank(self, n: S, depth=0) -> Optional[int]:
        """number of axes, a starred batch prefix counted as ONE axis (rl4co batches are one-dimensional)"""
        if depth > 30 or not isinstance(n, S):
            return None
        while n.op == "meth" and n.args[1] in WRAP or n.op == "nograd":
            n = n.args[0]
        if n.op in ("phi", "ifexp"):
            vals = {self.rank(x, depth + 1) for x in n.args[1:]}
            return vals.pop() if len(vals) == 1 else None
        if n.op == "cell0":
            src = self.cell_lookup(n.args[1])
            return None if src is None else self._down(self.rank, src, depth + 1)
        if nf._fn(n) in CTORS or (n.op == "meth" and n.args[1] == "sample"):
            items = self._size_items(n)
            return None if items is None else len(items)
        if n.op == "meth" and n.args[1] == "repeat":
            reps = [a for a in n.args[2:] if not (isinstance(a, S) and a.op == "kw")]
            if len(reps) == 1 and reps[0].op in ("tuple", "list"):
                reps = list(reps[0].args)
            return len(reps)
        if nf._fn(n) in ("torch.cat", "torch.concat") and len(n.args) >= 2:
            items = nf._seq_items(n.args[1])
            return self.rank(items[0], depth + 1) if items else None
        if n.op == "sub" and isinstance(n.args[1], S):
            idx = n.args[1]
            items = list(idx.args) if idx.op == "tuple" else [idx]
            r = self.rank(n.args[0], depth + 1)
            if r is None or any(x.op == "ellipsis" for x in items):
                return r if r is not None and all(x.op in ("ellipsis", "slice") or vg.is_none(x) for x in items) and not any(vg.is_none(x) for x in items) else None
            out = r
            for x in items:
                if vg.is_none(x):
                    out += 1
                elif x.op == "slice" or x.op in ("list", "tuple"):
                    pass
                elif x.op == "const" and isinstance(x.args[0], int):
                    out -= 1
                else:
                    return None
            return out
        return None

    def dim(self, n: S, k: int, depth=0) -> Optional[nf.Poly]:
        v = self._dim(n, k, depth)
        return None if v is None else self._canon(v, depth)

    def _canon(self, p: nf.Poly, depth) -> Optional[nf.Poly]:
        """resolve nested shape reads (size tuples written in terms of other tensors' shapes) and name the generator's
        attributes the same way on both levels (`self.generator.x` in the env == `self.x` in the generator)"""
        out = nf.Poly.const(0)
        for m, c in p.terms.items():
            term = nf.Poly.const(c)
            for aid, pw in m:
                a = nf.Poly.ATOMS.get(aid)
                rep = None
                d_ = nf.dim_of(a) if isinstance(a, S) else None
                if d_ is not None and isinstance(d_[1], int) and d_[1] < 0 and depth < 30:
                    rep = self._dim(d_[0], d_[1], depth + 5)
                    if rep is not None:
                        rep = self._canon(rep, depth + 5)
                if rep is None and isinstance(a, S) and a.op == "selfattr" and isinstance(a.args[0], str) and a.args[0].startswith("generator."):
                    rep = nf.Poly.atom(vg.mk("selfattr", a.args[0][len("generator."):]))
                if rep is None:
                    rep = nf.Poly.atom(a)
                for _ in range(pw):
                    term = term * rep
            out = out + term
        return out

    def _dim(self, n: S, k: int, depth=0) -> Optional[nf.Poly]:
        if depth > 40 or not isinstance(n, S):
            return None
        while n.op == "meth" and n.args[1] in WRAP or n.op == "nograd":
            n = n.args[0]
        d = depth + 1
        if n.op in ("phi", "ifexp"):
            vals = [self.dim(x, k, d) for x in n.args[1:]]
            if all(v is not None for v in vals) and all(v == vals[0] for v in vals):
                return vals[0]
            return None
        if n.op == "cell0":
            src = self.cell_lookup(n.args[1])
            if src is None:
                return None
            if src.op == "cell0" and src.args[1] == n.args[1]:
                return self._down(self.dim, src, k, d)        # passed through unchanged: defined one level further up
            self.trace.append(f"td[{n.args[1]!r}] <- {vg.show(src, 3)}")
            return self._down(self.dim, src, k, d)
        fn = nf._fn(n)
        if fn in CTORS or (n.op == "meth" and n.args[1] == "sample"):
            items = self._size_items(n)
            if items is None:
                return None
            starred = [i for i, x in enumerate(items) if isinstance(x, S) and x.op == "starred"]
            if k < 0:
                if -k > len(items) - len(starred):
                    return None
                x = items[k]
                if isinstance(x, S) and x.op == "starred":
                    return None
                if any(i >= len(items) + k for i in starred):
                    return None
                return nf.poly(x)
            if starred:
                return None
            return nf.poly(items[k]) if k < len(items) else None
        if fn in ("torch.zeros_like", "torch.ones_like", "torch.rand_like", "torch.full_like", "torch.empty_like"):
            return self.dim(n.args[1], k, d)
        if n.op == "meth" and n.args[1] == "repeat":
            reps = [a for a in n.args[2:] if not (isinstance(a, S) and a.op == "kw")]
            if len(reps) == 1 and reps[0].op in ("tuple", "list"):
                reps = list(reps[0].args)
            if k >= 0:
                k = k - len(reps)
            if -k > len(reps):
                return None
            base = self.dim(n.args[0], k, d)
            return None if base is None else base * nf.poly(reps[k])
        if n.op == "meth" and n.args[1] in ("transpose", "swapaxes") and len(n.args) == 4 and all(vg.is_const(a) for a in n.args[2:]):
            a, b = n.args[2].args[0], n.args[3].args[0]
            if a < 0 and b < 0 and k < 0:
                return self.dim(n.args[0], b if k == a else a if k == b else k, d)
            return None
        if fn in ("torch.cat", "torch.concat", "torch.stack") and len(n.args) >= 3:
            items = nf._seq_items(n.args[1])
            ax = nf.axis_arg(n)
            if not items or ax is None or ax.op != "const" or k >= 0 and ax.args[0] < 0 or k < 0 and ax.args[0] >= 0:
                return None
            if fn == "torch.stack":
                if ax.args[0] == k:
                    return nf.Poly.const(len(items))
                kk = k + 1 if (k < 0 and k < ax.args[0]) else (k - 1 if (k >= 0 and k > ax.args[0]) else k)
                return self.dim(items[0], kk, d)
            if ax.args[0] == k:
                tot = nf.Poly.const(0)
                for it in items:
                    v = self.dim(it, k, d)
                    if v is None:
                        return None
                    tot = tot + v
                return tot
            return self.dim(items[0], k, d)
        if n.op in ("+", "-", "*", "/", "//", "%", "&", "|") and len(n.args) == 2:
            # elementwise with broadcasting: an axis of size 1 stretches to the other operand's size
            vals = []
            for x in n.args:
                if isinstance(x, S) and x.op not in ("const", "selfattr", "param"):
                    vals.append(self.dim(x, k, d))
            known = [v for v in vals if v is not None]
            if not known or len(known) != len(vals):
                return None
            big = [v for v in known if v != nf.Poly.const(1)]
            if not big:
                return nf.Poly.const(1)
            return big[0] if all(v == big[0] for v in big) else None
        if n.op in ("inv", "neg", "not"):
            return self.dim(n.args[0], k, d)
        if n.op == "meth" and n.args[1] in ("scatter", "scatter_", "masked_fill", "masked_fill_", "clamp", "abs", "round", "floor", "ceil", "exp", "log", "sqrt", "cumsum", "sort", "argsort", "softmax"):
            return self.dim(n.args[0], k, d)
        if n.op == "store":
            return self.dim(n.args[0], k, d)
        if n.op == "sub" and isinstance(n.args[1], S) and k < 0:
            idx = n.args[1]
            items = list(idx.args) if idx.op == "tuple" else [idx]
            if not any(x.op == "ellipsis" for x in items):
                # python indexes from the left: pad with full slices up to the rank of the base (must be known)
                r = self.rank(n.args[0])
                if r is None:
                    return None
                used = sum(1 for x in items if not vg.is_none(x))
                if used > r:
                    return None
                full = vg.mk("slice", vg.mk("const", None), vg.mk("const", None), vg.mk("const", None))
                items = items + [full] * (r - used)
            # walk the index from the end: None inserts an axis of size 1, a full slice keeps an axis, anything else: give up
            j = -1          # axis of the base counted from the end
            out_k = -1
            for x in reversed(items):
                if vg.is_none(x):
                    if out_k == k:
                        return nf.Poly.const(1)
                    out_k -= 1
                    continue
                if x.op == "slice" and all(vg.is_none(y) for y in x.args):
                    if out_k == k:
                        return self.dim(n.args[0], j, d)
                    out_k -= 1
                    j -= 1
                    continue
                if x.op == "slice" and vg.is_none(x.args[2]):
                    if out_k == k:
                        lo, hi = x.args[0], x.args[1]
                        base = self.dim(n.args[0], j, d)
                        if base is None:
                            return None
                        def cval(y):
                            return y.args[0] if y.op == "const" and isinstance(y.args[0], int) and not isinstance(y.args[0], bool) else None
                        l = 0 if vg.is_none(lo) else cval(lo)
                        h = None if vg.is_none(hi) else cval(hi)
                        if l is None or (h is None and not vg.is_none(hi)):
                            return None
                        if l < 0:
                            return nf.Poly.const(-l) if h is None else None
                        if h is None:
                            return base - nf.Poly.const(l)
                        if h < 0:
                            return base - nf.Poly.const(l - h)
                        return nf.Poly.const(h - l)
                    out_k -= 1
                    j -= 1
                    continue
                if x.op == "ellipsis":
                    # everything further left is kept as is
                    return self.dim(n.args[0], j - (out_k - k), d) if out_k >= k else None
                return None
            # axes left of the explicit index entries are kept
            return self.dim(n.args[0], j - (out_k - k), d)
        return None
