"""E6 -- dimensional analysis on the value graph (length L, time T).

A unit is a pair of exponents (l, t); ANY is the polymorphic unit of literals, random draws,
booleans, undeclared cells and unknown calls.  Declared units come from a table (TensorDict keys
and generator attributes).  Rules:

  a + b, a - b, compare, max/min/where/clamp, cat/stack, masked store   operands unify (ANY absorbs)
  a * b, a / b                                                         exponents add / subtract (ANY acts as a pure scale)
  sqrt, ** const                                                       exponents scaled
  shape / index / cast / reduction methods                             unit of the receiver
  get_distance, cdist, norm                                            unit of the (unified) arguments

A *mismatch* is a unification of two concrete, different units: e.g. `clock + distance` where a
speed exists.  Only that is reported; ANY never produces a report, so undeclared quantities cannot
raise false alarms -- they only lose precision.
"""
from __future__ import annotations

from fractions import Fraction
from typing import Dict, List, Optional, Tuple

from . import nf, vg
from .vg import S

ANY = None
Unit = Optional[Tuple[Fraction, Fraction]]
L: Unit = (Fraction(1), Fraction(0))
T: Unit = (Fraction(0), Fraction(1))
ONE: Unit = (Fraction(0), Fraction(0))
SPEED: Unit = (Fraction(1), Fraction(-1))


def show(u: Unit) -> str:
    if u is None:
        return "any"
    l, t = u
    if l == 0 and t == 0:
        return "1"
    parts = []
    if l:
        parts.append("length" + (f"^{l}" if l != 1 else ""))
    if t:
        parts.append("time" + (f"^{t}" if t != 1 else ""))
    return "*".join(parts)


PASS_METHODS = {
    "clone", "detach", "float", "double", "half", "int", "long", "to", "cpu", "cuda", "contiguous", "view", "reshape", "squeeze", "unsqueeze", "expand", "expand_as",
    "repeat", "repeat_interleave", "flatten", "permute", "transpose", "t", "gather", "sum", "mean", "max", "min", "amax", "amin", "cumsum", "abs", "neg", "clamp", "clamp_",
    "clamp_min", "clamp_max", "flip", "roll", "index_select", "masked_fill", "masked_fill_", "scatter", "scatter_", "scatter_add", "norm", "item", "tolist", "numpy",
    "type_as", "round", "floor", "ceil", "select", "narrow", "split", "chunk", "unbind", "median", "sort", "topk", "values", "uniform_", "fill_", "nan_to_num",
}
BOOL_METHODS = {"any", "all", "bool", "eq", "ne", "lt", "le", "gt", "ge", "isfinite", "isnan", "isinf", "logical_not", "logical_and", "logical_or", "argmax", "argmin", "argsort", "nonzero", "size", "dim", "numel"}
UNIFY_FUNCS = {"torch.max", "torch.min", "torch.maximum", "torch.minimum", "torch.where", "torch.cat", "torch.concat", "torch.stack", "torch.hstack", "torch.vstack",
               "torch.clamp", "torch.clip", "torch.cdist", "rl4co.utils.ops:get_distance", "rl4co.utils.ops:get_tour_length", "torch.abs", "torch.sum", "torch.mean",
               "torch.norm", "torch.linalg.norm", "torch.roll", "torch.gather", "rl4co.utils.ops:gather_by_index", "torch.cumsum", "torch.nan_to_num", "torch.full",
               "torch.full_like", "torch.tensor", "torch.as_tensor", "torch.Tensor", "torch.squeeze", "torch.unsqueeze", "torch.flatten"}
ANY_FUNCS = {"torch.rand", "torch.randn", "torch.zeros", "torch.ones", "torch.zeros_like", "torch.ones_like", "torch.empty", "torch.arange", "torch.randint", "float", "int", "len", "range",
             "torch.rand_like", "torch.randn_like", "torch.randperm", "torch.multinomial", "torch.eye"}


class Mismatch:
    __slots__ = ("node", "a", "b", "what")

    def __init__(self, node, a, b, what):
        self.node, self.a, self.b, self.what = node, a, b, what


class Units:
    def __init__(self, cells: Dict[str, Unit], attrs: Dict[str, Unit], params: Optional[Dict[str, Unit]] = None):
        self.cells, self.attrs, self.params = cells, attrs, params or {}
        self.memo: Dict[int, Unit] = {}
        self.mismatches: List[Mismatch] = []
        self._seen_mis = set()

    # -- lattice
    def unify(self, node: S, units: List[Unit], what: str) -> Unit:
        cur: Unit = ANY
        for u in units:
            if u is ANY:
                continue
            if cur is ANY:
                cur = u
            elif cur != u:
                if node.id not in self._seen_mis:
                    self._seen_mis.add(node.id)
                    self.mismatches.append(Mismatch(node, cur, u, what))
                return ANY
        return cur

    @staticmethod
    def mul(a: Unit, b: Unit, sign=1) -> Unit:
        if a is ANY and b is ANY:
            return ANY
        if a is ANY:
            # a pure scale times b; for a division `any / b` the scale is unknown: stay polymorphic unless b is dimensionless
            return b if sign == 1 else (ANY if b == ONE else (-b[0], -b[1]))
        if b is ANY:
            return a
        return (a[0] + sign * b[0], a[1] + sign * b[1])

    # -- inference
    def of(self, s) -> Unit:
        if not isinstance(s, S):
            return ANY
        if s.id in self.memo:
            return self.memo[s.id]
        self.memo[s.id] = ANY  # cycle guard (loop placeholders)
        u = self._of(s)
        self.memo[s.id] = u
        return u

    def _of(self, s: S) -> Unit:
        o, a = s.op, s.args
        if o in ("cell0", "get0", "missing"):
            return self.cells.get(a[1], ANY)
        if o == "selfattr":
            return self.attrs.get(a[0], ANY)
        if o == "param":
            return self.params.get(a[0], ANY)
        if o in ("const", "global", "ext", "undef", "func", "class", "self", "tdref", "ellipsis", "slice", "kw", "starred"):
            return ANY
        if o in ("+", "-"):
            return self.unify(s, [self.of(x) for x in a], f"`{o}`")
        if o in nf.CMP_OPS:
            self.unify(s, [self.of(x) for x in a], f"comparison `{o}`")
            return ANY
        if o == "cmp":
            return ANY
        if o == "*":
            return self.mul(self.of(a[0]), self.of(a[1]))
        if o in ("/", "//"):
            return self.mul(self.of(a[0]), self.of(a[1]), -1)
        if o == "%":
            return self.of(a[0])
        if o == "neg":
            return self.of(a[0])
        if o == "**":
            b = self.of(a[0])
            e = a[1]
            if b is ANY:
                return ANY
            if isinstance(e, S) and e.op == "const" and isinstance(e.args[0], (int, float)):
                f = Fraction(e.args[0]).limit_denominator(8)
                return (b[0] * f, b[1] * f)
            return ANY
        if o in ("not", "inv", "and", "or", "&", "|", "in", "is", "isnot"):
            for x in a:
                self.of(x)
            return ANY
        if o in ("phi", "ifexp"):
            self.of(a[0])
            return self.unify(s, [self.of(a[1]), self.of(a[2])], "the two branches of a conditional")
        if o == "loop":
            return self.unify(s, [self.of(a[0]), self.of(a[1])], "a loop-carried value")
        if o == "loopvar":
            u0 = self.of(a[1])
            b = vg.LOOP_BODY.get(s.id)
            if b is not None:
                self.memo[s.id] = u0
                return self.unify(s, [u0, self.of(b)], "a loop-carried value")
            return u0
        if o == "store":
            for x in a[1:-1]:
                self.of(x)
            return self.unify(s, [self.of(a[0]), self.of(a[-1])], "a masked / indexed assignment")
        if o in ("sub", "nograd", "iter"):
            for x in a[1:]:
                self.of(x)
            return self.of(a[0])
        if o == "attr":
            if a[1] in ("shape", "ndim", "device", "dtype", "batch_size"):
                return ANY
            return self.of(a[0]) if a[1] in ("T", "data", "values") else ANY
        if o in ("tuple", "list"):
            return self.unify(s, [self.of(x) for x in a], "the elements of a sequence")
        if o == "meth":
            base, name, rest = a[0], a[1], a[2:]
            ub = self.of(base)
            if name in BOOL_METHODS:
                if name in ("eq", "ne", "lt", "le", "gt", "ge") and rest:
                    self.unify(s, [ub, self.of(rest[0])], f"comparison `.{name}()`")
                return ANY
            if name == "sqrt":
                return ANY if ub is ANY else (ub[0] / 2, ub[1] / 2)
            if name in ("pow",) and rest:
                e = rest[0]
                if ub is not ANY and isinstance(e, S) and e.op == "const" and isinstance(e.args[0], (int, float)):
                    f = Fraction(e.args[0]).limit_denominator(8)
                    return (ub[0] * f, ub[1] * f)
                return ANY
            if name in ("mul", "mul_") and rest:
                return self.mul(ub, self.of(rest[0]))
            if name in ("div", "div_", "true_divide") and rest:
                return self.mul(ub, self.of(rest[0]), -1)
            if name in ("add", "add_", "sub", "sub_", "maximum", "minimum", "fmax", "fmin") and rest:
                return self.unify(s, [ub, self.of(rest[0])], f"`.{name}()`")
            if name in ("clamp", "clamp_", "clamp_min", "clamp_max", "masked_fill", "masked_fill_", "scatter", "scatter_", "scatter_add", "fill_", "uniform_"):
                vals = [x.args[1] if isinstance(x, S) and x.op == "kw" else x for x in rest]
                if name in ("scatter", "scatter_", "scatter_add"):
                    vals = vals[2:]   # (dim, index, src)
                if name in ("masked_fill", "masked_fill_"):
                    vals = vals[1:]
                return self.unify(s, [ub] + [self.of(v) for v in vals], f"`.{name}()`")
            if name in ("get",) and rest and isinstance(rest[0], S) and rest[0].op == "const":
                return self.cells.get(rest[0].args[0], ANY)
            if name in PASS_METHODS:
                for x in rest:
                    self.of(x)
                return ub
            for x in rest:
                self.of(x)
            return ANY
        if o == "call":
            fn = nf._fn(s)
            pos = [x for x in a[1:] if not (isinstance(x, S) and x.op == "kw")]
            if fn in ANY_FUNCS:
                return ANY
            if fn == "torch.where" and len(pos) == 3:
                self.of(pos[0])
                return self.unify(s, [self.of(pos[1]), self.of(pos[2])], "the branches of torch.where")
            if fn in ("torch.full", "torch.full_like") and len(pos) >= 2:
                return self.of(pos[1])
            if fn in ("torch.gather", "rl4co.utils.ops:gather_by_index", "torch.cumsum", "torch.sum", "torch.mean", "torch.roll", "torch.abs", "torch.squeeze", "torch.unsqueeze",
                      "torch.flatten", "torch.norm", "torch.linalg.norm", "torch.nan_to_num", "torch.tensor", "torch.as_tensor", "torch.Tensor") and pos:
                for x in pos[1:]:
                    self.of(x)
                return self.of(pos[0])
            if fn in ("torch.clamp", "torch.clip"):
                vals = pos + [x.args[1] for x in a[1:] if isinstance(x, S) and x.op == "kw" and x.args[0] in ("min", "max")]
                return self.unify(s, [self.of(v) for v in vals], f"`{fn}`")
            if fn in ("torch.sqrt",) and pos:
                ub = self.of(pos[0])
                return ANY if ub is ANY else (ub[0] / 2, ub[1] / 2)
            if fn in UNIFY_FUNCS:
                return self.unify(s, [self.of(x) for x in pos], f"the arguments of `{fn.split(':')[-1]}`")
            for x in a[1:]:
                self.of(x.args[1] if isinstance(x, S) and x.op == "kw" else x)
            return ANY
        if o in ("comp",):
            vals = [x for x in a[1:] if isinstance(x, S) and x.op != "over"]
            for x in a[1:]:
                if isinstance(x, S) and x.op == "over":
                    self.of(x.args[0])
            return self.of(vals[-1]) if vals else ANY
        if o in ("dict", "item", "over", "dictsplat", "fstr"):
            for x in a:
                self.of(x)
            return ANY
        for x in a:
            if isinstance(x, S):
                self.of(x)
        return ANY


MTVRP_CELLS: Dict[str, Unit] = {
    "locs": L, "speed": SPEED, "time_windows": T, "service_time": T, "current_time": T, "distance_limit": L, "current_route_length": L,
}
MTVRP_ATTRS: Dict[str, Unit] = {"max_time": T, "speed": SPEED, "distance_limit": L, "min_loc": L, "max_loc": L}


def roots_of(it, fr) -> List[S]:
    """every value an analysed function computes: locals, returns, TensorDict cells, event payloads of all inlined frames"""
    out: List[S] = []

    def add(v):
        if isinstance(v, S):
            out.append(v)
        elif isinstance(v, vg.Tup):
            for x in v.items:
                add(x)
        elif isinstance(v, vg.TD):
            for c in v.cells.values():
                add(c)
        elif isinstance(v, (tuple, list)):
            for x in v:
                add(x)
        elif isinstance(v, dict):
            for x in v.values():
                add(x)
    for f in [fr] + list(it.call_frames):
        for v in f.locals.values():
            add(v)
        for c, v in f.returns:
            add(c)
            add(v)
    for t in it.tds:
        add(t)
    for e in it.events:
        add(e.data)
        for c in e.conds:
            add(c)
    return out


def check(it, fr, cells=MTVRP_CELLS, attrs=MTVRP_ATTRS, declared_out: Optional[Dict[str, Unit]] = None):
    """-> (mismatches, number of nodes with a concrete unit, output-cell mismatches)"""
    U = Units(cells, attrs)
    for r in roots_of(it, fr):
        U.of(r)
    outm = []
    if declared_out and isinstance(fr.ret, vg.TD):
        for k, want in declared_out.items():
            v = fr.ret.cells.get(k)
            if isinstance(v, S):
                got = U.of(v)
                if got is not ANY and got != want:
                    outm.append((k, want, got, v))
    concrete = sum(1 for u in U.memo.values() if u is not ANY)
    return U.mismatches, concrete, outm


def obligations(ctx, rule: str, label: str, it, fr, where: str, min_concrete: int, declared_out=None):
    """one obligation `label:units`; a mismatch names the offending expression"""
    from .model import AnalysisError
    mm, n, outm = check(it, fr, declared_out=declared_out)
    if n < min_concrete:
        raise AnalysisError(f"{label}: dimensional analysis saw only {n} dimensioned values (expected >= {min_concrete}): unit table lost its anchors")
    ok = not mm and not outm
    if ok:
        ctx.ob(rule, f"{label}:units", True, where, f"{n} values carry a length / time unit (speed = length/time); every sum, comparison, max/min, concatenation and store combines equal units",
               construct=f"{label}:units")
        return
    for m in mm[:4]:
        site = vg.site_of(m.node)
        w = f"{site[0]}:{site[1]}" if site else where
        ctx.ob(rule, f"{label}:units", False, w,
               f"{m.what} combines a {show(m.a)} with a {show(m.b)}: `{vg.show(m.node, 4)[:160]}` (times and distances differ by the vehicle speed td['speed'])",
               construct=f"{label}:units:{show(m.a)}-vs-{show(m.b)}")
    for k, want, got, v in outm[:4]:
        ctx.ob(rule, f"{label}:units:{k}", False, where, f"generated key '{k}' is a {show(want)} but is computed as a {show(got)}: `{vg.show(v, 3)[:140]}`", construct=f"{label}:units:out:{k}")
