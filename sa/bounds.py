"""Bound lineage: a small sound prover for `every entry of n is >= L` / `<= U` over the value graph.

No numbers are computed.  The prover follows how a tensor was *built* and accepts a bound only through constructions that
preserve it for every input:

  ge(n, L)                                        le(n, U)
  --------                                        --------
  n and L have the same polynomial normal form    same
  phi(c, a, b)           : both alternatives      both
  store(base, idx, v)    : base and v             base and v      (a depot-column store `x[..., 0] = c` is skipped: customers only)
  max(a, b) / clamp(min) : either                 both
  min(a, b) / clamp(max) : both                   either
  int(x), floor(x)       : monotone: L = int(L'), ge(x, L')       le(x, U) (floor lowers; int lowers a non-negative x)
  a + b                  : ge(a, L) and b >= 0    convex: a + (U - a) * t with t in [0, 1] and U - a >= 0 (recorded assumption)
  x / c, x * c (config scalar c): same statement about x, the factor is recorded (checked by the caller to be applied to the
                           coordinates as well, i.e. a change of units)

`nonneg` knows literals, zeros/ones/rand/full, distances and norms, sums / products / quotients of non-negatives and
integer truncation.  A difference `u - a` is non-negative only through the caller's table of documented preconditions; every
use is recorded so that the evidence shows which precondition the bound rests on.

Anything else is `not proved` -- the caller reports that the bound cannot be established, it never guesses.
"""
from typing import Callable, List, Optional

from . import nf, vg
from .vg import S

WRAP = {"clone", "to", "float", "double", "contiguous", "detach", "cpu", "cuda", "type_as"}
SHAPE = {"transpose", "view", "reshape", "squeeze", "unsqueeze", "expand", "expand_as", "flatten", "permute"}
NONNEG_CALLS = {"torch.zeros", "torch.ones", "torch.rand", "torch.zeros_like", "torch.ones_like", "torch.rand_like",
                "rl4co.utils.ops:get_distance", "torch.cdist", "torch.norm", "torch.abs", "torch.linalg.norm"}
UNIT_CALLS = {"torch.rand", "torch.rand_like", "torch.zeros", "torch.ones", "torch.zeros_like", "torch.ones_like"}


class Prover:
    def __init__(self, slack_ok: Callable[[S, S], Optional[str]] = lambda u, a: None):
        self.slack_ok = slack_ok          # (u, a) -> name of the documented precondition that makes u - a >= 0, or None
        self.assumptions: List[str] = []
        self.factors: List[S] = []        # config scalars that rescale the quantity (x / c)
        self.trace: List[str] = []
        self.steps = 0

    # ------------------------------------------------------------------ helpers
    def _w(self, n: S, mask: Optional[S]) -> S:
        """Strip value-transparent wrappers and, inside a masked store, the alignment index `x[mask]`."""
        while True:
            if n.op == "meth" and n.args[1] in WRAP | SHAPE:
                n = n.args[0]
            elif n.op == "nograd":
                n = n.args[0]
            elif n.op == "sub" and (nf._index_is_shape_only(n.args[1]) or (mask is not None and n.args[1] is mask)):
                n = n.args[0]
            else:
                return n

    def _same(self, a: S, b: S, mask) -> bool:
        a, b = self._w(a, mask), self._w(b, mask)
        if a is b:
            return True
        try:
            return nf.poly(self._demask(a, mask)) == nf.poly(self._demask(b, mask))
        except Exception:
            return False

    def _demask(self, n: S, mask) -> S:
        """Rebuild n with every `x[mask]` replaced by x (element-wise alignment inside a masked store)."""
        if mask is None or not isinstance(n, S):
            return n
        if n.op == "sub" and n.args[1] is mask:
            return self._demask(n.args[0], mask)
        if n.op in ("+", "-", "*", "/", "neg"):
            return vg.mk(n.op, *[self._demask(x, mask) if isinstance(x, S) else x for x in n.args])
        if n.op == "meth" and n.args[1] in WRAP | {"int", "long", "floor", "ceil"}:
            return vg.mk("meth", self._demask(n.args[0], mask), *n.args[1:])
        if nf._fn(n) in ("torch.floor", "torch.ceil"):
            return vg.mk("call", n.args[0], self._demask(n.args[1], mask))
        return n

    @staticmethod
    def _minmax(n: S):
        """('max'|'min', [operands]) for torch.max(a, b) / torch.maximum / clamp, else None."""
        fn = nf._fn(n)
        if fn in ("torch.max", "torch.maximum") and len(n.args) == 3 and not (n.args[2].op == "kw"):
            return "max", [n.args[1], n.args[2]]
        if fn in ("torch.min", "torch.minimum") and len(n.args) == 3 and not (n.args[2].op == "kw"):
            return "min", [n.args[1], n.args[2]]
        if n.op == "meth" and n.args[1] in ("maximum", "minimum") and len(n.args) == 3:
            return n.args[1][:3], [n.args[0], n.args[2]]
        return None

    @staticmethod
    def _clamp(n: S):
        """(x, lo, hi) for x.clamp(min=, max=) / torch.clamp(x, ...) / clip"""
        if n.op == "meth" and n.args[1] in ("clamp", "clip", "clamp_", "clip_"):
            x, rest = n.args[0], n.args[2:]
        elif nf._fn(n) in ("torch.clamp", "torch.clip"):
            x, rest = n.args[1], n.args[2:]
        else:
            return None
        lo = hi = None
        pos = [r for r in rest if not (isinstance(r, S) and r.op == "kw")]
        if pos:
            lo = pos[0]
        if len(pos) > 1:
            hi = pos[1]
        for r in rest:
            if isinstance(r, S) and r.op == "kw":
                if r.args[0] == "min":
                    lo = r.args[1]
                elif r.args[0] == "max":
                    hi = r.args[1]
        if lo is not None and vg.is_none(lo):
            lo = None
        if hi is not None and vg.is_none(hi):
            hi = None
        return x, lo, hi

    @staticmethod
    def _trunc(n: S):
        """('int'|'floor'|'ceil', x)"""
        if n.op == "meth" and n.args[1] in ("int", "long"):
            return "int", n.args[0]
        if n.op == "meth" and n.args[1] in ("floor", "ceil"):
            return n.args[1], n.args[0]
        fn = nf._fn(n)
        if fn in ("torch.floor", "torch.ceil"):
            return fn.split(".")[1], n.args[1]
        return None

    @staticmethod
    def _randint(n: S):
        """(low, high) of torch.randint(low, high, size) / randint(high, size) / keyword forms; low None = 0"""
        pos = [a for a in n.args[1:] if not (isinstance(a, S) and a.op == "kw")]
        kw = {a.args[0]: a.args[1] for a in n.args[1:] if isinstance(a, S) and a.op == "kw"}
        lo = kw.get("low")
        hi = kw.get("high")
        scal = [a for a in pos if not (isinstance(a, S) and a.op in ("tuple", "list"))]
        if "size" in kw or (pos and isinstance(pos[-1], S) and pos[-1].op in ("tuple", "list")):
            pass
        if hi is None:
            if len(scal) >= 2:
                lo, hi = scal[0], scal[1]
            elif len(scal) == 1:
                hi = scal[0]
        elif lo is None and scal:
            lo = scal[0]
        return lo, hi

    def _atom(self, n: S, mask):
        """n when n is arithmetic that simplifies to a single atom (x + 1 - 1), else None"""
        if n.op not in ("+", "-"):
            return None
        try:
            p = nf.poly(self._demask(n, mask))
        except Exception:
            return None
        if len(p.terms) == 1 and p.const_term() == 0:
            (m, c), = p.terms.items()
            if c == 1 and len(m) == 1 and m[0][1] == 1:
                a = nf.Poly.ATOMS.get(m[0][0])
                return a if isinstance(a, S) and a is not n else None
        return None

    def _diff_nonneg(self, big: S, small: S, mask) -> bool:
        """poly(big) - poly(small) has only non-negative coefficients on monomials of non-negative atoms"""
        try:
            p = nf.poly(self._demask(self._w(big, mask), mask)) - nf.poly(self._demask(self._w(small, mask), mask))
        except Exception:
            return False
        if len(p.terms) > 6:
            return False
        for m, c in p.terms.items():
            if c < 0:
                return False
            for aid, _pw in m:
                a = nf.Poly.ATOMS.get(aid)
                if not isinstance(a, S) or not self.nonneg(a, mask):
                    return False
        return True

    def _scaled_atom(self, n: S, mask):
        """(c, X) when n normalises to c * X for a single atom X (power 1) and a rational c != 1"""
        if n.op not in ("*", "/", "poly", "+", "-"):
            return None
        try:
            p = nf.poly(self._demask(n, mask))
        except Exception:
            return None
        if len(p.terms) != 1:
            return None
        (m, c), = p.terms.items()
        if len(m) != 1 or m[0][1] != 1 or c == 1:
            return None
        a = nf.Poly.ATOMS.get(m[0][0])
        return (c, a) if isinstance(a, S) else None

    @staticmethod
    def _simple(n: S) -> bool:
        return n.op in ("selfattr", "const")

    @staticmethod
    def _round(n: S):
        if n.op == "meth" and n.args[1] == "round" and len(n.args) == 2:
            return n.args[0]
        if nf._fn(n) == "torch.round" and len(n.args) == 2:
            return n.args[1]
        return None

    @staticmethod
    def _depot_column(idx: S) -> bool:
        items = idx.args if idx.op == "tuple" else (idx,)
        return len(items) >= 1 and vg.is_const(items[-1], 0) and not isinstance(items[-1].args[0], bool)

    def _budget(self):
        self.steps += 1
        return self.steps < 4000

    # ------------------------------------------------------------------ facts
    def nonneg(self, n: S, mask=None) -> bool:
        if not self._budget():
            return False
        n = self._w(n, mask)
        if n.op == "const":
            return isinstance(n.args[0], (int, float)) and not isinstance(n.args[0], bool) and n.args[0] >= 0
        fn = nf._fn(n)
        if fn in NONNEG_CALLS:
            return True
        if fn in ("torch.full", "torch.full_like") and len(n.args) >= 3:
            return self.nonneg(n.args[2], mask)
        if fn == "torch.randint":
            lo, hi = self._randint(n)
            return lo is None or self.nonneg(lo, mask)
        if n.op == "%" and len(n.args) == 2:
            # x % m lies in [0, m) for m > 0 (torch follows the sign of the divisor); m <= 0 is the caller's recorded assumption
            why = self.slack_ok(self._w(n.args[1], mask), None)
            if why:
                if why not in self.assumptions:
                    self.assumptions.append(why)
                return True
            return False
        if n.op == "selfattr":
            why = self.slack_ok(n, None)
            if why:
                if why not in self.assumptions:
                    self.assumptions.append(why)
                return True
            return False
        if fn in ("torch.cat", "torch.stack", "torch.concat") and len(n.args) >= 2:
            items = nf._seq_items(n.args[1])
            return bool(items) and all(self.nonneg(x, mask) for x in items)
        if n.op == "meth" and n.args[1] in ("norm", "abs"):
            return True
        if n.op in ("+", "*", "/") and len(n.args) == 2:
            return self.nonneg(n.args[0], mask) and self.nonneg(n.args[1], mask)
        if n.op == "-" and len(n.args) == 2:
            why = self.slack_ok(self._w(n.args[0], mask), self._w(n.args[1], mask))
            if why:
                if why not in self.assumptions:
                    self.assumptions.append(why)
                return True
            return False
        t = self._trunc(n)
        if t:
            return self.nonneg(t[1], mask)
        if n.op == "phi":
            return all(self.nonneg(x, mask) for x in n.args[1:])
        if n.op == "sub":
            return self.nonneg(n.args[0], mask)
        mm = self._minmax(n)
        if mm:
            return (any if mm[0] == "max" else all)(self.nonneg(x, mask) for x in mm[1])
        return False

    def unit(self, n: S, mask=None) -> bool:
        """n in [0, 1]"""
        n = self._w(n, mask)
        return nf._fn(n) in UNIT_CALLS or (n.op == "const" and isinstance(n.args[0], (int, float)) and 0 <= n.args[0] <= 1)

    def integral(self, n: S, mask=None) -> bool:
        """every entry of n is an integer (or an integer multiple of a recorded configuration unit)"""
        if not self._budget():
            return False
        n = self._w(n, mask)
        if n.op == "const":
            return isinstance(n.args[0], int) or (isinstance(n.args[0], float) and n.args[0].is_integer())
        if self._trunc(n) or self._round(n) is not None or nf._fn(n) in ("torch.randint", "torch.arange"):
            return True
        if nf._fn(n) in ("torch.full", "torch.full_like") and len(n.args) >= 3:
            return self.integral(n.args[2], mask)
        if n.op == "selfattr":
            why = self.slack_ok(n, "int")
            if why:
                if why not in self.assumptions:
                    self.assumptions.append(why)
                return True
            return False
        sc = self._scaled(n)
        if sc:                      # integer multiples of one common unit
            self.factors.append(sc[1])
            return self.integral(sc[0], mask)
        if n.op == "phi":
            return all(self.integral(x, mask) for x in n.args[1:])
        if n.op == "store":
            return self.integral(n.args[0], mask) and (self._depot_column(n.args[1]) or self.integral(n.args[2], n.args[1]))
        mm = self._minmax(n)
        if mm:
            return all(self.integral(x, mask) for x in mm[1])
        cl = self._clamp(n)
        if cl:
            return all(self.integral(x, mask) for x in cl if x is not None)
        if n.op in ("+", "-") and len(n.args) == 2:
            return self.integral(n.args[0], mask) and self.integral(n.args[1], mask)
        if n.op == "sub":
            return self.integral(n.args[0], mask)
        return False

    def _scaled(self, n: S):
        """(x, c) when n = x / c or x * c with c a configuration scalar (self attribute)"""
        if n.op in ("/", "*") and len(n.args) == 2 and isinstance(n.args[1], S) and n.args[1].op == "selfattr":
            return n.args[0], n.args[1]
        return None

    # ------------------------------------------------------------------ bounds
    def ge(self, n: S, L: S, mask=None, depth=0) -> bool:
        if not self._budget() or depth > 60:
            return False
        n = self._w(n, mask)
        if self._same(n, L, mask):
            return True
        d = depth + 1
        Lw = self._w(L, mask)
        if nf._fn(Lw) in ("torch.full", "torch.full_like") and len(Lw.args) >= 3:
            return self.ge(n, Lw.args[2], mask, d)
        mmL = self._minmax(Lw)
        if mmL and n.op not in ("phi", "store"):
            return (all if mmL[0] == "max" else any)(self.ge(n, x, mask, d) for x in mmL[1])
        if n.op not in ("phi", "store") and self._diff_nonneg(n, L, mask):
            return True
        if Lw.op == "-" and len(Lw.args) == 2 and n.op not in ("phi", "store") and self.nonneg(Lw.args[1], mask):
            saved = len(self.trace)
            if self.ge(n, Lw.args[0], mask, d):    # L = a - k <= a
                return True
            del self.trace[saved:]
        if self._simple(n) and not self._simple(Lw) and Lw.op not in ("phi", "store"):
            return self.le(L, n, mask, d)
        if self._simple(n) and self._simple(Lw):
            why = self.slack_ok(n, Lw)
            if why:
                if why not in self.assumptions:
                    self.assumptions.append(why)
                return True
        sa = self._scaled_atom(n, mask)
        if sa and sa[0] >= 1 and self.nonneg(sa[1], mask) and self.ge(sa[1], L, mask, d):
            return True                           # c * X >= X >= L for c >= 1, X >= 0
        rn = self._round(n)
        if rn is not None:
            rl = self._round(Lw)
            if rl is not None and self.ge(rn, rl, mask, d):
                return True                       # rounding is monotone
            return self.integral(L, mask) and self.ge(rn, L, mask, d)
        tl0 = self._trunc(self._w(L, mask))
        if tl0 and tl0[0] in ("int", "floor") and n.op not in ("phi", "store") and self.nonneg(tl0[1], mask):
            # L = int(L') <= L' for a non-negative L': a bound by L' is stronger
            saved = len(self.trace)
            if self.ge(n, tl0[1], mask, d):
                return True
            del self.trace[saved:]
        if n.op == "phi":
            return all(self.ge(x, L, mask, d) for x in n.args[1:])
        if n.op == "store":
            base, idx, val = n.args
            if self._depot_column(idx):
                return self.ge(base, L, mask, d)
            return self.ge(base, L, mask, d) and self.ge(val, L, idx, d)
        sc = self._scaled(n)
        if sc:
            self.factors.append(sc[1])
            return self.ge(sc[0], L, mask, d)
        mm = self._minmax(n)
        if mm:
            return (any if mm[0] == "max" else all)(self.ge(x, L, mask, d) for x in mm[1])
        cl = self._clamp(n)
        if cl:
            x, lo, hi = cl
            low_ok = self.ge(x, L, mask, d) or (lo is not None and self.ge(lo, L, mask, d))
            return low_ok and (hi is None or self.ge(hi, L, mask, d))
        t = self._trunc(n)
        if t:
            tl = self._trunc(self._w(L, mask))
            if tl and tl[0] == t[0] and self.ge(t[1], tl[1], mask, d):
                return True          # truncation is monotone
            if t[0] == "ceil" and self.ge(t[1], L, mask, d):
                return True          # ceil raises
            return False
        fn = nf._fn(n)
        if fn == "torch.randint":
            lo, hi = self._randint(n)
            return lo is not None and self.ge(lo, L, mask, d)
        if fn in ("torch.full", "torch.full_like") and len(n.args) >= 3:
            return self.ge(n.args[2], L, mask, d)
        at = self._atom(n, mask)
        if at is not None:
            return self.ge(at, L, mask, d)
        if n.op == "+" and len(n.args) == 2:
            a, b = n.args
            if (self.ge(a, L, mask, d) and self.nonneg(b, mask)) or (self.ge(b, L, mask, d) and self.nonneg(a, mask)):
                return True
        self.trace.append(f"cannot bound {vg.show(n, 3)} from below by {vg.show(L, 2)}")
        return False

    def le(self, n: S, U: S, mask=None, depth=0) -> bool:
        if not self._budget() or depth > 60:
            return False
        n = self._w(n, mask)
        if self._same(n, U, mask):
            return True
        d = depth + 1
        Uw = self._w(U, mask)
        if nf._fn(Uw) in ("torch.full", "torch.full_like") and len(Uw.args) >= 3:
            return self.le(n, Uw.args[2], mask, d)
        mmU = self._minmax(Uw)
        if mmU and n.op not in ("phi", "store"):
            return (all if mmU[0] == "min" else any)(self.le(n, x, mask, d) for x in mmU[1])
        if n.op not in ("phi", "store") and self._diff_nonneg(U, n, mask):
            return True
        if Uw.op == "+" and len(Uw.args) == 2 and n.op not in ("phi", "store"):
            for a, k in (Uw.args, Uw.args[::-1]):
                if self.nonneg(k, mask):
                    saved = len(self.trace)
                    if self.le(n, a, mask, d):     # U = a + k >= a
                        return True
                    del self.trace[saved:]
        if self._simple(n) and not self._simple(Uw) and Uw.op not in ("phi", "store"):
            return self.ge(U, n, mask, d)
        if self._simple(n) and self._simple(Uw):
            why = self.slack_ok(Uw, n)
            if why:
                if why not in self.assumptions:
                    self.assumptions.append(why)
                return True
        sa = self._scaled_atom(n, mask)
        if sa and 0 < sa[0] <= 1 and self.nonneg(sa[1], mask) and self.le(sa[1], U, mask, d):
            return True                           # c * X <= X <= U for 0 < c <= 1, X >= 0
        rn = self._round(n)
        if rn is not None:
            ru = self._round(Uw)
            if ru is not None and self.le(rn, ru, mask, d):
                return True
            return self.integral(U, mask) and self.le(rn, U, mask, d)
        if n.op == "phi":
            return all(self.le(x, U, mask, d) for x in n.args[1:])
        if n.op == "store":
            base, idx, val = n.args
            if self._depot_column(idx):
                return self.le(base, U, mask, d)
            return self.le(base, U, mask, d) and self.le(val, U, idx, d)
        sc = self._scaled(n)
        if sc:
            self.factors.append(sc[1])
            return self.le(sc[0], U, mask, d)
        mm = self._minmax(n)
        if mm:
            return (all if mm[0] == "max" else any)(self.le(x, U, mask, d) for x in mm[1])
        cl = self._clamp(n)
        if cl:
            x, lo, hi = cl
            up_ok = self.le(x, U, mask, d) or (hi is not None and self.le(hi, U, mask, d))
            return up_ok and (lo is None or self.le(lo, U, mask, d))
        t = self._trunc(n)
        if t:
            if t[0] == "floor":
                return self.le(t[1], U, mask, d)
            if t[0] == "int":
                inner = self._w(t[1], mask)
                exact = self._trunc(inner) is not None       # int() of an integer-valued tensor changes nothing
                return self.le(t[1], U, mask, d) and (exact or self.nonneg(t[1], mask))
            return False
        fn = nf._fn(n)
        if fn == "torch.randint":
            lo, hi = self._randint(n)       # values lo .. hi - 1
            return hi is not None and self.le(vg.mk("-", hi, vg.mk("const", 1)), U, mask, d)
        if fn in ("torch.full", "torch.full_like") and len(n.args) >= 3:
            return self.le(n.args[2], U, mask, d)
        at = self._atom(n, mask)
        if at is not None:
            return self.le(at, U, mask, d)
        if n.op == "+" and len(n.args) == 2:
            # residue shifted into [l, h): x % (h - l) + l <= h - 1
            for a, b in (n.args, n.args[::-1]):
                a = self._w(a, mask)
                if a.op == "%" and len(a.args) == 2:
                    m = self._w(a.args[1], mask)
                    if m.op == "-" and len(m.args) == 2 and self._same(m.args[1], b, mask) and self.nonneg(a, mask):
                        if self.le(vg.mk("-", m.args[0], vg.mk("const", 1)), U, mask, d):
                            return True
        if n.op == "+" and len(n.args) == 2:
            # convex combination a + (U - a) * t, t in [0, 1], U - a >= 0
            for a, b in (n.args, n.args[::-1]):
                b = self._w(b, mask)
                if b.op == "*" and len(b.args) == 2:
                    for s, tt in (b.args, b.args[::-1]):
                        s = self._w(s, mask)
                        if self.unit(tt, mask) and s.op == "-" and len(s.args) == 2 and self._same(s.args[1], a, mask) and self._same(s.args[0], U, mask):
                            if self.nonneg(s, mask):
                                return True
        self.trace.append(f"cannot bound {vg.show(n, 3)} from above by {vg.show(U, 2)}")
        return False
