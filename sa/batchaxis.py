"""E6 -- batch-axis non-interference.

Finds, in a value DAG, the *batch-global* operations: operations whose result for row b can
depend on other rows of a batch-leading tensor (or on the number of rows):

  reduce-all   x.all() / .any() / .sum() / .max() / .min() / .mean() / .std() / .item() without a dim,
               torch.all(x) ..., reductions with dim 0 (or a negative dim equal to the known rank)
  row-pick     x[0], x[0, ...], batch_to_scalar(x)
  flatten      x.nonzero(), torch.nonzero(x), x[bool_mask] with a row-mixing mask, x.view(-1), x.flatten()
  squeeze-all  x.squeeze() without a dim (rank depends on the batch size being 1)
  batch-size   x.shape[0] / x.size(0) / len(x) used as an arithmetic operand

The engine only classifies; rules decide what is a sink and which classified constructs are
justified (row-uniform operand, regrouped flatten, guarded control).
"""
from __future__ import annotations

from typing import Dict, Iterable, List, Optional, Tuple

from . import nf, vg
from .vg import S

REDUCERS = {"all", "any", "sum", "max", "min", "mean", "std", "var", "prod", "median", "norm", "argmax", "argmin", "amax", "amin", "logsumexp", "count_nonzero", "nansum", "nanmean"}
TORCH_REDUCERS = {"torch." + r for r in REDUCERS}
TUPLE_RETURNING = {"sort", "max", "min", "topk", "median", "mode", "kthvalue", "cummax", "cummin", "split", "chunk", "unbind", "nonzero", "size", "shape", "where", "std_mean", "var_mean", "unique"}


class Hit:
    __slots__ = ("node", "kind", "operand", "why")

    def __init__(self, node, kind, operand, why):
        self.node, self.kind, self.operand, self.why = node, kind, operand, why

    def key(self) -> str:
        return f"{self.kind}:{vg.show(nf.norm(self.node), 5)}"

    def __repr__(self):
        return f"<{self.kind} {vg.show(self.node, 3)}>"


def _plain_args(args):
    return [a for a in args if not (isinstance(a, S) and a.op == "kw")]


def _kw(args, name):
    for a in args:
        if isinstance(a, S) and a.op == "kw" and a.args[0] == name:
            return a.args[1]
    return None


def _cint(s):
    if isinstance(s, S) and s.op == "const" and isinstance(s.args[0], int) and not isinstance(s.args[0], bool):
        return s.args[0]
    return None


def _dims_of(d) -> Optional[List[int]]:
    if d is None:
        return None
    if _cint(d) is not None:
        return [_cint(d)]
    if isinstance(d, S) and d.op in ("tuple", "list") and all(_cint(x) is not None for x in d.args):
        return [_cint(x) for x in d.args]
    return "?"


def is_scalarish(s: S) -> bool:
    """Python-level numbers / sizes (not batch-leading tensors)."""
    s = nf.strip(s)
    if s.op == "const":
        return True
    if vg.shape_only(s):
        return True
    if s.op == "sub" and vg.shape_only(nf.strip(s.args[0])):
        return True
    if s.op in ("+", "-", "*", "//", "%", "/"):
        return all(isinstance(a, S) and is_scalarish(a) for a in s.args)
    if s.op in ("selfattr", "param", "global"):
        return False
    if s.op == "call" and isinstance(s.args[0], S) and s.args[0].op in ("ext", "global") and s.args[0].args[0] in ("len", "int", "float", "range", "max", "min"):
        return True
    return False


class RankFacts:
    """Known ranks of TD cells (from constructor shapes in _reset)."""

    def __init__(self):
        # td['action'] is a [batch] index vector by the env API (RL4COEnvBase.step); everything else is learnt from constructors
        self.cell_rank: Dict[str, int] = {"action": 1}
        self.cell_unit_last: set = set()

    def learn_from_reset(self, td: "vg.TD"):
        for k, v in td.cells.items():
            r = self._ctor_rank(v)
            if r is None:
                r = self.rank(v)
            if r is not None:
                self.cell_rank[k] = r
                if self._ctor_unit_last(v) or self.unit_last(v):
                    self.cell_unit_last.add(k)

    def _ctor_unit_last(self, v: S) -> bool:
        """constructor whose last size is the literal 1: zeros((*batch_size, 1))"""
        v = nf.strip(v)
        fn = nf._fn(v)
        if fn not in ("torch.zeros", "torch.ones", "torch.full", "torch.empty", "torch.rand", "torch.randint"):
            return False
        plain = _plain_args(v.args[1:])
        size = _kw(v.args[1:], "size")
        if size is not None:
            plain = [size]
        if not plain:
            return False
        first = plain[0]
        items = list(first.args) if isinstance(first, S) and first.op in ("tuple", "list") else (plain if fn != "torch.full" else [])
        return bool(items) and _cint(items[-1]) == 1

    def unit_last(self, s: S, depth=0) -> bool:
        """provably size 1 on the last axis"""
        if depth > 20 or not isinstance(s, S):
            return False
        if s.op == "meth" and s.args[1] == "unsqueeze" and len(s.args) > 2 and _cint(s.args[2]) == -1:
            return True
        if s.op == "cell0":
            return s.args[1] in self.cell_unit_last
        if s.op == "meth" and s.args[1] in ("float", "int", "long", "bool", "to", "clone", "contiguous", "detach"):
            return self.unit_last(s.args[0], depth + 1)
        if s.op == "sub":
            idx = s.args[1]
            comps = list(idx.args) if idx.op == "tuple" else [idx]
            if comps and comps[-1].op == "const" and comps[-1].args[0] is None and (len(comps) > 1 and comps[0].op in ("ellipsis", "slice")):
                return True
        if s.op == "meth" and s.args[1] in REDUCERS:
            kd = _kw(s.args[2:], "keepdim") or _kw(s.args[2:], "keepdims")
            d = _kw(s.args[2:], "dim") or (_plain_args(s.args[2:])[0] if _plain_args(s.args[2:]) else None)
            return kd is not None and vg.is_const(kd, True) and d is not None and _cint(d) == -1
        if s.op in ("loopvar",) and len(s.args) > 1 and isinstance(s.args[1], S):
            return self.unit_last(s.args[1], depth + 1)
        return False

    def _ctor_rank(self, v: S) -> Optional[int]:
        v = nf.strip(v)
        fn = nf._fn(v)
        if fn in ("torch.zeros", "torch.ones", "torch.full", "torch.empty", "torch.rand", "torch.randint", "torch.FloatTensor", "torch.Tensor", "torch.randn"):
            plain = _plain_args(v.args[1:])
            size = _kw(v.args[1:], "size")
            if size is not None:
                plain = [size]
            if fn == "torch.randint":
                tup = [x for x in plain if isinstance(x, S) and x.op in ("tuple", "list")]
                plain = tup[:1]
            if not plain:
                return None
            first = plain[0]
            if isinstance(first, S) and first.op in ("tuple", "list"):
                return self._count(first.args)
            # positional sizes: zeros(*batch_size, n) ; full(size, value)
            if fn == "torch.full":
                return None
            return self._count(plain)
        if v.op == "meth" and v.args[1] == "sample" and len(v.args) == 3 and isinstance(v.args[2], S) and v.args[2].op in ("tuple", "list"):
            return self._count(v.args[2].args)   # sampler.sample((*batch_size, n, 2))
        return None

    def _starred_axes(self, x: S) -> Optional[int]:
        """Number of axes a starred size argument stands for: `*batch_size` is ONE axis (rl4co batches are one-dimensional),
        `*t.shape[:k]` is k axes, `*t.shape[:-k]` is rank(t) - k axes, `*t.shape` is rank(t); anything else is unknown."""
        inner = nf.strip(x.args[0]) if x.args and isinstance(x.args[0], S) else None
        if inner is None:
            return None
        if "batch_size" in vg.show(inner, 3) and inner.op != "sub":
            return 1
        if inner.op == "attr" and inner.args[1] == "batch_size":
            return 1
        if inner.op == "attr" and inner.args[1] == "shape" and isinstance(inner.args[0], S):
            return self.rank(inner.args[0], 1)
        if inner.op == "sub" and isinstance(inner.args[0], S) and isinstance(inner.args[1], S) and inner.args[1].op == "slice":
            b = nf.strip(inner.args[0])
            lo, hi, st = inner.args[1].args
            if not (vg.is_none(lo) or _cint(lo) == 0) or not vg.is_none(st):
                return None
            k = _cint(hi)
            if b.op == "attr" and b.args[1] == "batch_size":
                return 1 if (k is None or k >= 1) else None
            if b.op == "attr" and b.args[1] == "shape" and k is not None:
                if k >= 0:
                    return k
                r = self.rank(b.args[0], 1) if isinstance(b.args[0], S) else None
                return None if r is None else r + k
        return None

    def _count(self, items) -> Optional[int]:
        n = 0
        for x in items:
            if isinstance(x, S) and x.op == "starred":
                k = self._starred_axes(x)
                if k is None:
                    return None
                n += k
            elif isinstance(x, S) and (x.op in ("const", "sub", "+", "-", "*", "//", "attr", "meth", "param", "selfattr") or True):
                n += 1
        return n

    def learn_loop_invariants(self):
        """A loop-carried tensor keeps its rank: the end-of-iteration value of a loop variable
        has the rank of its initial value (and so has the base of an indexed store into it)."""
        self.forced: Dict[int, int] = getattr(self, "forced", {})
        for pid, body in list(vg.LOOP_BODY.items()):
            ph = vg.LOOP_PH.get(pid)
            if ph is None or len(ph.args) < 2 or not isinstance(ph.args[1], S):
                continue
            r = self.rank(ph.args[1])
            if r is None:
                continue
            self.forced[ph.id] = r
            b = body
            for _ in range(6):
                self.forced[b.id] = r
                b1 = nf.strip(b)
                self.forced[b1.id] = r
                if b1.op == "store" and isinstance(b1.args[0], S):
                    b = b1.args[0]
                else:
                    break

    def rank(self, s: S, depth=0) -> Optional[int]:
        if depth > 30:
            return None
        f = getattr(self, "forced", None)
        if f and s.id in f:
            return f[s.id]
        fn0 = nf._fn(s)
        if fn0 in ("torch.zeros", "torch.ones", "torch.full", "torch.empty", "torch.FloatTensor", "torch.rand", "torch.randn", "torch.randint") or (s.op == "meth" and s.args[1] == "sample"):
            r0 = self._ctor_rank(s)
            if r0 is not None or s.op != "meth":
                return r0
        if s.op in ("phi", "ifexp"):
            rs = {self.rank(a, depth + 1) for a in s.args[1:] if isinstance(a, S) and a.op != "undef"}
            return rs.pop() if len(rs) == 1 and None not in rs else None
        if fn0 in ("torch.cat", "torch.concat") and len(s.args) >= 2:
            items = nf._seq_items(s.args[1]) or []
            rs = {self.rank(a, depth + 1) for a in items if isinstance(a, S)} - {None}
            return rs.pop() if len(rs) == 1 else None
        if fn0 == "torch.stack" and len(s.args) >= 2:
            items = nf._seq_items(s.args[1]) or []
            rs = {self.rank(a, depth + 1) for a in items if isinstance(a, S)} - {None}
            return rs.pop() + 1 if len(rs) == 1 else None
        if fn0 in ("torch.abs", "torch.exp", "torch.log", "torch.sqrt", "torch.clamp", "torch.round", "torch.floor", "torch.ceil", "torch.nan_to_num", "torch.cumsum", "torch.clip",
                   "torch.sigmoid", "torch.tanh", "torch.relu", "torch.roll", "torch.flip", "torch.logical_not") and len(s.args) >= 2 and isinstance(s.args[1], S):
            return self.rank(s.args[1], depth + 1)
        if fn0 in ("torch.max", "torch.min", "torch.maximum", "torch.minimum", "torch.logical_and", "torch.logical_or") and len(s.args) == 3 and all(isinstance(a, S) and a.op != "kw" for a in s.args[1:]) \
                and _cint(s.args[2]) is None:
            # elementwise max / min of two tensors
            rs = [self.rank(a, depth + 1) for a in s.args[1:] if not is_scalarish(a) and nf.strip(a).op != "selfattr"]
            return max(rs) if rs and all(r is not None for r in rs) else None
        if fn0 in ("torch.max", "torch.min", "torch.sum", "torch.mean", "torch.any", "torch.all", "torch.count_nonzero", "torch.argmax", "torch.argmin", "torch.norm", "torch.prod") and len(s.args) >= 3:
            d_ = _kw(s.args[2:], "dim")
            if d_ is None and _cint(s.args[2]) is not None:
                d_ = s.args[2]
            if d_ is not None and _cint(d_) is not None:
                r = self.rank(s.args[1], depth + 1) if isinstance(s.args[1], S) else None
                kd = _kw(s.args[2:], "keepdim")
                if r is None:
                    return None
                return r if (kd is not None and vg.is_const(kd, True)) else r - 1
        if s.op == "param" and s.args[0] == "actions":
            return 2  # [batch, steps] by the env API (get_reward / check_solution_validity)
        if s.op == "store" and isinstance(s.args[0], S):
            return self.rank(s.args[0], depth + 1)
        if fn0 is not None and fn0.endswith(":get_distance") and len(s.args) >= 3:
            rs = [self.rank(a, depth + 1) for a in s.args[1:3] if isinstance(a, S)]
            return max(rs) - 1 if rs and all(r is not None for r in rs) else None
        if fn0 is not None and fn0.endswith(":get_distance_matrix") and len(s.args) >= 2 and isinstance(s.args[1], S):
            return self.rank(s.args[1], depth + 1)        # [..., n, d] coordinates -> [..., n, n] distances
        if fn0 in ("torch.zeros_like", "torch.ones_like", "torch.full_like") and len(s.args) >= 2 and isinstance(s.args[1], S):
            return self.rank(s.args[1], depth + 1)
        s0 = s
        if s.op in ("cell0",):
            return self.cell_rank.get(s.args[1])
        if s.op == "loopvar" and len(s.args) > 1 and isinstance(s.args[1], S):
            return self.rank(s.args[1], depth + 1)
        if s.op == "loop":
            return self.rank(s.args[0], depth + 1)
        if s.op == "nograd":
            return self.rank(s.args[0], depth + 1)
        if s.op in ("+", "-", "*", "/", "&", "|", "<", "<=", ">", ">=", "==", "!="):
            # configuration attributes (self.capacity, self.max_time, ...) are Python numbers in this code base: they do not change the rank
            ops_ = [a for a in s.args if isinstance(a, S) and not is_scalarish(a) and not (nf.strip(a).op == "selfattr")]
            rs = [self.rank(a, depth + 1) for a in ops_]
            if rs and all(r is not None for r in rs):
                return max(rs)
            return None
        if s.op in ("inv", "neg", "not"):
            return self.rank(s.args[0], depth + 1)
        if fn0 is not None and fn0.endswith(":gather_by_index") and len(s.args) >= 3 and isinstance(s.args[1], S) and isinstance(s.args[2], S):
            # ops.gather_by_index(src, idx, dim=1, squeeze=True): the gathered axis disappears iff idx selects ONE entry per row
            rsrc = self.rank(s.args[1], depth + 1)
            ridx = self.rank(s.args[2], depth + 1)
            dim = _kw(s.args[3:], "dim")
            sq = _kw(s.args[3:], "squeeze")
            if rsrc is not None and sq is not None and vg.is_const(sq, False):
                return rsrc
            if rsrc is None or ridx is None or (dim is not None and _cint(dim) != 1) or (sq is not None and not vg.is_const(sq, True)):
                return None
            if ridx == 1 or (ridx == 2 and self.unit_last(s.args[2])):
                return rsrc - 1
            return None
        if fn0 == "torch.where" and len(s.args) == 4:
            rs = [self.rank(a, depth + 1) for a in s.args[1:] if isinstance(a, S) and not is_scalarish(a)]
            if rs and all(r is not None for r in rs):
                return max(rs)
            return None
        if s.op == "meth":
            base, name = s.args[0], s.args[1]
            if name in ("float", "int", "long", "bool", "to", "clone", "contiguous", "detach", "double", "abs", "exp", "log", "clamp", "scatter", "masked_fill", "type_as", "transpose",
                        "gather", "scatter_", "scatter_add", "scatter_add_", "uniform_", "normal_", "fill_", "clamp_", "round", "floor", "ceil", "sqrt", "cumsum", "sort", "flip", "roll",
                        "masked_fill_", "expand_as", "index_select", "softmax", "log_softmax", "neg", "sigmoid", "tanh", "relu", "cpu", "cuda", "half"):
                return self.rank(base, depth + 1)
            if name in ("repeat", "permute") and len(s.args) > 2 and not any(isinstance(x, S) and x.op in ("starred", "kw") for x in s.args[2:]):
                return len(s.args) - 2
            if name in ("view", "reshape") and len(s.args) > 2:
                shp = list(s.args[2:])
                if len(shp) == 1 and isinstance(shp[0], S) and shp[0].op in ("tuple", "list"):
                    shp = list(shp[0].args)
                if shp and not any(isinstance(x, S) and x.op in ("starred", "kw") for x in shp):
                    return len(shp)
                # `*batch_size` stands for ONE axis (rl4co batches are one-dimensional)
                if shp and all(not (isinstance(x, S) and x.op == "kw") for x in shp) and all(
                        not (isinstance(x, S) and x.op == "starred") or "batch_size" in vg.show(x, 3) for x in shp):
                    return len(shp)
            if name in ("expand_as", "view_as", "type_as", "reshape_as") and len(s.args) > 2 and isinstance(s.args[2], S):
                return self.rank(s.args[2], depth + 1) if name != "type_as" else self.rank(base, depth + 1)
            if name == "expand" and len(s.args) > 2 and not any(isinstance(x, S) and x.op in ("starred", "kw") for x in s.args[2:]):
                return len(s.args) - 2
            if name in ("maximum", "minimum", "where", "logical_and", "logical_or") and len(s.args) > 2:
                rs = [self.rank(a, depth + 1) for a in [base] + list(s.args[2:]) if isinstance(a, S) and not is_scalarish(a) and a.op != "kw"]
                return max(rs) if rs and all(r is not None for r in rs) else None
            if name == "unsqueeze":
                r = self.rank(base, depth + 1)
                return None if r is None else r + 1
            if name == "squeeze" and len(s.args) > 2:
                r = self.rank(base, depth + 1)
                return None if r is None else r - 1
            if name in REDUCERS and len(s.args) > 2:
                r = self.rank(base, depth + 1)
                kd = _kw(s.args[2:], "keepdim") or _kw(s.args[2:], "keepdims")
                if r is None:
                    return None
                if kd is not None and vg.is_const(kd, True):
                    return r
                return r - 1
        if s.op == "sub":
            b0 = nf.strip(s.args[0])
            if _cint(s.args[1]) is not None and ((b0.op == "meth" and b0.args[1] in ("max", "min", "sort", "topk", "median", "kthvalue", "cummax", "cummin") and len(b0.args) > 2) or
                                                 (nf._fn(b0) in ("torch.max", "torch.min", "torch.sort", "torch.topk") and len(b0.args) > 2)):
                # (values, indices) = x.max(dim): picking a tuple element, not a row
                return self.rank(b0, depth + 1)
            r = self.rank(s.args[0], depth + 1)
            if r is None:
                return None
            idx = s.args[1]
            comps = list(idx.args) if idx.op == "tuple" else [idx]
            for c in comps:
                if c.op == "const" and c.args[0] is None:
                    r += 1
                elif _cint(c) is not None:
                    r -= 1
                elif c.op in ("slice", "ellipsis"):
                    pass
                else:
                    return None
            return r
        return None


def batch_global(n: S, ranks: Optional[RankFacts] = None) -> Optional[Hit]:
    """Classify one node."""
    o, a = n.op, n.args
    # ---- reductions
    if o == "meth" and a[1] in REDUCERS:
        base = a[0]
        if is_scalarish(base):
            return None
        rest = list(a[2:])
        plain = _plain_args(rest)
        d = _kw(rest, "dim")
        if d is None:
            d = _kw(rest, "axis")
        if d is None and plain:
            if a[1] in ("norm",):
                d = plain[1] if len(plain) > 1 else None
            else:
                d = plain[0]
        if d is None:
            return Hit(n, "reduce-all", base, f".{a[1]}() without dim reduces over the batch axis")
        dims = _dims_of(d)
        if dims == "?":
            return None
        if 0 in dims:
            return Hit(n, "reduce-all", base, f".{a[1]}(dim={dims}) includes the batch axis")
        if ranks is not None:
            r = ranks.rank(base)
            if r is not None and any(x < 0 and -x == r for x in dims):
                return Hit(n, "reduce-all", base, f".{a[1]}(dim={dims}) on a rank-{r} tensor reduces the batch axis")
        return None
    fn = nf._fn(n)
    if fn in TORCH_REDUCERS:
        rest = list(a[1:])
        plain = _plain_args(rest)
        if not plain:
            return None
        base = plain[0]
        if not isinstance(base, S) or is_scalarish(base):
            return None
        d = _kw(rest, "dim")
        if d is None and len(plain) > 1 and fn not in ("torch.max", "torch.min") :
            d = plain[1]
        elif d is None and len(plain) > 1 and _cint(plain[1]) is not None:
            d = plain[1]
        elif d is None and len(plain) > 1:
            return None  # torch.max(a, b): elementwise
        if d is None:
            return Hit(n, "reduce-all", base, f"{fn}(x) without dim reduces over the batch axis")
        dims = _dims_of(d)
        if dims == "?":
            return None
        if 0 in dims:
            return Hit(n, "reduce-all", base, f"{fn}(dim={dims}) includes the batch axis")
        if ranks is not None:
            r = ranks.rank(base)
            if r is not None and any(x < 0 and -x == r for x in dims):
                return Hit(n, "reduce-all", base, f"{fn}(dim={dims}) on a rank-{r} tensor reduces the batch axis")
        return None
    # x.index_fill(dim, index, v) / index_copy / index_add with a non-batch dim: EVERY row receives every entry of `index`;
    # with an index that has one entry per row (a batch-leading value) row r is written at the positions chosen for all rows
    if o == "meth" and a[1] in ("index_fill", "index_fill_", "index_copy", "index_copy_", "index_add", "index_add_") and len(_plain_args(a[2:])) >= 2:
        pa_ = _plain_args(a[2:])
        if _cint(pa_[0]) not in (0, None) and isinstance(pa_[1], S) and not is_scalarish(pa_[1]) and not is_scalarish(a[0]):
            return Hit(n, "flatten", pa_[1], f".{a[1]}(dim, index, ...) applies the whole index vector to every row: the entries chosen for the other instances are written into this row as well")
    # torch.dist(a, b) / a.dist(b): ONE number for the whole tensors (the p-norm of the flattened difference)
    if (fn == "torch.dist" and len(_plain_args(a[1:])) >= 2) or (o == "meth" and a[1] == "dist" and len(_plain_args(a[2:])) >= 1):
        base_ = _plain_args(a[1:])[0] if fn == "torch.dist" else a[0]
        if isinstance(base_, S) and not is_scalarish(base_):
            return Hit(n, "reduce-all", base_, "dist(a, b) is the norm of the flattened difference: one value for all rows")
    if o == "meth" and a[1] == "item":
        if is_scalarish(a[0]):
            return None
        return Hit(n, "reduce-all", a[0], ".item() of a batch-leading value")
    if fn is not None and fn.endswith("batch_to_scalar"):
        return Hit(n, "row-pick", a[1], "batch_to_scalar picks one row for the whole batch")
    # ---- row picks
    if o == "sub":
        base, idx = a[0], a[1]
        comps = list(idx.args) if isinstance(idx, S) and idx.op == "tuple" else [idx]
        first = comps[0] if comps else None
        # x[(0,) * x.dim()]: the "first item" idiom -- element 0 along every axis, the batch axis included
        if isinstance(idx, S) and idx.op == "*" and len(idx.args) == 2:
            tz = [t for t in idx.args if isinstance(t, S) and t.op == "tuple" and t.args and all(_cint(c) == 0 for c in t.args)]
            if tz:
                first = tz[0].args[0]
        if first is not None and _cint(first) is not None:
            b = nf.strip(base)
            if b.op == "meth" and b.args[1] in TUPLE_RETURNING:
                return None
            if nf._fn(b) is not None and nf._fn(b).split(".")[-1] in TUPLE_RETURNING:
                return None
            if b.op in ("tuple", "list", "selfattr", "param", "global", "attr", "comp", "const", "dict", "iter"):
                return None
            if vg.shape_only(b) or is_scalarish(b):
                return None
            if not (vg.cells_of(b) or vg.params_of(b)):
                return None
            return Hit(n, "row-pick", base, f"index [{_cint(first)}] on the leading (batch) axis picks one row")
        return None
    # ---- flattening
    if o == "meth" and a[1] == "nonzero":
        return Hit(n, "flatten", a[0], "nonzero() flattens (row, col) hits of all rows into one list")
    if fn == "torch.nonzero":
        return Hit(n, "flatten", a[1], "nonzero() flattens hits of all rows into one list")
    if o == "meth" and a[1] == "squeeze" and len(_plain_args(a[2:])) == 0 and _kw(a[2:], "dim") is None:
        if is_scalarish(a[0]):
            return None
        return Hit(n, "squeeze-all", a[0], ".squeeze() without dim also removes the batch axis when the batch size is 1")
    if o == "meth" and a[1] == "squeeze" and ranks is not None:
        d = _kw(a[2:], "dim")
        if d is None and _plain_args(a[2:]):
            d = _plain_args(a[2:])[0]
        di = _cint(d) if d is not None else None
        r = ranks.rank(a[0]) if di is not None else None
        if r is not None and (di == 0 or di == -r) and not is_scalarish(a[0]):
            return Hit(n, "squeeze-batch", a[0], f".squeeze({di}) on a rank-{r} batch-leading tensor squeezes the BATCH axis itself when the batch size is 1")
    # torch.roll / flip without `dims` work on the FLATTENED tensor: entries move across rows
    if (fn == "torch.roll" and len(_plain_args(a[1:])) <= 2 and _kw(a[1:], "dims") is None and not is_scalarish(a[1])) or \
            (o == "meth" and a[1] == "roll" and len(_plain_args(a[2:])) <= 1 and _kw(a[2:], "dims") is None and not is_scalarish(a[0])):
        base_ = a[1] if fn == "torch.roll" else a[0]
        return Hit(n, "flatten", base_, "roll without dims rolls the flattened tensor: the last entries of a row move into the next row")
    if o == "meth" and a[1] in ("flatten",) and len(a) == 2:
        return Hit(n, "flatten", a[0], ".flatten() merges the batch axis")
    if o == "meth" and a[1] in ("view", "reshape") and len(a) == 3 and _cint(a[2]) == -1:
        return Hit(n, "flatten", a[0], ".view(-1) merges the batch axis")
    # ---- batch size as data
    if o in ("/", "*", "+", "-"):
        for x in a:
            if isinstance(x, S) and _is_batch_size(x):
                other = [y for y in a if y is not x]
                if other and isinstance(other[0], S) and not is_scalarish(other[0]):
                    return Hit(n, "batch-size", x, "the number of rows is used as an arithmetic operand")
    return None


ELEMENTWISE = {"+", "-", "*", "/", "<", "<=", ">", ">=", "==", "!=", "&", "|"}


def rank_mismatch(n: S, ranks: Optional[RankFacts]) -> Optional[Hit]:
    """[B] (rank 1) combined elementwise with a batch-leading tensor of rank >= 2: trailing-axis
    broadcasting aligns the batch axis of the first with a non-batch axis of the second
    ([B] op [B, 1] silently becomes [B, B])."""
    if ranks is None:
        return None
    if nf._fn(n) in ("torch.where", "torch.maximum", "torch.minimum") or (n.op == "meth" and n.args[1] in ("where", "maximum", "minimum", "masked_fill")):
        # every tensor operand of a select / elementwise max takes part in the broadcast
        ops_ = [x for x in (n.args[1:] if n.op == "call" else [n.args[0]] + list(n.args[2:])) if isinstance(x, S) and x.op != "kw" and not is_scalarish(x)]
        rs = [(ranks.rank(x), x) for x in ops_]
        rs = [(r, x) for r, x in rs if r is not None]
        if rs and min(r for r, _ in rs) == 1 and max(r for r, _ in rs) >= 2:
            hi = max(rs, key=lambda t: t[0])[1]
            return Hit(n, "rank-broadcast", hi, f"a rank-1 [B] operand meets a rank-{max(r for r, _ in rs)} batch-leading operand in a select / elementwise op without aligning the batch axis: "
                       f"broadcasting yields a [.., B, B]-shaped result that mixes rows")
        return None
    if n.op not in ELEMENTWISE or len(n.args) != 2:
        return None
    a, b = n.args
    if not (isinstance(a, S) and isinstance(b, S)) or is_scalarish(a) or is_scalarish(b):
        return None
    ra, rb = ranks.rank(a), ranks.rank(b)
    if ra is None or rb is None or ra == rb:
        return None
    lo, hi = (a, b) if ra < rb else (b, a)
    if min(ra, rb) == 1 and max(ra, rb) >= 2:
        return Hit(n, "rank-broadcast", hi, f"a rank-1 [B] value is combined with a rank-{max(ra, rb)} batch-leading value without aligning the batch axis: "
                   f"broadcasting yields a [.., B, B]-shaped result that mixes rows")
    return None


def _is_batch_size(x: S) -> bool:
    x = nf.strip(x)
    if x.op == "sub" and _cint(x.args[1]) == 0:
        b = nf.strip(x.args[0])
        if b.op == "attr" and b.args[1] in ("shape", "batch_size"):
            return True
        if b.op == "meth" and b.args[1] == "size" and len(b.args) == 2:
            return True
    if x.op == "meth" and x.args[1] == "size" and len(x.args) == 3 and _cint(x.args[2]) == 0:
        return True
    return False


def hits(v: S, ranks: Optional[RankFacts] = None, stop=None) -> List[Hit]:
    out = []
    for n in vg.walk(v, stop=stop):
        h = batch_global(n, ranks)
        if h is None:
            h = rank_mismatch(n, ranks)
        if h is not None:
            out.append(h)
    return out
