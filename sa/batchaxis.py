"""E6 -- batch-axis non-interference.

Finds, in a value DAG, the *batch-global* operations: operations whose result for row b can
depend on other rows of a batch-leading tensor (or on the number of rows):

  reduce-all   x.all() / .any() / .sum() / .max() / .min() / .mean() / .std() / .item() without a dim,
               torch.all(x) ..., reductions with dim 0 (or a negative dim equal to the known rank)
  row-pick     x[0], x[0, ...], batch_to_scalar(x)
  flatten      x.nonzero(), torch.nonzero(x), x[bool_mask] with a row-mixing mask, x.view(-1), x.flatten()
  squeeze-all  x.squeeze() without a dim (rank depends on the batch size being 1)
  batch-size   x.shape[0] / x.size(0) / len(x) used as an arithmetic operand

The engine only classifies; rules decide what is a sink and which classified constructs are
justified (row-uniform operand, regrouped flatten, guarded control).
"""
from __future__ import annotations

from typing import Dict, Iterable, List, Optional, Tuple

from . import nf, vg
from .vg import S

REDUCERS = {"all", "any", "sum", "max", "min", "mean", "std", "var", "prod", "median", "norm", "argmax", "argmin", "amax", "amin", "logsumexp", "count_nonzero", "nansum", "nanmean"}
TORCH_REDUCERS = {"torch." + r for r in REDUCERS}
TUPLE_RETURNING = {"sort", "max", "min", "topk", "median", "mode", "kthvalue", "cummax", "cummin", "split", "chunk", "unbind", "nonzero", "size", "shape", "where", "std_mean", "var_mean", "unique"}


class Hit:
    __slots__ = ("node", "kind", "operand", "why")

    def __init__(self, node, kind, operand, why):
        self.node, self.kind, self.operand, self.why = node, kind, operand, why

    def key(self) -> str:
        return f"{self.kind}:{vg.show(nf.norm(self.node), 5)}"

    def __repr__(self):
        return f"<{self.kind} {vg.show(self.node, 3)}>"


def _plain_args(args):
    return [a for a in args if not (isinstance(a, S) and a.op == "kw")]


def _kw(args, name):
    for a in args:
        if isinstance(a, S) and a.op == "kw" and a.args[0] == name:
            return a.args[1]
    return None


def _cint(s):
    if isinstance(s, S) and s.op == "const" and isinstance(s.args[0], int) and not isinstance(s.args[0], bool):
        return s.args[0]
    return None


def _dims_of(d) -> Optional[List[int]]:
    if d is None:
        return None
    if _cint(d) is not None:
        return [_cint(d)]
    if isinstance(d, S) and d.op in ("tuple", "list") and all(_cint(x) is not None for x in d.args):
        return [_cint(x) for x in d.args]
    return "?"


def is_scalarish(s: S) -> bool:
    """Python-level numbers / sizes (not batch-leading tensors)."""
    s = nf.strip(s)
    if s.op == "const":
        return True
    if vg.shape_only(s):
        return True
    if s.op == "sub" and vg.shape_only(nf.strip(s.args[0])):
        return True
    if s.op in ("+", "-", "*", "//", "%", "/"):
        return all(isinstance(a, S) and is_scalarish(a) for a in s.args)
    if s.op in ("selfattr", "param", "global"):
        return False
    if s.op == "call" and isinstance(s.args[0], S) and s.args[0].op in ("ext", "global") and s.args[0].args[0] in ("len", "int", "float", "range", "max", "min"):
        return True
    return False


class RankFacts:
    """Known ranks of TD cells (from constructor shapes in _reset)."""

    def __init__(self):
        self.cell_rank: Dict[str, int] = {}

    def learn_from_reset(self, td: "vg.TD"):
        for k, v in td.cells.items():
            r = self._ctor_rank(v)
            if r is not None:
                self.cell_rank[k] = r

    def _ctor_rank(self, v: S) -> Optional[int]:
        v = nf.strip(v)
        fn = nf._fn(v)
        if fn in ("torch.zeros", "torch.ones", "torch.full", "torch.empty", "torch.rand", "torch.randint"):
            plain = _plain_args(v.args[1:])
            size = _kw(v.args[1:], "size")
            if size is not None:
                plain = [size]
            if not plain:
                return None
            first = plain[0]
            if isinstance(first, S) and first.op in ("tuple", "list"):
                return self._count(first.args)
            # positional sizes: zeros(*batch_size, n) ; full(size, value)
            if fn == "torch.full":
                return None
            return self._count(plain)
        return None

    def _count(self, items) -> Optional[int]:
        n = 0
        for x in items:
            if isinstance(x, S) and x.op == "starred":
                n += 1  # *batch_size: the batch axis (batch_size is 1-d in rl4co envs)
            elif isinstance(x, S) and (x.op in ("const", "sub", "+", "-", "*", "//", "attr", "meth", "param", "selfattr") or True):
                n += 1
        return n

    def learn_loop_invariants(self):
        """A loop-carried tensor keeps its rank: the end-of-iteration value of a loop variable
        has the rank of its initial value (and so has the base of an indexed store into it)."""
        self.forced: Dict[int, int] = getattr(self, "forced", {})
        for pid, body in list(vg.LOOP_BODY.items()):
            ph = vg.LOOP_PH.get(pid)
            if ph is None or len(ph.args) < 2 or not isinstance(ph.args[1], S):
                continue
            r = self.rank(ph.args[1])
            if r is None:
                continue
            self.forced[ph.id] = r
            b = body
            for _ in range(6):
                self.forced[b.id] = r
                b1 = nf.strip(b)
                self.forced[b1.id] = r
                if b1.op == "store" and isinstance(b1.args[0], S):
                    b = b1.args[0]
                else:
                    break

    def rank(self, s: S, depth=0) -> Optional[int]:
        if depth > 30:
            return None
        f = getattr(self, "forced", None)
        if f and s.id in f:
            return f[s.id]
        fn0 = nf._fn(s)
        if fn0 in ("torch.zeros", "torch.ones", "torch.full", "torch.empty"):
            return self._ctor_rank(s)
        if fn0 in ("torch.zeros_like", "torch.ones_like", "torch.full_like") and len(s.args) >= 2 and isinstance(s.args[1], S):
            return self.rank(s.args[1], depth + 1)
        s0 = s
        if s.op in ("cell0",):
            return self.cell_rank.get(s.args[1])
        if s.op == "loopvar" and len(s.args) > 1 and isinstance(s.args[1], S):
            return self.rank(s.args[1], depth + 1)
        if s.op == "loop":
            return self.rank(s.args[0], depth + 1)
        if s.op == "nograd":
            return self.rank(s.args[0], depth + 1)
        if s.op in ("+", "-", "*", "/", "&", "|", "<", "<=", ">", ">=", "==", "!="):
            rs = [self.rank(a, depth + 1) for a in s.args if isinstance(a, S) and not is_scalarish(a)]
            if rs and all(r is not None for r in rs):
                return max(rs)
            return None
        if s.op in ("inv", "neg", "not"):
            return self.rank(s.args[0], depth + 1)
        if fn0 == "torch.where" and len(s.args) == 4:
            rs = [self.rank(a, depth + 1) for a in s.args[1:] if isinstance(a, S) and not is_scalarish(a)]
            if rs and all(r is not None for r in rs):
                return max(rs)
            return None
        if s.op == "meth":
            base, name = s.args[0], s.args[1]
            if name in ("float", "int", "long", "bool", "to", "clone", "contiguous", "detach", "double", "abs", "exp", "log", "clamp", "scatter", "masked_fill", "type_as"):
                return self.rank(base, depth + 1)
            if name == "unsqueeze":
                r = self.rank(base, depth + 1)
                return None if r is None else r + 1
            if name == "squeeze" and len(s.args) > 2:
                r = self.rank(base, depth + 1)
                return None if r is None else r - 1
            if name in REDUCERS and len(s.args) > 2:
                r = self.rank(base, depth + 1)
                kd = _kw(s.args[2:], "keepdim") or _kw(s.args[2:], "keepdims")
                if r is None:
                    return None
                if kd is not None and vg.is_const(kd, True):
                    return r
                return r - 1
        if s.op == "sub":
            r = self.rank(s.args[0], depth + 1)
            if r is None:
                return None
            idx = s.args[1]
            comps = list(idx.args) if idx.op == "tuple" else [idx]
            for c in comps:
                if c.op == "const" and c.args[0] is None:
                    r += 1
                elif _cint(c) is not None:
                    r -= 1
                elif c.op in ("slice", "ellipsis"):
                    pass
                else:
                    return None
            return r
        return None


def batch_global(n: S, ranks: Optional[RankFacts] = None) -> Optional[Hit]:
    """Classify one node."""
    o, a = n.op, n.args
    # ---- reductions
    if o == "meth" and a[1] in REDUCERS:
        base = a[0]
        if is_scalarish(base):
            return None
        rest = list(a[2:])
        plain = _plain_args(rest)
        d = _kw(rest, "dim")
        if d is None:
            d = _kw(rest, "axis")
        if d is None and plain:
            if a[1] in ("norm",):
                d = plain[1] if len(plain) > 1 else None
            else:
                d = plain[0]
        if d is None:
            return Hit(n, "reduce-all", base, f".{a[1]}() without dim reduces over the batch axis")
        dims = _dims_of(d)
        if dims == "?":
            return None
        if 0 in dims:
            return Hit(n, "reduce-all", base, f".{a[1]}(dim={dims}) includes the batch axis")
        if ranks is not None:
            r = ranks.rank(base)
            if r is not None and any(x < 0 and -x == r for x in dims):
                return Hit(n, "reduce-all", base, f".{a[1]}(dim={dims}) on a rank-{r} tensor reduces the batch axis")
        return None
    fn = nf._fn(n)
    if fn in TORCH_REDUCERS:
        rest = list(a[1:])
        plain = _plain_args(rest)
        if not plain:
            return None
        base = plain[0]
        if not isinstance(base, S) or is_scalarish(base):
            return None
        d = _kw(rest, "dim")
        if d is None and len(plain) > 1 and fn not in ("torch.max", "torch.min") :
            d = plain[1]
        elif d is None and len(plain) > 1 and _cint(plain[1]) is not None:
            d = plain[1]
        elif d is None and len(plain) > 1:
            return None  # torch.max(a, b): elementwise
        if d is None:
            return Hit(n, "reduce-all", base, f"{fn}(x) without dim reduces over the batch axis")
        dims = _dims_of(d)
        if dims == "?":
            return None
        if 0 in dims:
            return Hit(n, "reduce-all", base, f"{fn}(dim={dims}) includes the batch axis")
        if ranks is not None:
            r = ranks.rank(base)
            if r is not None and any(x < 0 and -x == r for x in dims):
                return Hit(n, "reduce-all", base, f"{fn}(dim={dims}) on a rank-{r} tensor reduces the batch axis")
        return None
    if o == "meth" and a[1] == "item":
        if is_scalarish(a[0]):
            return None
        return Hit(n, "reduce-all", a[0], ".item() of a batch-leading value")
    if fn is not None and fn.endswith("batch_to_scalar"):
        return Hit(n, "row-pick", a[1], "batch_to_scalar picks one row for the whole batch")
    # ---- row picks
    if o == "sub":
        base, idx = a[0], a[1]
        comps = list(idx.args) if isinstance(idx, S) and idx.op == "tuple" else [idx]
        first = comps[0] if comps else None
        if first is not None and _cint(first) is not None:
            b = nf.strip(base)
            if b.op == "meth" and b.args[1] in TUPLE_RETURNING:
                return None
            if nf._fn(b) is not None and nf._fn(b).split(".")[-1] in TUPLE_RETURNING:
                return None
            if b.op in ("tuple", "list", "selfattr", "param", "global", "attr", "comp", "const", "dict", "iter"):
                return None
            if vg.shape_only(b) or is_scalarish(b):
                return None
            if not (vg.cells_of(b) or vg.params_of(b)):
                return None
            return Hit(n, "row-pick", base, f"index [{_cint(first)}] on the leading (batch) axis picks one row")
        return None
    # ---- flattening
    if o == "meth" and a[1] == "nonzero":
        return Hit(n, "flatten", a[0], "nonzero() flattens (row, col) hits of all rows into one list")
    if fn == "torch.nonzero":
        return Hit(n, "flatten", a[1], "nonzero() flattens hits of all rows into one list")
    if o == "meth" and a[1] == "squeeze" and len(_plain_args(a[2:])) == 0 and _kw(a[2:], "dim") is None:
        if is_scalarish(a[0]):
            return None
        return Hit(n, "squeeze-all", a[0], ".squeeze() without dim also removes the batch axis when the batch size is 1")
    if o == "meth" and a[1] == "squeeze" and ranks is not None:
        d = _kw(a[2:], "dim")
        if d is None and _plain_args(a[2:]):
            d = _plain_args(a[2:])[0]
        di = _cint(d) if d is not None else None
        r = ranks.rank(a[0]) if di is not None else None
        if r is not None and (di == 0 or di == -r) and not is_scalarish(a[0]):
            return Hit(n, "squeeze-batch", a[0], f".squeeze({di}) on a rank-{r} batch-leading tensor squeezes the BATCH axis itself when the batch size is 1")
    if o == "meth" and a[1] in ("flatten",) and len(a) == 2:
        return Hit(n, "flatten", a[0], ".flatten() merges the batch axis")
    if o == "meth" and a[1] in ("view", "reshape") and len(a) == 3 and _cint(a[2]) == -1:
        return Hit(n, "flatten", a[0], ".view(-1) merges the batch axis")
    # ---- batch size as data
    if o in ("/", "*", "+", "-"):
        for x in a:
            if isinstance(x, S) and _is_batch_size(x):
                other = [y for y in a if y is not x]
                if other and isinstance(other[0], S) and not is_scalarish(other[0]):
                    return Hit(n, "batch-size", x, "the number of rows is used as an arithmetic operand")
    return None


ELEMENTWISE = {"+", "-", "*", "/", "<", "<=", ">", ">=", "==", "!=", "&", "|"}


def rank_mismatch(n: S, ranks: Optional[RankFacts]) -> Optional[Hit]:
    """[B] (rank 1) combined elementwise with a batch-leading tensor of rank >= 2: trailing-axis
    broadcasting aligns the batch axis of the first with a non-batch axis of the second
    ([B] op [B, 1] silently becomes [B, B])."""
    if ranks is None or n.op not in ELEMENTWISE or len(n.args) != 2:
        return None
    a, b = n.args
    if not (isinstance(a, S) and isinstance(b, S)) or is_scalarish(a) or is_scalarish(b):
        return None
    ra, rb = ranks.rank(a), ranks.rank(b)
    if ra is None or rb is None or ra == rb:
        return None
    lo, hi = (a, b) if ra < rb else (b, a)
    if min(ra, rb) == 1 and max(ra, rb) >= 2:
        return Hit(n, "rank-broadcast", hi, f"a rank-1 [B] value is combined with a rank-{max(ra, rb)} batch-leading value without aligning the batch axis: "
                   f"broadcasting yields a [.., B, B]-shaped result that mixes rows")
    return None


def _is_batch_size(x: S) -> bool:
    x = nf.strip(x)
    if x.op == "sub" and _cint(x.args[1]) == 0:
        b = nf.strip(x.args[0])
        if b.op == "attr" and b.args[1] in ("shape", "batch_size"):
            return True
        if b.op == "meth" and b.args[1] == "size" and len(b.args) == 2:
            return True
    if x.op == "meth" and x.args[1] == "size" and len(x.args) == 3 and _cint(x.args[2]) == 0:
        return True
    return False


def hits(v: S, ranks: Optional[RankFacts] = None, stop=None) -> List[Hit]:
    out = []
    for n in vg.walk(v, stop=stop):
        h = batch_global(n, ranks)
        if h is None:
            h = rank_mismatch(n, ranks)
        if h is not None:
            out.append(h)
    return out
