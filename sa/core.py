"""Check context: obligations, findings, evidence, known-findings handling."""
from __future__ import annotations

import json
import os
import time
from typing import Any, Dict, List, Optional

from .model import AnalysisError, Repo

VERIF = os.path.dirname(os.path.dirname(os.path.abspath(__file__)))
KNOWN_FILE = os.path.join(VERIF, "known_findings.json")


class Obligation:
    __slots__ = ("rule", "instance", "ok", "where", "detail", "construct", "known")

    def __init__(self, rule, instance, ok, where, detail, construct):
        self.rule = rule            # e.g. "C01.a"
        self.instance = instance    # e.g. "CVRPEnv._step"
        self.ok = ok
        self.where = where          # file:line
        self.detail = detail        # human readable
        self.construct = construct  # stable key of the offending construct (function + normalised text)
        self.known = None

    def as_dict(self):
        return {"rule": self.rule, "instance": self.instance, "ok": self.ok, "where": self.where,
                "detail": self.detail, "construct": self.construct}


class Ctx:
    def __init__(self, prop: str, repo: Repo, tier: str = "quick", seed: int = 0):
        self.prop = prop
        self.repo = repo
        self.tier = tier
        self.seed = seed
        self.obligations: List[Obligation] = []
        self.functions: set = set()
        self.notes: List[str] = []
        self.assumptions: List[str] = []
        self.samples: List[Any] = []
        self.extra: Dict[str, Any] = {}
        self.t0 = time.time()

    # -- recording ---------------------------------------------------------------
    def fn(self, fi):
        self.functions.add(f"{fi.module.relpath}:{fi.qualname}")

    def ob(self, rule: str, instance: str, ok: bool, where: str = "", detail: str = "", construct: Optional[str] = None):
        o = Obligation(rule, instance, bool(ok), where, detail, construct or f"{instance}")
        self.obligations.append(o)
        return o

    def require(self, cond: bool, msg: str):
        """Analyser precondition: failure is an ANALYSIS-ERROR, never a violation."""
        if not cond:
            raise AnalysisError(msg)

    def note(self, s: str):
        self.notes.append(s)

    def assume(self, s: str):
        if s not in self.assumptions:
            self.assumptions.append(s)

    def sample(self, s):
        if len(self.samples) < 12:
            self.samples.append(s)


def load_known() -> Dict[str, List[dict]]:
    if not os.path.exists(KNOWN_FILE):
        return {"open": [], "fixed": []}
    with open(KNOWN_FILE) as f:
        return json.load(f)


def match_known(prop: str, o: Obligation, known) -> Optional[dict]:
    for e in known.get("open", []):
        if e.get("property") == prop and e.get("rule") == o.rule and e.get("construct") == o.construct:
            return e
    return None


def finish(ctx: Ctx, floor: int, explanation: str, rule_text: str, evidence_path: str, level="other") -> int:
    """Write evidence, print verdict lines, return exit code."""
    known = load_known()
    viol, kn = [], []
    for o in ctx.obligations:
        if not o.ok:
            e = match_known(ctx.prop, o, known)
            if e is not None:
                o.known = e
                kn.append(o)
            else:
                viol.append(o)
    n = len(ctx.obligations)
    if n < floor and not viol:
        # fewer instances than confirmed by hand and nothing to report: a rule lost its anchors and would pass vacuously.
        # (With a violation at hand the violation is the verdict -- a construct that deviates far enough can also take the
        # obligations that were attached to it out of the count.)
        raise AnalysisError(f"only {n} rule instances matched, floor is {floor} (a rule lost its anchors)")
    discharged = sum(1 for o in ctx.obligations if o.ok)
    distinct = len({(o.rule, o.instance) for o in ctx.obligations})
    wall = time.time() - ctx.t0
    os.makedirs(os.path.dirname(evidence_path), exist_ok=True)
    by_rule: Dict[str, int] = {}
    for o in ctx.obligations:
        by_rule[o.rule] = by_rule.get(o.rule, 0) + 1
    samples = ctx.samples or [o.as_dict() for o in ctx.obligations[:8]]
    ev = {
        "property_id": ctx.prop,
        "tier": ctx.tier,
        "seed": ctx.seed,
        "level": level,
        "coverage": {
            "explanation": explanation,
            "rule": rule_text,
            "obligations": n,
            "discharged": discharged,
            "evaluations": n,
            "distinct_nontrivial": distinct,
            "floor": floor,
            "obligations_by_rule": by_rule,
            "functions_analysed": sorted(ctx.functions),
            "files_consulted": sorted(ctx.repo.consulted),
            "source_digest": ctx.repo.digest(),
            "samples": samples,
            "exhaustive": True,
            "known_findings_reported": [o.as_dict() for o in kn],
            "violations_reported": [o.as_dict() for o in viol],
            "notes": ctx.notes[:60],
            **ctx.extra,
        },
        "assumptions": ctx.assumptions,
        "wall_s": round(wall, 3),
        "violations": len(viol),
    }
    with open(evidence_path, "w") as f:
        json.dump(ev, f, indent=1, default=str)
    for o in kn:
        print(f"KNOWN-FINDING: property={ctx.prop} rule={o.rule} {o.instance} at {o.where}: {o.detail}")
    if viol:
        rp = os.path.join(os.path.dirname(evidence_path), f"{ctx.prop}.violations.json")
        with open(rp, "w") as f:
            json.dump([o.as_dict() for o in viol], f, indent=1, default=str)
        for o in viol:
            print(f"  [{o.rule}] {o.instance} at {o.where}\n      {o.detail}\n      construct: {o.construct}")
        print(f"VIOLATION property={ctx.prop} replay={rp}")
        return 1
    # a replay file left by an earlier violating run does not describe this tree any more
    stale = os.path.join(os.path.dirname(evidence_path), f"{ctx.prop}.violations.json")
    if os.path.exists(stale):
        try:
            os.remove(stale)
        except OSError:
            pass
    print(f"OK property={ctx.prop} tier={ctx.tier} instances={n} discharged={discharged} known={len(kn)} functions={len(ctx.functions)} wall={wall:.2f}s")
    return 0
