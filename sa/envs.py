"""Shared helpers for the environment rules (C01-C09): per-class analyses of the five slots
(_reset, _step, get_action_mask, _get_reward, check_solution_validity) and literal matching."""
from __future__ import annotations

from typing import Dict, Iterable, List, Optional, Tuple

from . import nf, vg
from .model import AnalysisError, ClassInfo, FuncInfo, Repo
from .vg import S, TD, Frame, Interp

BASE_CLASS = "RL4COEnvBase"


class Slot:
    """Result of analysing one resolved method of an env class."""

    def __init__(self, repo: Repo, cls: ClassInfo, name: str, fi: FuncInfo, it: Interp, fr: Frame):
        self.repo, self.cls, self.name, self.fi, self.it, self.fr = repo, cls, name, fi, it, fr
        self.td: Optional[TD] = vg.final_td(it, fr)

    @property
    def where(self) -> str:
        return self.fi.loc

    def cell(self, key: str) -> Optional[S]:
        if self.td is None:
            return None
        return self.td.cells.get(key)

    def in_td(self) -> Optional[TD]:
        """The TensorDict parameter of the entry function."""
        for v in self.fr.locals.values():
            pass
        for t in self.it.tds:
            if t.parent is None and not t.closed and t.name in ("td",):
                return t
        return self.it.tds[0] if self.it.tds else None

    def frames_of(self, method_name: str) -> List[Frame]:
        return [f for f in self.it.call_frames if f.func is not None and f.func.name == method_name]

    def events(self, kind: str):
        return [e for e in self.it.events if e.kind == kind]

    def problems(self) -> List[str]:
        bad = []
        for e in self.it.events:
            if e.kind in ("unhandled-stmt", "unhandled-expr", "td-unknown-method"):
                bad.append(f"{e.kind}@{getattr(e.node, 'lineno', '?')}:{e.data}")
        return bad


class EnvA:
    def __init__(self, repo: Repo, relpath: str, clsname: str):
        self.repo = repo
        self.cls = repo.get_class(relpath, clsname)
        self.name = clsname
        self._slots: Dict[str, Optional[Slot]] = {}

    def resolve(self, meth: str) -> Optional[FuncInfo]:
        fi = self.repo.resolve_method(self.cls, meth)
        if fi is None:
            return None
        return fi

    def own(self, meth: str) -> bool:
        """Is `meth` implemented by the env hierarchy (not only by the abstract base)?"""
        fi = self.resolve(meth)
        return fi is not None and fi.cls is not None and fi.cls.name != BASE_CLASS

    def slot(self, meth: str, **kw) -> Optional[Slot]:
        key = meth + repr(sorted(kw.items()))
        if key not in self._slots:
            fi = self.resolve(meth)
            if fi is None:
                self._slots[key] = None
            else:
                it = Interp(self.repo, self.cls, **kw)
                fr = it.run_function(fi)
                self._slots[key] = Slot(self.repo, self.cls, meth, fi, it, fr)
        return self._slots[key]


def generator_class(repo: Repo, cls: ClassInfo):
    """The generator class an env instantiates by default: `generator = XGenerator(**generator_params)`
    in the resolved __init__ (static, from the AST)."""
    import ast as _ast
    init = repo.resolve_method(cls, "__init__")
    seen = set()
    while init is not None and init.fq not in seen:
        seen.add(init.fq)
        cands = []
        for n in _ast.walk(init.node):
            if isinstance(n, _ast.Assign) and any(isinstance(t, _ast.Name) and t.id == "generator" for t in n.targets) and isinstance(n.value, _ast.Call) and isinstance(n.value.func, _ast.Name):
                r = repo.resolve_global(init.module, n.value.func.id)
                if r is not None and r[0] == "class":
                    cands.append(r[1])
        pref = [c for c in cands if "File" not in c.name] or cands
        if pref:
            return pref[-1]
        init = repo.resolve_method(cls, "__init__", after=init.cls) if init.cls is not None else None
    return None


def generator_slot(repo: Repo, cls: ClassInfo):
    """(generator class, Slot of its `_generate`) or (None, None)."""
    g = generator_class(repo, cls)
    if g is None:
        return None, None
    fi = repo.resolve_method(g, "_generate")
    if fi is None:
        return g, None
    it = Interp(repo, g)
    fr = it.run_function(fi)
    return g, Slot(repo, g, "_generate", fi, it, fr)


# ----------------------------------------------------------------------------- literal specs


class Lit:
    """Reference literal (admit form): what must hold for an action to be offered / a solution
    to be accepted.

    kind 'cmp' : big - small  (>= | >) 0   with `big`/`small` = TD cells on the two sides
    kind 'cell': the indicator cell `key` occurs with polarity `sign`
    kind 'eq'  : an (in)equality-to-constant literal over `cells` with admit operator `op`
    kind 'sel' : the entry selected by an index depending on `cells` is forced (scatter) with `sign`
    """

    def __init__(self, name, kind, *, big=(), small=(), strict=None, key=None, sign=None, cells=(), op=None,
                 conj=True, const=None, why="", conj_with=None, params_big=(), params_small=(), optional=False, alt=False):
        self.name, self.kind = name, kind
        self.big, self.small = set(big), set(small)
        self.strict, self.key, self.sign, self.cells, self.op = strict, key, sign, set(cells), op
        self.conj, self.const, self.why, self.conj_with = conj, const, why, conj_with
        self.params_big, self.params_small = set(params_big), set(params_small)
        self.optional = optional
        self.alt = alt  # an *admitting alternative* (top-level disjunct): dropping it makes the mask tighter
        self.single = False  # kind 'cell': the literal is one broadcast column (e.g. visited[..., 0:1]) instead of the per-node indicator
        self.params = set()
        self.side_check = None  # optional extra predicate (positive-side atoms, negative-side atoms) -> bool
        # kind 'cmp': direction in which each cell moves the admit polynomial `big - small`.  Default: cells of `big` +1, cells of
        # `small` -1 ('locs' stands for travelled distances).  `signs` overrides single cells (divisors, flags, cells on both sides).
        self.signs = {}
        # kind 'cmp': number of travelled legs (distance atoms) the reference inequality contains; None = not pinned
        self.legs = None

    def expected_signs(self):
        exp = {k: {+1} for k in self.big}
        exp.update({k: {-1} for k in self.small})
        if "locs" in exp:
            exp["|dist|"] = exp.pop("locs")
        for k, v in self.signs.items():
            exp[k] = set(v)
        return exp


def sided_atoms(p: nf.Poly):
    pos_c, neg_c, pos_p, neg_p = set(), set(), set(), set()
    for c, fs in p.monos():
        for a, _ in fs:
            cs = vg.cells_of(a)
            ps = vg.params_of(a) | {"self." + x for x in vg.selfattrs_of(a)}
            if c > 0:
                pos_c |= cs
                pos_p |= ps
            else:
                neg_c |= cs
                neg_p |= ps
    return pos_c, neg_c, pos_p, neg_p


def leaf_matches(leaf: nf.Leaf, lit: Lit) -> Tuple[bool, Optional[str]]:
    """Does this literal of the code instantiate reference literal `lit` (ignoring strictness
    and position, which are judged separately)?"""
    if lit.kind == "cell":
        n = nf.strip(leaf.node, bool_ctx=True)
        single = any(p[0] == "idx" and _single_column(p[1]) for p in leaf.part)
        while n.op == "sub":
            single = single or _single_column(n.args[1])
            n = nf.strip(n.args[0], bool_ctx=True)
        if n.op in ("cell0", "get0") and n.args[1] == lit.key:
            if single != lit.single:
                return False, "single-column"  # e.g. visited[..., 0:1]: one broadcast flag, not the per-node literal
            return True, None
        return False, None
    if lit.kind == "sel":
        if leaf.node.op == "selected" and lit.cells <= vg.cells_of(leaf.node) | vg.params_of(leaf.node):
            return True, None
        return False, None
    c = leaf.cmp()
    if c is None:
        return False, None
    p, op = c
    if lit.kind == "eq":
        if op in ("==0", "!=0") and lit.cells <= _poly_cells(p) and lit.params <= _poly_params(p):
            return True, None
        return False, None
    if lit.kind == "cmp":
        if op not in (">0", ">=0"):
            return False, None
        pos_c, neg_c, pos_p, neg_p = sided_atoms(p)
        if lit.big <= pos_c and lit.small <= neg_c and lit.params_big <= pos_p and lit.params_small <= neg_p:
            if lit.side_check is not None and not lit.side_check(p.side_atoms(True), p.side_atoms(False)):
                if lit.side_check(p.side_atoms(False), p.side_atoms(True)):
                    return False, "reversed"
                return False, None
            return True, None
        # the same cells on the opposite sides: a reversed comparison
        if (lit.big or lit.small) and lit.big <= neg_c and lit.small <= pos_c and lit.params_big <= neg_p and lit.params_small <= pos_p:
            return False, "reversed"
        return False, None
    return False, None


def _single_column(idx) -> bool:
    """Index that keeps a single entry of some axis: x[..., 0], x[..., 0:1], x[:, 3]."""
    if not isinstance(idx, S):
        return False
    comps = list(idx.args) if idx.op == "tuple" else [idx]
    for c in comps:
        if not isinstance(c, S):
            continue
        if c.op == "const" and isinstance(c.args[0], int) and not isinstance(c.args[0], bool):
            return True
        if c.op == "slice":
            lo, hi = c.args[0], c.args[1]
            if vg.is_const(hi) and isinstance(hi.args[0], int):
                l = lo.args[0] if vg.is_const(lo) and isinstance(lo.args[0], int) else (0 if vg.is_const(lo) and lo.args[0] is None else None)
                if l is not None and hi.args[0] - l == 1:
                    return True
    return False


def tail_vs_head(pos_atoms, neg_atoms) -> bool:
    """PDP data convention: pickups are nodes 1..n/2, deliveries n/2+1..n.  The positive side
    must be indexed by an open-ended tail slice (deliveries), the negative side by a bounded
    slice (pickups)."""
    def slices(atoms_):
        out = []
        for a in atoms_:
            for n in vg.walk(a):
                if n.op == "slice":
                    out.append((not (vg.is_const(n.args[0]) and n.args[0].args[0] is None), not (vg.is_const(n.args[1]) and n.args[1].args[0] is None)))
        return out
    ps, ns = slices(pos_atoms), slices(neg_atoms)
    return any(lo and not hi for lo, hi in ps) and any(hi for lo, hi in ns) and not any(lo and not hi for lo, hi in ns)


def _poly_params(p: nf.Poly) -> set:
    out = set()
    for a in p.atoms():
        out |= vg.params_of(a)
    return out


def _poly_cells(p: nf.Poly) -> set:
    out = set()
    for a in p.atoms():
        out |= vg.cells_of(a)
    return out


def find_literal(leaves: List[nf.Leaf], lit: Lit, need_sign=True, allow_reduced=False):
    """-> (matching leaves in required position, matching leaves elsewhere, reversed leaves)"""
    good, elsewhere, rev = [], [], []
    for l in leaves:
        ok, why = leaf_matches(l, lit)
        if why == "reversed" and l.sign != 0 and (l.conj or not lit.conj):
            rev.append(l)
        if not ok:
            continue
        if lit.kind in ("cell", "sel") and need_sign and lit.sign is not None and l.sign != lit.sign:
            elsewhere.append(l)
            continue
        if lit.kind == "eq" and lit.op is not None:
            c = l.cmp()
            if c is None or c[1] != lit.op:
                elsewhere.append(l)
                continue
        if lit.conj and not (l.conj and (allow_reduced or not l.reduced)):
            elsewhere.append(l)
            continue
        if l.reduced and not allow_reduced and lit.kind == "cmp" and _has_plain_twin(leaves, l):
            # a copy of a literal inside an exists/forall reduction (e.g. the depot's "some
            # customer is open" term) does not constrain the action itself
            elsewhere.append(l)
            continue
        if l.sign == 0:
            elsewhere.append(l)
            continue
        good.append(l)
    return good, elsewhere, rev


def _has_plain_twin(leaves, l) -> bool:
    """the same comparison (either polarity) also occurs outside any reduction"""
    c = nf.cmpnf(l.node)
    if c is None:
        return False
    for m in leaves:
        if m is l or m.reduced:
            continue
        d = nf.cmpnf(m.node)
        if d is not None and (d[0] == c[0] or d[0] == -c[0]) and (d[1] in (">0", ">=0")) == (c[1] in (">0", ">=0")):
            return True
    return False


def strictness(leaf: nf.Leaf) -> Optional[bool]:
    c = leaf.cmp()
    if c is None:
        return None
    return c[1] == ">0"


def const_term(leaf: nf.Leaf):
    c = leaf.cmp()
    return None if c is None else c[0].const_term()


def show_leaf(l: nf.Leaf) -> str:
    c = l.cmp()
    if c is not None:
        return f"{c[0].show(3)} {c[1]}"
    return ("~" if l.sign < 0 else "") + vg.show(l.node, 3)
