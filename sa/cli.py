"""Command line: ./check <Cxx|all> [--tier quick|thorough] [--repo PATH] [--replay FILE]"""
from __future__ import annotations

import argparse
import importlib
import json
import os
import sys
import traceback

from .core import VERIF, Ctx, finish
from .model import AnalysisError, Repo

ALL = [f"C{i:02d}" for i in range(1, 21)]


def run_one(prop: str, tier: str, repo_root: str, seed: int, evidence_dir: str) -> int:
    try:
        try:
            mod = importlib.import_module(f"sa.rules.{prop}")
        except ModuleNotFoundError:
            print(f"ANALYSIS-ERROR property={prop} no rule module (property is not claimed)")
            return 2
        repo = Repo(repo_root)
        ctx = Ctx(prop, repo, tier, seed)
        mod.run(ctx)
        if tier == "thorough" and hasattr(mod, "run_thorough"):
            # The self-tests (mutant / equivalent corpus, metamorphic rewrites) are defined relative to a tree on which the
            # property's obligations hold.  If the tree under analysis already violates the property, that verdict is what
            # must be reported (exit 1, VIOLATION): a self-test run on top of it could only mask it behind an analysis error.
            from .core import load_known, match_known
            known = load_known()
            new_viol = [o for o in ctx.obligations if not o.ok and match_known(ctx.prop, o, known) is None]
            if new_viol:
                ctx.extra["selftest"] = "skipped: the tree violates the property; self-tests are defined relative to a tree on which the obligations hold"
            else:
                mod.run_thorough(ctx)
                from .selftest.equiv import run_equivalences
                run_equivalences(ctx)
        # what was decided: the claim text kept next to the MANIFEST (one source for both), followed by the module's own summary
        try:
            from .claims import CLAIMS
            claim = CLAIMS.get(prop, {}).get("text")
        except Exception:
            claim = None
        explanation = (claim + " || engine summary: " + mod.EXPLANATION) if claim else mod.EXPLANATION
        return finish(ctx, mod.FLOOR, explanation, mod.RULE, os.path.join(evidence_dir, f"{prop}.json"))
    except AnalysisError as e:
        print(f"ANALYSIS-ERROR property={prop} {e}")
        return 2
    except Exception as e:  # internal error of the analyser: never a violation
        traceback.print_exc()
        print(f"ANALYSIS-ERROR property={prop} internal error: {type(e).__name__}: {e}")
        return 2


def main(argv=None) -> int:
    ap = argparse.ArgumentParser()
    ap.add_argument("prop")
    ap.add_argument("--tier", default=os.environ.get("VERIF_TIER", "quick"), choices=["quick", "thorough"])
    ap.add_argument("--repo", default=os.environ.get("RL4CO_REPO", "/repo"))
    ap.add_argument("--evidence-dir", default=os.path.join(VERIF, "evidence"))
    ap.add_argument("--replay", default=None)
    a = ap.parse_args(argv)
    seed = int(os.environ.get("VERIF_SEED", "0") or 0)
    if a.replay:
        # a replay is the same static decision on the current tree; the file names the constructs
        try:
            with open(a.replay) as f:
                for o in json.load(f):
                    print(f"replaying: [{o['rule']}] {o['instance']} at {o['where']}")
        except Exception as e:
            print(f"(cannot read replay file: {e})")
    if a.prop == "selfcheck":
        Repo(a.repo)
        print("selfcheck ok")
        return 0
    props = ALL if a.prop == "all" else [a.prop]
    rc = 0
    for p in props:
        r = run_one(p, a.tier, a.repo, seed, a.evidence_dir)
        rc = max(rc, r)
    return rc


if __name__ == "__main__":
    sys.exit(main())
