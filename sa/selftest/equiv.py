"""Behaviour-preserving whole-repo rewrites (metamorphic self-test of the rules).

Every transform keeps the behaviour of rl4co unchanged; a rule that changes its verdict on the rewritten sources depends on
spelling rather than on the program (a false alarm in waiting).  Used by the thorough tier and by tools/equiv_sweep.py.

  rename   every local variable of every function gets the suffix `_r`
  size     x.shape[k] -> x.size(k)          shape    x.size(k) -> x.shape[k]
  yoda     a == b -> b == a ; a < b -> b > a
  commute  a + b -> b + a (also *, &, |)    dimkw    x.sum(-1) -> x.sum(dim=-1), torch.cat(xs, 1) -> torch.cat(xs, dim=1)
  unelse   the else branch after an early return is flattened   tempret  return <expr> -> _ret = <expr>; return _ret
  format   ast.unparse round trip (comments / layout dropped)
  demorgan ~(a & b) -> ~a | ~b              ifswap   if c: A else: B -> if not c: B else: A (also conditional expressions)
  torchfn  td["k"].sum(..) -> torch.sum(td["k"], ..) (reductions on TensorDict reads)
"""
import ast
import contextlib
import importlib
import io
import os

class Renamer(ast.NodeTransformer):
    def visit_FunctionDef(self, node):
        self.generic_visit(node)
        params = set()
        for sub in ast.walk(node):
            if isinstance(sub, (ast.FunctionDef, ast.AsyncFunctionDef, ast.Lambda)):
                a = sub.args
                for x in a.posonlyargs + a.args + a.kwonlyargs:
                    params.add(x.arg)
                if a.vararg:
                    params.add(a.vararg.arg)
                if a.kwarg:
                    params.add(a.kwarg.arg)
        declared = set()
        for sub in ast.walk(node):
            if isinstance(sub, (ast.Global, ast.Nonlocal)):
                declared |= set(sub.names)
        inner_defs = {sub.name for sub in ast.walk(node) if isinstance(sub, (ast.FunctionDef, ast.AsyncFunctionDef, ast.ClassDef)) and sub is not node}
        stored = {sub.id for sub in ast.walk(node) if isinstance(sub, ast.Name) and isinstance(sub.ctx, ast.Store)}
        imported = {(al.asname or al.name).split(".")[0] for sub in ast.walk(node) if isinstance(sub, (ast.Import, ast.ImportFrom)) for al in sub.names}
        targets = {n for n in stored - params - declared - inner_defs - imported if not n.endswith("_r") and not (n.startswith("__") and n.endswith("__"))}
        for sub in ast.walk(node):
            if isinstance(sub, ast.Name) and sub.id in targets:
                sub.id = sub.id + "_r"
        return node

    visit_AsyncFunctionDef = visit_FunctionDef


class SizeCall(ast.NodeTransformer):
    def visit_Subscript(self, node):
        self.generic_visit(node)
        if isinstance(node.ctx, ast.Load) and isinstance(node.value, ast.Attribute) and node.value.attr == "shape" and isinstance(node.slice, (ast.Constant, ast.UnaryOp)):
            k = node.slice
            ok = isinstance(k, ast.Constant) and isinstance(k.value, int) or (isinstance(k, ast.UnaryOp) and isinstance(k.op, ast.USub) and isinstance(k.operand, ast.Constant))
            if ok and not (isinstance(node.value.value, ast.Name) and node.value.value.id in ("td", "td_", "batch")):
                return ast.Call(func=ast.Attribute(value=node.value.value, attr="size", ctx=ast.Load()), args=[k], keywords=[])
        return node


class ShapeIndex(ast.NodeTransformer):
    """x.size(k) -> x.shape[k]"""

    def visit_Call(self, node):
        self.generic_visit(node)
        if isinstance(node.func, ast.Attribute) and node.func.attr == "size" and len(node.args) == 1 and not node.keywords:
            k = node.args[0]
            ok = (isinstance(k, ast.Constant) and isinstance(k.value, int)) or (isinstance(k, ast.UnaryOp) and isinstance(k.op, ast.USub) and isinstance(k.operand, ast.Constant))
            if ok:
                return ast.Subscript(value=ast.Attribute(value=node.func.value, attr="shape", ctx=ast.Load()), slice=k, ctx=ast.Load())
        return node


class Commute(ast.NodeTransformer):
    """a + b -> b + a, a * b -> b * a, a & b -> b & a, a | b -> b | a  (numeric / tensor operands; string and list sums are left alone)"""

    def visit_BinOp(self, node):
        self.generic_visit(node)
        if isinstance(node.op, (ast.Add, ast.Mult, ast.BitAnd, ast.BitOr)):
            def texty(x):
                return isinstance(x, (ast.JoinedStr, ast.List, ast.Tuple, ast.ListComp)) or (isinstance(x, ast.Constant) and isinstance(x.value, (str, bytes))) or \
                    (isinstance(x, ast.Call) and isinstance(x.func, ast.Name) and x.func.id in ("list", "str", "tuple"))
            if not any(texty(x) for x in ast.walk(node.left)) and not any(texty(x) for x in ast.walk(node.right)):
                return ast.BinOp(left=node.right, op=node.op, right=node.left)
        return node


class DimKw(ast.NodeTransformer):
    """x.sum(-1) -> x.sum(dim=-1) and torch.cat(xs, 1) -> torch.cat(xs, dim=1) for the reductions / shape ops that name an axis"""
    M = {"sum", "mean", "amax", "amin", "argmax", "argmin", "cumsum", "softmax", "log_softmax", "squeeze", "unsqueeze", "all", "any", "prod", "std", "var", "flip", "max", "min"}
    F = {"cat", "stack", "sum", "mean", "cumsum", "softmax", "argmax", "squeeze", "unsqueeze"}

    def visit_Call(self, node):
        self.generic_visit(node)
        def is_int(k):
            return (isinstance(k, ast.Constant) and isinstance(k.value, int) and not isinstance(k.value, bool)) or \
                (isinstance(k, ast.UnaryOp) and isinstance(k.op, ast.USub) and isinstance(k.operand, ast.Constant) and isinstance(k.operand.value, int))
        if isinstance(node.func, ast.Attribute) and not any(k.arg == "dim" for k in node.keywords):
            base_is_torch = isinstance(node.func.value, ast.Name) and node.func.value.id == "torch"
            if not base_is_torch and node.func.attr in self.M and len(node.args) == 1 and is_int(node.args[0]) and node.func.attr != "flip":
                node.keywords = [ast.keyword(arg="dim", value=node.args[0])] + node.keywords
                node.args = []
            elif base_is_torch and node.func.attr in self.F and len(node.args) == 2 and is_int(node.args[1]):
                node.keywords = [ast.keyword(arg="dim", value=node.args[1])] + node.keywords
                node.args = node.args[:1]
        return node


class UnElse(ast.NodeTransformer):
    """if c: ...; return a  else: B   ->   if c: ...; return a   followed by B  (the else branch after an early return is flattened)"""

    def _flatten(self, stmts):
        out = []
        for st in stmts:
            if isinstance(st, ast.If) and st.orelse and st.body and isinstance(st.body[-1], (ast.Return, ast.Raise)) and not (len(st.orelse) == 1 and isinstance(st.orelse[0], ast.If)):
                new = ast.If(test=st.test, body=st.body, orelse=[])
                out.append(new)
                out.extend(self._flatten(st.orelse))
            else:
                out.append(st)
        return out

    def visit_FunctionDef(self, node):
        self.generic_visit(node)
        node.body = self._flatten(node.body)
        return node

    visit_AsyncFunctionDef = visit_FunctionDef


class TempReturn(ast.NodeTransformer):
    """return <expr>  ->  _ret = <expr>; return _ret"""

    def visit_FunctionDef(self, node):
        self.generic_visit(node)

        def rewrite(stmts):
            out = []
            for st in stmts:
                for f in ("body", "orelse", "finalbody"):
                    if hasattr(st, f) and isinstance(getattr(st, f), list) and not isinstance(st, (ast.FunctionDef, ast.AsyncFunctionDef, ast.ClassDef)):
                        setattr(st, f, rewrite(getattr(st, f)))
                if isinstance(st, ast.Return) and st.value is not None and not isinstance(st.value, (ast.Name, ast.Constant, ast.Tuple)):
                    out.append(ast.Assign(targets=[ast.Name(id="_ret", ctx=ast.Store())], value=st.value))
                    out.append(ast.Return(value=ast.Name(id="_ret", ctx=ast.Load())))
                else:
                    out.append(st)
            return out
        node.body = rewrite(node.body)
        return node

    visit_AsyncFunctionDef = visit_FunctionDef


class CounterAssign(ast.NodeTransformer):
    """`k += c` -> `k = k + c` for Python counters (names that the function binds to an integer literal somewhere; a tensor's
    in-place `+=` is NOT rewritten: it differs from rebinding in aliasing)."""

    def visit_FunctionDef(self, node):
        self.generic_visit(node)
        ints = set()
        for st in ast.walk(node):
            if isinstance(st, ast.Assign) and isinstance(st.value, ast.Constant) and isinstance(st.value.value, int) and not isinstance(st.value.value, bool):
                for t in st.targets:
                    if isinstance(t, ast.Name):
                        ints.add(t.id)

        class _R(ast.NodeTransformer):
            def visit_AugAssign(self, n):
                if isinstance(n.target, ast.Name) and n.target.id in ints and isinstance(n.op, (ast.Add, ast.Sub)) and isinstance(n.value, ast.Constant) and isinstance(n.value.value, int):
                    return ast.Assign(targets=[ast.Name(id=n.target.id, ctx=ast.Store())], value=ast.BinOp(left=ast.Name(id=n.target.id, ctx=ast.Load()), op=n.op, right=n.value))
                return n

            def visit_FunctionDef(self, n):
                return n if n is not node else self.generic_visit(n)
        return _R().visit(node)

    visit_AsyncFunctionDef = visit_FunctionDef


class Hoist(ast.NodeTransformer):
    """`x = f(a) <op> b`  ->  `_h1 = f(a); x = _h1 <op> b`: the first call evaluated by a binary expression is bound to a temporary
    (everything evaluated before it must be a plain name / constant / attribute load, so the evaluation order is unchanged)."""

    def __init__(self):
        self.n = 0

    def visit_FunctionDef(self, node):
        self.generic_visit(node)

        def pure(e):
            return isinstance(e, (ast.Name, ast.Constant)) or (isinstance(e, ast.Attribute) and pure(e.value))

        def first_call(e):
            """(parent, field, call) of the first Call in evaluation order under pure prefixes, or None"""
            if isinstance(e, ast.BinOp):
                if isinstance(e.left, ast.Call):
                    return e, "left", e.left
                if isinstance(e.left, ast.BinOp):
                    r = first_call(e.left)
                    if r is not None:
                        return r
                    return None
                if pure(e.left):
                    if isinstance(e.right, ast.Call):
                        return e, "right", e.right
                    if isinstance(e.right, ast.BinOp):
                        return first_call(e.right)
            return None

        def rewrite(stmts):
            out = []
            for st in stmts:
                for f in ("body", "orelse", "finalbody"):
                    if hasattr(st, f) and isinstance(getattr(st, f), list) and not isinstance(st, (ast.FunctionDef, ast.AsyncFunctionDef, ast.ClassDef)):
                        setattr(st, f, rewrite(getattr(st, f)))
                if isinstance(st, ast.Assign) and len(st.targets) == 1 and isinstance(st.targets[0], ast.Name) and isinstance(st.value, ast.BinOp):
                    r = first_call(st.value)
                    if r is not None:
                        par, field, call = r
                        self.n += 1
                        nm = f"_h{self.n}"
                        out.append(ast.Assign(targets=[ast.Name(id=nm, ctx=ast.Store())], value=call))
                        setattr(par, field, ast.Name(id=nm, ctx=ast.Load()))
                out.append(st)
            return out
        node.body = rewrite(node.body)
        return node

    visit_AsyncFunctionDef = visit_FunctionDef


class TdGet(ast.NodeTransformer):
    """td["key"] (read)  ->  td.get("key")   for the TensorDict parameter named `td`"""

    def visit_Subscript(self, node):
        self.generic_visit(node)
        if isinstance(node.ctx, ast.Load) and isinstance(node.value, ast.Name) and node.value.id == "td" and isinstance(node.slice, ast.Constant) and isinstance(node.slice.value, str):
            return ast.Call(func=ast.Attribute(value=ast.Name(id="td", ctx=ast.Load()), attr="get", ctx=ast.Load()), args=[node.slice], keywords=[])
        return node


class Yoda(ast.NodeTransformer):
    MIRROR = {ast.Lt: ast.Gt, ast.Gt: ast.Lt, ast.LtE: ast.GtE, ast.GtE: ast.LtE, ast.Eq: ast.Eq, ast.NotEq: ast.NotEq}

    def visit_Compare(self, node):
        self.generic_visit(node)
        if len(node.ops) == 1 and type(node.ops[0]) in self.MIRROR:
            return ast.Compare(left=node.comparators[0], ops=[self.MIRROR[type(node.ops[0])]()], comparators=[node.left])
        return node


class DeMorgan(ast.NodeTransformer):
    """~(a & b) -> ~a | ~b ;  ~(a | b) -> ~a & ~b   (bitwise identity, valid for bool and integer tensors alike)"""

    def visit_UnaryOp(self, node):
        self.generic_visit(node)
        if isinstance(node.op, ast.Invert) and isinstance(node.operand, ast.BinOp) and isinstance(node.operand.op, (ast.BitAnd, ast.BitOr)):
            b = node.operand
            op = ast.BitOr() if isinstance(b.op, ast.BitAnd) else ast.BitAnd()
            return ast.BinOp(left=ast.UnaryOp(op=ast.Invert(), operand=b.left), op=op, right=ast.UnaryOp(op=ast.Invert(), operand=b.right))
        return node


class IfSwap(ast.NodeTransformer):
    """if c: A else: B  ->  if not c: B else: A   (statements with a plain else, and conditional expressions)"""

    def visit_If(self, node):
        self.generic_visit(node)
        if node.orelse and not (len(node.orelse) == 1 and isinstance(node.orelse[0], ast.If)):
            return ast.If(test=ast.UnaryOp(op=ast.Not(), operand=node.test), body=node.orelse, orelse=node.body)
        return node

    def visit_IfExp(self, node):
        self.generic_visit(node)
        return ast.IfExp(test=ast.UnaryOp(op=ast.Not(), operand=node.test), body=node.orelse, orelse=node.body)


class TorchFn(ast.NodeTransformer):
    """td["k"].sum(...) -> torch.sum(td["k"], ...) for reductions on values read straight from a TensorDict (certainly tensors)"""
    M = {"sum", "max", "min", "cumsum", "gather", "argmax", "argmin", "abs", "clamp", "prod", "mean"}

    def visit_Call(self, node):
        self.generic_visit(node)
        f = node.func
        if isinstance(f, ast.Attribute) and f.attr in self.M and isinstance(f.value, ast.Subscript) and isinstance(f.value.value, ast.Name) \
                and f.value.value.id in ("td", "td_reset", "td_init", "batch") and isinstance(f.value.slice, ast.Constant) and isinstance(f.value.slice.value, str) \
                and not any(k.arg in ("keepdims", "axis") for k in node.keywords):
            return ast.Call(func=ast.Attribute(value=ast.Name(id="torch", ctx=ast.Load()), attr=f.attr, ctx=ast.Load()), args=[f.value] + node.args, keywords=node.keywords)
        return node


TRANSFORMS = {"demorgan": DeMorgan, "ifswap": IfSwap, "torchfn": TorchFn, "rename": Renamer, "size": SizeCall, "shape": ShapeIndex, "yoda": Yoda, "commute": Commute, "dimkw": DimKw, "unelse": UnElse, "tempret": TempReturn, "counter": CounterAssign, "hoist": Hoist, "tdget": TdGet, "format": None}



_BUILT = {}


def build(root: str, kind: str):
    key = (root, kind)
    if key in _BUILT:
        return _BUILT[key]
    ov = {}
    for dirpath, _, files in os.walk(os.path.join(root, "rl4co")):
        for fn in files:
            if fn.endswith(".py"):
                p = os.path.join(dirpath, fn)
                rel = os.path.relpath(p, root)
                src = open(p).read()
                try:
                    import warnings
                    with warnings.catch_warnings():
                        warnings.simplefilter("ignore")
                        tree = ast.parse(src)
                except SyntaxError:
                    continue
                T = TRANSFORMS[kind]
                if T is not None:
                    tree = T().visit(tree)
                    ast.fix_missing_locations(tree)
                ov[rel] = ast.unparse(tree)
    _BUILT[key] = ov
    return ov


def run_equivalences(ctx, kinds=("rename", "yoda", "dimkw", "commute", "size", "tempret", "unelse", "demorgan", "ifswap", "torchfn", "counter", "hoist", "tdget")):
    """thorough tier: the rule module must report exactly the same failing (rule, construct) pairs on each rewritten repo"""
    from ..core import Ctx
    from ..model import AnalysisError, Repo
    mod = importlib.import_module(f"sa.rules.{ctx.prop}")
    base_bad = {(o.rule, o.construct) for o in ctx.obligations if not o.ok}
    base_all = {(o.rule, o.construct) for o in ctx.obligations}
    n_base = len(ctx.obligations)
    res = {}
    problems = []
    for kind in kinds:
        ov = build(ctx.repo.root, kind)
        repo = Repo(ctx.repo.root, overrides=ov)
        c2 = Ctx(ctx.prop, repo, "quick", 0)
        try:
            with contextlib.redirect_stdout(io.StringIO()):
                mod.run(c2)
        except AnalysisError as e:
            problems.append(f"{kind}: analysis error on a behaviour-preserving rewrite: {str(e)[:160]}")
            res[kind] = "analysis-error"
            continue
        bad = {(o.rule, o.construct) for o in c2.obligations if not o.ok}
        if bad != base_bad:
            problems.append(f"{kind}: verdict changed on a behaviour-preserving rewrite: {sorted(bad ^ base_bad)[:3]}")
        all2 = {(o.rule, o.construct) for o in c2.obligations}
        if all2 != base_all:
            # an obligation that disappears under a rewrite would pass vacuously; one that appears was keyed by spelling
            problems.append(f"{kind}: obligations differ on a behaviour-preserving rewrite: lost {sorted(base_all - all2)[:3]} new {sorted(all2 - base_all)[:3]}")
        res[kind] = {"obligations": len(c2.obligations), "same_verdicts": bad == base_bad, "same_obligations": all2 == base_all}
    # restore interned state for the original sources
    Repo(ctx.repo.root)
    ctx.extra["equivalence_rewrites"] = res
    if problems:
        raise AnalysisError("metamorphic self-test failed: " + "; ".join(problems[:4]))
    return res
