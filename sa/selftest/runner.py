"""Self-test of the rules (thorough tier): in-memory source variants of the current tree.

A *mutant* breaks exactly one rule instance (the rule must report it, naming the rule);
an *equivalent* is a behaviour-preserving rewrite (every rule must stay silent).
Variants are applied to the source text held in memory (`Repo(overrides=...)`); nothing is
written to /repo and nothing is executed.  An anchor that no longer exists in the (possibly
edited) tree is skipped and counted.
"""
from __future__ import annotations

import importlib
import io
import contextlib
from typing import Dict, List, Optional, Tuple

from ..core import Ctx, load_known, match_known
from ..model import AnalysisError, Repo


class Variant:
    def __init__(self, prop, name, relpath, old, new, expect, count=1):
        self.prop, self.name, self.relpath, self.old, self.new = prop, name, relpath, old, new
        self.expect = expect  # rule id prefix that must fire (e.g. 'C01.b') or None for 'silent'
        self.count = count


def apply(repo_root: str, v: Variant) -> Optional[Dict[str, str]]:
    import os
    p = os.path.join(repo_root, v.relpath)
    try:
        src = open(p, encoding="utf-8").read()
    except OSError:
        return None
    if src.count(v.old) < 1:
        return None
    return {v.relpath: src.replace(v.old, v.new, v.count)}


def evaluate(repo_root: str, v: Variant, baseline_bad: set) -> Tuple[str, List[str]]:
    """-> (status, fired rule ids) ; status in ok | skipped | missed | false-alarm | error"""
    ov = apply(repo_root, v)
    if ov is None:
        return "skipped", []
    mod = importlib.import_module(f"sa.rules.{v.prop}")
    try:
        repo = Repo(repo_root, overrides=ov)
        ctx = Ctx(v.prop, repo, "quick", 0)
        with contextlib.redirect_stdout(io.StringIO()):
            mod.run(ctx)
    except AnalysisError as e:
        # fail-closed: an analysis error on a mutant counts as detected-but-unclassified
        return ("ok" if v.expect else "false-alarm"), [f"ANALYSIS-ERROR:{e}"]
    bad = {(o.rule, o.construct) for o in ctx.obligations if not o.ok} - baseline_bad
    fired = sorted({r for r, _ in bad})
    if v.expect is None:
        return ("ok" if not bad else "false-alarm"), [f"{r}:{c}" for r, c in sorted(bad)]
    if any(r.startswith(v.expect) for r in fired):
        return "ok", [f"{r}:{c}" for r, c in sorted(bad)]
    return "missed", [f"{r}:{c}" for r, c in sorted(bad)]


def baseline(repo_root: str, prop: str) -> set:
    mod = importlib.import_module(f"sa.rules.{prop}")
    repo = Repo(repo_root)
    ctx = Ctx(prop, repo, "quick", 0)
    with contextlib.redirect_stdout(io.StringIO()):
        mod.run(ctx)
    return {(o.rule, o.construct) for o in ctx.obligations if not o.ok}


def run_corpus(ctx: Ctx, variants: List[Variant]):
    """Called by run_thorough of a rule module; a self-test failure is an analyser error."""
    root = ctx.repo.root
    base = baseline(root, ctx.prop)
    res = {"mutants_applied": 0, "mutants_detected": 0, "equivalents_applied": 0, "equivalents_silent": 0, "skipped": 0}
    failures = []
    details = []
    for v in variants:
        st, fired = evaluate(root, v, base)
        details.append({"variant": v.name, "kind": "mutant" if v.expect else "equivalent", "status": st, "fired": fired[:4]})
        if st == "skipped":
            res["skipped"] += 1
            continue
        if v.expect:
            res["mutants_applied"] += 1
            if st == "ok":
                res["mutants_detected"] += 1
            else:
                failures.append(f"mutant {v.name} not reported by {v.expect} (fired: {fired})")
        else:
            res["equivalents_applied"] += 1
            if st == "ok":
                res["equivalents_silent"] += 1
            else:
                failures.append(f"equivalent {v.name} raised {fired}")
    ctx.extra["selftest"] = res
    ctx.extra["selftest_details"] = details
    if failures:
        raise AnalysisError("self-test failed: " + "; ".join(failures[:5]))
    return res
