"""Variant corpus for the thorough tier: (property, name, file, old text, new text, expected rule).

`expect=None` marks a behaviour-preserving rewrite on which the property's rules must stay
silent.  Anchors are text of the pinned tree; a variant whose anchor has vanished is skipped.
"""
from .runner import Variant as V

R = "rl4co/envs/routing/"
CVRP_UPDATE = '''        td.update(
            {
                "current_node": current_node,
                "used_capacity": used_capacity,
                "visited": visited,
                "reward": reward,
                "done": done,
            }
        )
        td.set("action_mask", self.get_action_mask(td))'''
CVRP_UPDATE_STALE = '''        td.set("action_mask", self.get_action_mask(td))
        td.update(
            {
                "current_node": current_node,
                "used_capacity": used_capacity,
                "visited": visited,
                "reward": reward,
                "done": done,
            }
        )'''

CORPUS = [
    # ---------------------------------------------------------------- C01
    V("C01", "cvrp-cap-eps-loosened", R + "cvrp/env.py", 'td["demand"] + td["used_capacity"] > td["vehicle_capacity"]',
      'td["demand"] + td["used_capacity"] > td["vehicle_capacity"] + 1e-3', "C01.d"),
    V("C01", "cvrp-mask-before-update", R + "cvrp/env.py", CVRP_UPDATE, CVRP_UPDATE_STALE, "C01.a"),
    V("C01", "cvrp-used-capacity-not-stored", R + "cvrp/env.py", '"used_capacity": used_capacity,\n                "visited": visited,', '"visited": visited,', "C01.c"),
    V("C01", "op-tour-length-stale", R + "op/env.py", '"tour_length": tour_length,', '"tour_length": td["tour_length"],', "C01.c"),
    V("C01", "cvrp-visited-scatter-zero", R + "cvrp/env.py", 'visited = td["visited"].scatter(-1, current_node, 1)', 'visited = td["visited"].scatter(-1, current_node, 0)', "C01.c"),
    V("C01", "pdp-drop-to-deliver", R + "pdp/env.py", "action_mask = available & to_deliver", "action_mask = available", "C01.b"),
    V("C01", "svrp-skill-reversed", R + "svrp/env.py", 'can_service = td["skills"] <= current_tech_skill', 'can_service = td["skills"] >= current_tech_skill', "C01.b"),
    V("C01", "mtvrp-drop-backhaul-precedence", R + "mtvrp/env.py", "            & ~is_carrying_backhaul\n", "", "C01.b"),
    V("C01", "cvrp-or-to-and", R + "cvrp/env.py", 'mask_loc = td["visited"][..., 1:].to(exceeds_cap.dtype) | exceeds_cap', 'mask_loc = td["visited"][..., 1:].to(exceeds_cap.dtype) & exceeds_cap', "C01.b"),
    V("C01", "cvrptw-time-never-resets", R + "cvrptw/env.py", 'td["current_time"] = (td["action"][:, None] != 0) * (', 'td["current_time"] = (', "C01.e"),
    V("C01", "mtvrp-drop-distance-limit", R + "mtvrp/env.py", "            & ~exceeds_dist_limit\n", "", "C01.b"),
    V("C01", "sdvrp-room-nonstrict", R + "sdvrp/env.py", 'td["used_capacity"] >= td["vehicle_capacity"]', 'td["used_capacity"] > td["vehicle_capacity"]', "C01.d"),
    V("C01", "cvrptw-drop-time-filter", R + "cvrptw/env.py", "return not_masked & can_reach_in_time", "return not_masked", "C01.b"),
    V("C01", "op-mask-drops-visited", R + "op/env.py", 'mask = td["visited"] | td["visited"][..., 0:1] | exceeds_length', 'mask = td["visited"][..., 0:1] | exceeds_length', "C01.b"),
    # equivalents
    V("C01", "eq-svrp-flip-sides", R + "svrp/env.py", 'can_service = td["skills"] <= current_tech_skill', 'can_service = current_tech_skill >= td["skills"]', None),
    V("C01", "eq-cvrp-move-terms", R + "cvrp/env.py", 'exceeds_cap = td["demand"] + td["used_capacity"] > td["vehicle_capacity"]',
      'exceeds_cap = td["vehicle_capacity"] - td["used_capacity"] < td["demand"]', None),
    V("C01", "eq-cvrp-demorgan", R + "cvrp/env.py", 'return ~torch.cat((mask_depot, mask_loc), -1)', 'return torch.cat((~mask_depot, ~mask_loc), -1)', None),
    V("C01", "eq-cvrp-rename-local", R + "cvrp/env.py", "exceeds_cap", "too_heavy", None, count=99),
    V("C01", "eq-cvrptw-not-le", R + "cvrptw/env.py", 'td["current_time"] + dist <= td["time_windows"][..., 1]', '~(td["current_time"] + dist > td["time_windows"][..., 1])', None),
    V("C01", "eq-mtvrp-reorder-conjuncts", R + "mtvrp/env.py", "            can_reach_customer\n            & can_reach_depot\n", "            can_reach_depot\n            & can_reach_customer\n", None),
]


def for_prop(prop):
    return [v for v in CORPUS if v.prop == prop]

CORPUS += [
    # ---------------------------------------------------------------- C05
    V("C05", "cvrp-cap-ge", R + "cvrp/env.py", 'td["demand"] + td["used_capacity"] > td["vehicle_capacity"]', 'td["demand"] + td["used_capacity"] >= td["vehicle_capacity"]', "C05.a"),
    V("C05", "mtvrp-tw-strict-again", R + "mtvrp/env.py", "can_reach_customer = arrival_time <= late_tw", "can_reach_customer = arrival_time < late_tw", "C05.a"),
    V("C05", "cvrptw-tw-strict", R + "cvrptw/env.py", 'td["current_time"] + dist <= td["time_windows"][..., 1]', 'td["current_time"] + dist < td["time_windows"][..., 1]', "C05.a"),
    V("C05", "pctsp-prize-le", R + "pctsp/env.py", '(td["cur_total_prize"] < 1.0)', '(td["cur_total_prize"] <= 1.0)', "C05.a"),
    V("C05", "op-length-ge", R + "op/env.py", "            > td[\"max_length\"]\n", "            >= td[\"max_length\"]\n", "C05.a"),
    V("C05", "mtvrp-cap-eps-tight", R + "mtvrp/env.py", 'td["demand_linehaul"] + td["used_capacity_linehaul"] > td["vehicle_capacity"]', 'td["demand_linehaul"] + td["used_capacity_linehaul"] > td["vehicle_capacity"] - 1e-6', "C05.a"),
    V("C05", "fjsp-busy-ge", "rl4co/envs/scheduling/fjsp/env.py", 'td["busy_until"].gt(td["time"].unsqueeze(1))', 'td["busy_until"].ge(td["time"].unsqueeze(1))', "C05.a"),
    V("C05", "mtvrp-dist-limit-ge", R + "mtvrp/env.py", "            > td[\"distance_limit\"]\n", "            >= td[\"distance_limit\"]\n", "C05.a"),
    V("C05", "eq-cvrp-move-terms", R + "cvrp/env.py", 'exceeds_cap = td["demand"] + td["used_capacity"] > td["vehicle_capacity"]', 'exceeds_cap = td["vehicle_capacity"] - td["used_capacity"] < td["demand"]', None),
    V("C05", "eq-cvrptw-not-gt", R + "cvrptw/env.py", 'td["current_time"] + dist <= td["time_windows"][..., 1]', '~(td["current_time"] + dist > td["time_windows"][..., 1])', None),
    V("C05", "eq-fjsp-gt-operator", "rl4co/envs/scheduling/fjsp/env.py", 'td["busy_until"].gt(td["time"].unsqueeze(1))', '(td["busy_until"] > td["time"].unsqueeze(1))', None),
]
