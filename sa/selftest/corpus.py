"""Variant corpus for the thorough tier: (property, name, file, old text, new text, expected rule).

`expect=None` marks a behaviour-preserving rewrite on which the property's rules must stay
silent.  Anchors are text of the pinned tree; a variant whose anchor has vanished is skipped.
"""
from .runner import Variant as V

R = "rl4co/envs/routing/"
CVRP_UPDATE = '''        td.update(
            {
                "current_node": current_node,
                "used_capacity": used_capacity,
                "visited": visited,
                "reward": reward,
                "done": done,
            }
        )
        td.set("action_mask", self.get_action_mask(td))'''
CVRP_UPDATE_STALE = '''        td.set("action_mask", self.get_action_mask(td))
        td.update(
            {
                "current_node": current_node,
                "used_capacity": used_capacity,
                "visited": visited,
                "reward": reward,
                "done": done,
            }
        )'''

CORPUS = [
    # ---------------------------------------------------------------- C01
    V("C01", "atsp-mask-sized-from-config", "rl4co/envs/routing/atsp/env.py", '(*batch_size, cost_matrix.shape[-1])', '(*batch_size, self.generator.num_loc)', 'C01.x'),
    V("C01", "mtsp-mask-sized-from-config", "rl4co/envs/routing/mtsp/env.py", '(*batch_size, td["locs"].shape[-2])', '(*batch_size, self.generator.num_loc)', 'C01.x'),
    V("C01", "pctsp-visited-sized-from-config", "rl4co/envs/routing/pctsp/env.py", '(*batch_size, locs.shape[-2])', '(*batch_size, self.generator.num_loc + 1)', 'C01.x'),
    V("C01", "pdp-mask-sized-from-config", "rl4co/envs/routing/pdp/env.py", '(*batch_size, num_loc + 1), dtype=torch.bool', '(*batch_size, self.generator.num_loc + 1), dtype=torch.bool', 'C01.x'),
    V("C01", "eq-atsp-mask-size-method", "rl4co/envs/routing/atsp/env.py", '(*batch_size, cost_matrix.shape[-1])', '(*batch_size, cost_matrix.size(-1))', None),
    V("C01", "cvrptw-service-inside-max", "rl4co/envs/routing/cvrptw/env.py", 'torch.max(td["current_time"] + distance, start_times) + duration', 'torch.max(td["current_time"] + distance + duration, start_times)', 'C01.t'),
    V("C01", "cvrptw-service-dropped", "rl4co/envs/routing/cvrptw/env.py", 'torch.max(td["current_time"] + distance, start_times) + duration', 'torch.max(td["current_time"] + distance, start_times)', 'C01.t'),
    V("C01", "mtvrp-service-inside-max", "rl4co/envs/routing/mtvrp/env.py", '            torch.max(td["current_time"] + distance / td["speed"], start_times)\n            + service_time', '            torch.max(td["current_time"] + distance / td["speed"] + service_time, start_times)', 'C01.t'),
    V("C01", "eq-cvrptw-clock-commuted", "rl4co/envs/routing/cvrptw/env.py", 'torch.max(td["current_time"] + distance, start_times) + duration', 'duration + torch.maximum(start_times, distance + td["current_time"])', None),
    V("C01", "mtvrp-out-leg-gated-by-open-route", "rl4co/envs/routing/mtvrp/env.py", 'td["current_route_length"] + d_ij + (d_j0 * ~td["open_route"])', 'td["current_route_length"] + (d_ij + d_j0) * ~td["open_route"]', 'C01.v'),
    V("C01", "mtvrp-return-leg-gated-by-open", "rl4co/envs/routing/mtvrp/env.py", 'td["current_route_length"] + d_ij + (d_j0 * ~td["open_route"])', 'td["current_route_length"] + d_ij + (d_j0 * td["open_route"])', 'C01'),
    V("C01", "eq-mtvrp-limit-reassociated", "rl4co/envs/routing/mtvrp/env.py", 'td["current_route_length"] + d_ij + (d_j0 * ~td["open_route"])', '(~td["open_route"] * d_j0) + d_ij + td["current_route_length"]', None),
    V("C01", "pctsp-prize-required-literal", "rl4co/envs/routing/pctsp/env.py", '        prize_required = torch.full(\n            (*batch_size,), self.generator.prize_required, device=device\n        )', '        prize_required = torch.ones((*batch_size,), device=device)', 'C01.w'),
    V("C01", "eq-pctsp-prize-required-ones-times", "rl4co/envs/routing/pctsp/env.py", '        prize_required = torch.full(\n            (*batch_size,), self.generator.prize_required, device=device\n        )', '        prize_required = torch.ones((*batch_size,), device=device) * self.generator.prize_required', None),
    V("C01", "mdcpdp-capacity-single-column", "rl4co/envs/routing/mdcpdp/generator.py", 'size=(*batch_size, self.num_depot),\n        )\n\n        # Sample lateness', 'size=(*batch_size, 1),\n        )\n\n        # Sample lateness', 'C01.n'),
    V("C01", "mdcpdp-current-depot-frozen", "rl4co/envs/routing/mdcpdp/env.py", 'current_depot = torch.where(current_node < num_depot, current_node, current_depot)', 'current_depot = torch.where(back_flag, current_node, current_depot)', 'C01.n'),
    V("C01", "eq-mdcpdp-current-depot-negated", "rl4co/envs/routing/mdcpdp/env.py", 'current_depot = torch.where(current_node < num_depot, current_node, current_depot)', 'current_depot = torch.where(current_node >= num_depot, current_depot, current_node)', None),
    V("C01", "mdcpdp-available-or-deliverable", "rl4co/envs/routing/mdcpdp/env.py", 'action_mask = available & to_deliver', 'action_mask = available | to_deliver', 'C01.p'),
    V("C01", "mdcpdp-customers-open-after-return", "rl4co/envs/routing/mdcpdp/env.py", 'action_mask[..., num_depot:] &= ~back_flag.expand_as(action_mask[..., num_depot:])', 'action_mask[..., num_depot:] &= back_flag.expand_as(action_mask[..., num_depot:])', 'C01.p'),
    V("C01", "mdcpdp-current-depot-open-after-return", "rl4co/envs/routing/mdcpdp/env.py", 'action_mask[..., :num_depot].scatter_(-1, current_depot, ~back_flag)', 'action_mask[..., :num_depot].scatter_(-1, current_depot, back_flag)', 'C01.p'),
    V("C01", "mdcpdp-last-depot-flag-flipped", "rl4co/envs/routing/mdcpdp/env.py", 'torch.sum(available[..., :num_depot].long(), dim=-1, keepdim=True) == 0', 'torch.sum(available[..., :num_depot].long(), dim=-1, keepdim=True) != 0', 'C01.p'),
    V("C01", "mdcpdp-pickup-open-at-capacity", "rl4co/envs/routing/mdcpdp/env.py", '        ] &= ~capacity_flag  # If reach', '        ] &= capacity_flag  # If reach', 'C01.p'),
    V("C01", "mdcpdp-depot-open-while-carrying", "rl4co/envs/routing/mdcpdp/env.py", '        ] &= ~carry_flag  # If carrying', '        ] |= carry_flag  # If carrying', 'C01.p'),
    V("C01", "mdcpdp-carrying-includes-zero", "rl4co/envs/routing/mdcpdp/env.py", 'carry_flag = current_carry > 0', 'carry_flag = current_carry >= 0', None),
    V("C01", "eq-mdcpdp-mask-commuted", "rl4co/envs/routing/mdcpdp/env.py", 'action_mask = available & to_deliver', 'action_mask = to_deliver & available', None),
    V("C01", "eq-mdcpdp-capacity-negated-lt", "rl4co/envs/routing/mdcpdp/env.py", 'capacity_flag = current_carry >= current_capacity', 'capacity_flag = ~(current_carry < current_capacity)', None),
    V("C01", "eq-mdcpdp-slice-assign", "rl4co/envs/routing/mdcpdp/env.py", 'action_mask[..., num_depot:] &= ~back_flag.expand_as(action_mask[..., num_depot:])', 'action_mask[..., num_depot:] = action_mask[..., num_depot:] & ~back_flag', None),
    V("C01", "svrp-last-tech-flipped", "rl4co/envs/routing/svrp/env.py", '(td["current_tech"] == td["techs"].size(-2) - 1)', '(td["current_tech"] != td["techs"].size(-2) - 1)', 'C01.b'),
    V("C01", "svrp-last-tech-off-by-two", "rl4co/envs/routing/svrp/env.py", '(td["current_tech"] == td["techs"].size(-2) - 1)', '(td["current_tech"] == td["techs"].size(-2) + 1)', 'C01.s'),
    V("C01", "svrp-last-tech-wrong-axis", "rl4co/envs/routing/svrp/env.py", '(td["current_tech"] == td["techs"].size(-2) - 1)', '(td["current_tech"] == td["techs"].size(-1) - 1)', 'C01.s'),
    V("C01", "svrp-last-tech-and-at-depot", "rl4co/envs/routing/svrp/env.py", '(td["current_node"] == 0) | (td["current_tech"] == td["techs"].size(-2) - 1)', '(td["current_node"] == 0) & (td["current_tech"] == td["techs"].size(-2) - 1)', 'C01.s'),
    V("C01", "eq-svrp-last-tech-yoda", "rl4co/envs/routing/svrp/env.py", '(td["current_tech"] == td["techs"].size(-2) - 1)', '(td["techs"].shape[1] - 1 == td["current_tech"])', None),
    V("C01", "eq-svrp-last-tech-moved-one", "rl4co/envs/routing/svrp/env.py", '(td["current_tech"] == td["techs"].size(-2) - 1)', '(td["current_tech"] + 1 == td["techs"].size(-2))', None),
    V("C01", "eq-cvrp-depot-pruning-flipped-is-c05", "rl4co/envs/routing/cvrp/env.py", 'mask_depot = (td["current_node"] == 0) & (', 'mask_depot = (td["current_node"] != 0) & (', None),
    V("C01", "mtvrp-linehaul-missing-or-capacity", "rl4co/envs/routing/mtvrp/env.py", '            linehauls_missing\n            & ~exceeds_cap_linehaul', '            (linehauls_missing\n            | ~exceeds_cap_linehaul)', 'C01.b'),
    V("C01", "mtvrp-linehaul-or-not-carrying", "rl4co/envs/routing/mtvrp/env.py", '            linehauls_missing\n            & ~exceeds_cap_linehaul\n            & ~is_carrying_backhaul', '            (linehauls_missing\n            & ~exceeds_cap_linehaul\n            | ~is_carrying_backhaul)', 'C01.b'),
    V("C01", "mtvrp-alternatives-conjoined", "rl4co/envs/routing/mtvrp/env.py", ') | (~exceeds_cap_backhaul & (td["demand_backhaul"] > 0))', ') & (~exceeds_cap_backhaul & (td["demand_backhaul"] > 0))', 'C01.b'),
    V("C01", "mtvrp-backhaul-cap-or-kind", "rl4co/envs/routing/mtvrp/env.py", ') | (~exceeds_cap_backhaul & (td["demand_backhaul"] > 0))', ') | (~exceeds_cap_backhaul | (td["demand_backhaul"] > 0))', 'C01.b'),
    V("C01", "eq-mtvrp-alternative-reordered", "rl4co/envs/routing/mtvrp/env.py", '            linehauls_missing\n            & ~exceeds_cap_linehaul\n            & ~is_carrying_backhaul', '            ~is_carrying_backhaul\n            & linehauls_missing\n            & ~exceeds_cap_linehaul', None),
    V("C01", "eq-mtvrp-alternatives-swapped", "rl4co/envs/routing/mtvrp/env.py", '        meets_demand_constraint = (\n            linehauls_missing\n            & ~exceeds_cap_linehaul\n            & ~is_carrying_backhaul\n            & (td["demand_linehaul"] > 0)\n        ) | (~exceeds_cap_backhaul & (td["demand_backhaul"] > 0))', '        meets_demand_constraint = (~exceeds_cap_backhaul & (td["demand_backhaul"] > 0)) | (\n            linehauls_missing\n            & ~exceeds_cap_linehaul\n            & ~is_carrying_backhaul\n            & (td["demand_linehaul"] > 0)\n        )', None),
    V("C01", "cvrp-cap-eps-loosened", R + "cvrp/env.py", 'td["demand"] + td["used_capacity"] > td["vehicle_capacity"]',
      'td["demand"] + td["used_capacity"] > td["vehicle_capacity"] + 1e-3', "C01.d"),
    V("C01", "cvrp-mask-before-update", R + "cvrp/env.py", CVRP_UPDATE, CVRP_UPDATE_STALE, "C01.a"),
    V("C01", "cvrp-used-capacity-not-stored", R + "cvrp/env.py", '"used_capacity": used_capacity,\n                "visited": visited,', '"visited": visited,', "C01.c"),
    V("C01", "op-tour-length-stale", R + "op/env.py", '"tour_length": tour_length,', '"tour_length": td["tour_length"],', "C01.c"),
    V("C01", "cvrp-visited-scatter-zero", R + "cvrp/env.py", 'visited = td["visited"].scatter(-1, current_node, 1)', 'visited = td["visited"].scatter(-1, current_node, 0)', "C01.c"),
    V("C01", "pdp-drop-to-deliver", R + "pdp/env.py", "action_mask = available & to_deliver", "action_mask = available", "C01.b"),
    V("C01", "svrp-skill-reversed", R + "svrp/env.py", 'can_service = td["skills"] <= current_tech_skill', 'can_service = td["skills"] >= current_tech_skill', "C01.b"),
    V("C01", "mtvrp-drop-backhaul-precedence", R + "mtvrp/env.py", "            & ~is_carrying_backhaul\n", "", "C01.b"),
    V("C01", "cvrp-or-to-and", R + "cvrp/env.py", 'mask_loc = td["visited"][..., 1:].to(exceeds_cap.dtype) | exceeds_cap', 'mask_loc = td["visited"][..., 1:].to(exceeds_cap.dtype) & exceeds_cap', "C01.b"),
    V("C01", "cvrptw-time-never-resets", R + "cvrptw/env.py", 'td["current_time"] = (td["action"][:, None] != 0) * (', 'td["current_time"] = (', "C01.e"),
    V("C01", "mtvrp-drop-distance-limit", R + "mtvrp/env.py", "            & ~exceeds_dist_limit\n", "", "C01.b"),
    V("C01", "sdvrp-room-nonstrict", R + "sdvrp/env.py", 'td["used_capacity"] >= td["vehicle_capacity"]', 'td["used_capacity"] > td["vehicle_capacity"]', "C01.d"),
    V("C01", "cvrptw-drop-time-filter", R + "cvrptw/env.py", "return not_masked & can_reach_in_time", "return not_masked", "C01.b"),
    V("C01", "op-mask-drops-visited", R + "op/env.py", 'mask = td["visited"] | td["visited"][..., 0:1] | exceeds_length', 'mask = td["visited"][..., 0:1] | exceeds_length', "C01.b"),
    # equivalents
    V("C01", "eq-svrp-flip-sides", R + "svrp/env.py", 'can_service = td["skills"] <= current_tech_skill', 'can_service = current_tech_skill >= td["skills"]', None),
    V("C01", "eq-cvrp-move-terms", R + "cvrp/env.py", 'exceeds_cap = td["demand"] + td["used_capacity"] > td["vehicle_capacity"]',
      'exceeds_cap = td["vehicle_capacity"] - td["used_capacity"] < td["demand"]', None),
    V("C01", "eq-cvrp-demorgan", R + "cvrp/env.py", 'return ~torch.cat((mask_depot, mask_loc), -1)', 'return torch.cat((~mask_depot, ~mask_loc), -1)', None),
    V("C01", "eq-cvrp-rename-local", R + "cvrp/env.py", "exceeds_cap", "too_heavy", None, count=99),
    V("C01", "eq-cvrptw-not-le", R + "cvrptw/env.py", 'td["current_time"] + dist <= td["time_windows"][..., 1]', '~(td["current_time"] + dist > td["time_windows"][..., 1])', None),
    V("C01", "eq-mtvrp-reorder-conjuncts", R + "mtvrp/env.py", "            can_reach_customer\n            & can_reach_depot\n", "            can_reach_depot\n            & can_reach_customer\n", None),
]


def for_prop(prop):
    return [v for v in CORPUS if v.prop == prop]

CORPUS += [
    # ---------------------------------------------------------------- C05
    V("C05", "eq-svrp-handover-not-pruned", "rl4co/envs/routing/svrp/env.py", '(td["current_node"] == 0) | (td["current_tech"] == td["techs"].size(-2) - 1)', '(td["current_tech"] == td["techs"].size(-2) - 1)', None),
    V("C05", "mtvrp-depot-blocked-while-customers", "rl4co/envs/routing/mtvrp/env.py", 'can_visit[:, 0] = ~((curr_node == 0) & (can_visit[:, 1:].sum(-1) > 0))', 'can_visit[:, 0] = ~((curr_node >= 0) & (can_visit[:, 1:].sum(-1) > 0))', 'C05.c'),
    V("C05", "mdcpdp-delivery-closed-at-capacity", "rl4co/envs/routing/mdcpdp/env.py", '            ..., num_depot:pd_split_idx\n        ] &= ~capacity_flag', '            ..., num_depot:\n        ] &= ~capacity_flag', 'C05.e'),
    V("C05", "mdcpdp-final-depot-closed", "rl4co/envs/routing/mdcpdp/env.py", 'action_mask[..., :num_depot].gather(-1, current_depot) | done,', 'action_mask[..., :num_depot].gather(-1, current_depot) & done,', 'C05.e'),
    V("C05", "mdcpdp-depot-closed-when-empty", "rl4co/envs/routing/mdcpdp/env.py", 'carry_flag = current_carry > 0', 'carry_flag = current_carry >= 0', 'C05.e'),
    V("C05", "mdcpdp-other-depots-closed-after-return", "rl4co/envs/routing/mdcpdp/env.py", 'action_mask[..., :num_depot] &= back_flag.expand_as(action_mask[..., :num_depot])', 'action_mask[..., :num_depot] &= ~back_flag.expand_as(action_mask[..., :num_depot])', 'C05.e'),
    V("C05", "eq-mdcpdp-carry-yoda", "rl4co/envs/routing/mdcpdp/env.py", 'carry_flag = current_carry > 0', 'carry_flag = 0 < current_carry', None),
    V("C05", "cvrp-depot-pruned-away-from-depot", "rl4co/envs/routing/cvrp/env.py", 'mask_depot = (td["current_node"] == 0) & (', 'mask_depot = (td["current_node"] != 0) & (', 'C05.c'),
    V("C05", "sdvrp-depot-pruned-away-from-depot", "rl4co/envs/routing/sdvrp/env.py", 'mask_depot = (td["current_node"] == 0).squeeze(-1) & (', 'mask_depot = (td["current_node"] != 0).squeeze(-1) & (', 'C05.c'),
    V("C05", "mtvrp-depot-pruned-away-from-depot", "rl4co/envs/routing/mtvrp/env.py", 'can_visit[:, 0] = ~((curr_node == 0) & (can_visit[:, 1:].sum(-1) > 0))', 'can_visit[:, 0] = ~((curr_node != 0) & (can_visit[:, 1:].sum(-1) > 0))', 'C05.c'),
    V("C05", "svrp-depot-pruned-away-from-depot", "rl4co/envs/routing/svrp/env.py", '(td["current_node"] == 0) | (td["current_tech"]', '(td["current_node"] != 0) | (td["current_tech"]', 'C05.c'),
    V("C05", "eq-cvrp-depot-pruning-yoda", "rl4co/envs/routing/cvrp/env.py", 'mask_depot = (td["current_node"] == 0) & (', 'mask_depot = (0 == td["current_node"]) & (', None),
    V("C05", "cvrp-cap-ge", R + "cvrp/env.py", 'td["demand"] + td["used_capacity"] > td["vehicle_capacity"]', 'td["demand"] + td["used_capacity"] >= td["vehicle_capacity"]', "C05.a"),
    V("C05", "mtvrp-tw-strict-again", R + "mtvrp/env.py", "can_reach_customer = arrival_time <= late_tw", "can_reach_customer = arrival_time < late_tw", "C05.a"),
    V("C05", "cvrptw-tw-strict", R + "cvrptw/env.py", 'td["current_time"] + dist <= td["time_windows"][..., 1]', 'td["current_time"] + dist < td["time_windows"][..., 1]', "C05.a"),
    V("C05", "pctsp-prize-le", R + "pctsp/env.py", '(td["cur_total_prize"] < 1.0)', '(td["cur_total_prize"] <= 1.0)', "C05.a"),
    V("C05", "op-length-ge", R + "op/env.py", "            > td[\"max_length\"]\n", "            >= td[\"max_length\"]\n", "C05.a"),
    V("C05", "mtvrp-cap-eps-tight", R + "mtvrp/env.py", 'td["demand_linehaul"] + td["used_capacity_linehaul"] > td["vehicle_capacity"]', 'td["demand_linehaul"] + td["used_capacity_linehaul"] > td["vehicle_capacity"] - 1e-6', "C05.a"),
    V("C05", "fjsp-busy-ge", "rl4co/envs/scheduling/fjsp/env.py", 'td["busy_until"].gt(td["time"].unsqueeze(1))', 'td["busy_until"].ge(td["time"].unsqueeze(1))', "C05.a"),
    V("C05", "mtvrp-dist-limit-ge", R + "mtvrp/env.py", "            > td[\"distance_limit\"]\n", "            >= td[\"distance_limit\"]\n", "C05.a"),
    V("C05", "eq-cvrp-move-terms", R + "cvrp/env.py", 'exceeds_cap = td["demand"] + td["used_capacity"] > td["vehicle_capacity"]', 'exceeds_cap = td["vehicle_capacity"] - td["used_capacity"] < td["demand"]', None),
    V("C05", "eq-cvrptw-not-gt", R + "cvrptw/env.py", 'td["current_time"] + dist <= td["time_windows"][..., 1]', '~(td["current_time"] + dist > td["time_windows"][..., 1])', None),
    V("C05", "eq-fjsp-gt-operator", "rl4co/envs/scheduling/fjsp/env.py", 'td["busy_until"].gt(td["time"].unsqueeze(1))', '(td["busy_until"] > td["time"].unsqueeze(1))', None),
]

CORPUS += [
    # ---------------------------------------------------------------- C06
    V("C06", "kopt-checker-permutation-only", "rl4co/envs/routing/tsp/env.py", '        assert (visited_time > 0).all(), "Not a single tour"\n\n    def get_mask(self, td):', '    def get_mask(self, td):', "C06.p"),
    V("C06", "ruinrepair-checker-reach-not-asserted", "rl4co/envs/routing/pdp/env.py", '        assert (visited_time > 0).all(), "Not a single tour"\n        assert (\n            visited_time[:, 1 : graph_size // 2 + 1]', '        assert (\n            visited_time[:, 1 : graph_size // 2 + 1]', "C06.p"),
    V("C06", "eq-kopt-checker-yoda", "rl4co/envs/routing/tsp/env.py", 'assert (visited_time > 0).all(), "Not a single tour"\n\n    def get_mask(self, td):', 'assert (0 < visited_time).all(), "Not a single tour"\n\n    def get_mask(self, td):', None),
    V("C06", "svrp-checker-open-route-unchecked", "rl4co/envs/routing/svrp/env.py", "closed_actions = torch.cat([actions, torch.zeros_like(actions[:, :1])], 1)", "closed_actions = actions", "C06.o"),
    V("C06", "cvrp-checker-head-unchecked", "rl4co/envs/routing/cvrp/env.py", ').all() and (sorted_pi[:, :-graph_size] == 0).all(), "Invalid tour"', ').all(), "Invalid tour"', 'C06.m'),
    V("C06", "pctsp-checker-count-incl-depot", "rl4co/envs/routing/pctsp/env.py", '== (td["locs"].size(-2) - 1)', '== td["real_prize"].size(-1)', 'C06.n'),
    V("C06", "eq-pctsp-checker-count-from-prize", "rl4co/envs/routing/pctsp/env.py", '== (td["locs"].size(-2) - 1)', '== td["real_prize"].size(-1) - 1', None),
    V("C06", "cvrptw-checker-wait-not-carried", "rl4co/envs/routing/cvrptw/env.py", '            curr_time = curr_time + gather_by_index(td["durations"], next_node).reshape(\n                [batch_size, 1]\n            )', '            curr_time = (curr_time_arr + dist) + gather_by_index(td["durations"], next_node).reshape(\n                [batch_size, 1]\n            )', 'C06'),
    V("C06", "cvrp-eps-sign-flip", R + "cvrp/env.py", 'used_cap <= td["vehicle_capacity"] + 1e-5', 'used_cap <= td["vehicle_capacity"] - 1e-5', "C06.b"),
    V("C06", "cvrp-checker-strict", R + "cvrp/env.py", 'used_cap <= td["vehicle_capacity"] + 1e-5', 'used_cap < td["vehicle_capacity"] + 1e-5', "C06.b"),
    V("C06", "cvrp-checker-huge-tol", R + "cvrp/env.py", 'used_cap <= td["vehicle_capacity"] + 1e-5', 'used_cap <= td["vehicle_capacity"] + 0.5', "C06.b"),
    V("C06", "mtvrp-checker-speed-dropped", R + "mtvrp/env.py", 'curr_time + dist / td["speed"].squeeze(-1),', "curr_time + dist,", "C06.a"),
    V("C06", "mtvrp-checker-no-service-time", R + "mtvrp/env.py", 'curr_time = curr_time + gather_by_index(td["service_time"], next_node)', "curr_time = curr_time + 0.0", "C06.a"),
    V("C06", "cvrptw-checker-no-durations", R + "cvrptw/env.py", 'curr_time = curr_time + gather_by_index(td["durations"], next_node).reshape(\n                [batch_size, 1]\n            )', "curr_time = curr_time + 0.0", "C06.a"),
    V("C06", "pctsp-prize-eps-flip", R + "pctsp/env.py", "(p.sum(-1) >= 1 - 1e-5)", "(p.sum(-1) >= 1 + 1e-5)", "C06.b"),
    V("C06", "pdp-precedence-nonstrict-reversed", R + "pdp/env.py", '''            visited_time[:, 1 : actions.size(1) // 2 + 1]
            < visited_time[:, actions.size(1) // 2 + 1 :]
        ).all(), "Deliverying without pick-up"''', '''            visited_time[:, 1 : actions.size(1) // 2 + 1]
            > visited_time[:, actions.size(1) // 2 + 1 :]
        ).all(), "Deliverying without pick-up"''', "C06.a"),
    V("C06", "op-length-assert-dropped-term", R + "op/env.py", "length[..., None] <= max_length + 1e-5", "length[..., None] * 0 <= max_length + 1e-5", "C06.a"),
    V("C06", "svrp-skill-reversed", R + "svrp/env.py", 'skills_ordered[batch, start : each[1]] <= td["techs"][batch, tech]', 'skills_ordered[batch, start : each[1]] >= td["techs"][batch, tech]', "C06.a"),
    V("C06", "gate-always-check", "rl4co/envs/common/base.py", "        if self.check_solution:\n            self.check_solution_validity(td, actions)\n        return self._get_reward(td, actions)", "        self.check_solution_validity(td, actions)\n        return self._get_reward(td, actions)", "C06.d"),
    V("C06", "gate-inverted", "rl4co/envs/common/base.py", "        if self.check_solution:\n            self.check_solution_validity(td, actions)\n        return self._get_reward(td, actions)", "        if not self.check_solution:\n            self.check_solution_validity(td, actions)\n        return self._get_reward(td, actions)", "C06.d"),
    V("C06", "mtvrp-mask-vs-checker-strict", R + "mtvrp/env.py", 'curr_time <= gather_by_index(td["time_windows"], next_node)[..., 1]', 'curr_time < gather_by_index(td["time_windows"], next_node)[..., 1]', "C06"),
    V("C06", "sdvrp-final-demand-check-dropped", R + "sdvrp/env.py", 'assert (demands == 0).all(), "All demand must be satisfied"', 'assert (demands >= 0).all(), "All demand must be satisfied"', "C06.a"),
    V("C06", "eq-cvrp-checker-flip", R + "cvrp/env.py", 'used_cap <= td["vehicle_capacity"] + 1e-5', 'td["vehicle_capacity"] + 1e-5 >= used_cap', None),
    V("C06", "eq-cvrp-checker-move-eps", R + "cvrp/env.py", 'used_cap <= td["vehicle_capacity"] + 1e-5', 'used_cap - 1e-5 <= td["vehicle_capacity"]', None),
    V("C06", "eq-mtvrp-rename", R + "mtvrp/env.py", "curr_time", "clock", None, count=99),
]

S_ = "rl4co/envs/scheduling/"
CORPUS += [
    # ---------------------------------------------------------------- C02
    V("C02", "fjsp-advance-when-actions-open", S_ + "fjsp/env.py", 'return ~reduce(td["action_mask"], "bs ... -> bs", "any") & ~dones', 'return reduce(td["action_mask"], "bs ... -> bs", "any") & ~dones', 'C02.h'),
    V("C02", "fjsp-advance-finished-only", S_ + "fjsp/env.py", 'return ~reduce(td["action_mask"], "bs ... -> bs", "any") & ~dones', 'return ~reduce(td["action_mask"], "bs ... -> bs", "any") & dones', 'C02.h'),
    V("C02", "fjsp-advance-or-unfinished", S_ + "fjsp/env.py", 'return ~reduce(td["action_mask"], "bs ... -> bs", "any") & ~dones', 'return ~reduce(td["action_mask"], "bs ... -> bs", "any") | ~dones', 'C02.h'),
    V("C02", "eq-fjsp-advance-without-dones", S_ + "fjsp/env.py", 'return ~reduce(td["action_mask"], "bs ... -> bs", "any") & ~dones', 'return ~reduce(td["action_mask"], "bs ... -> bs", "any")', None),
    V("C02", "eq-fjsp-advance-method-any", S_ + "fjsp/env.py", 'return ~reduce(td["action_mask"], "bs ... -> bs", "any") & ~dones', 'return ~td["action_mask"].any(-1) & ~dones', None),
    V("C02", "fjsp-wait-always-open", S_ + "fjsp/env.py", 'td["job_in_process"].any(1, keepdims=True) & (~td["done"])', 'td["job_in_process"].any(1, keepdims=True) | (~td["done"])', "C02.g"),
    V("C02", "jssp-wait-always-open", S_ + "jssp/env.py", 'td["job_in_process"].any(1, keepdims=True) & (~td["done"])', 'td["job_in_process"].any(1, keepdims=True) | (~td["done"])', "C02.g"),
    V("C02", "fjsp-wait-open-when-idle", S_ + "fjsp/env.py", 'td["job_in_process"].any(1, keepdims=True) & (~td["done"])', '(~td["job_in_process"].any(1, keepdims=True)) & (~td["done"])', "C02.g"),
    V("C02", "eq-fjsp-wait-absorbed", S_ + "fjsp/env.py", 'td["job_in_process"].any(1, keepdims=True) & (~td["done"])', 'td["job_in_process"].any(1, keepdims=True)', None),
    V("C02", "eq-fjsp-wait-only-when-done", S_ + "fjsp/env.py", 'td["job_in_process"].any(1, keepdims=True) & (~td["done"])', 'td["job_in_process"].any(1, keepdims=True) & td["done"]', None),
    V("C02", "cvrp-depot-no-exists-guard", R + "cvrp/env.py", 'mask_depot = (td["current_node"] == 0) & ((mask_loc == 0).int().sum(-1) > 0)[\n            :, None\n        ]', 'mask_depot = (td["current_node"] == 0)', "C02.b"),
    V("C02", "op-depot-not-reopened", R + "op/env.py", "        action_mask[..., 0] = 1\n", "", "C02.b"),
    V("C02", "mtsp-no-reopen-when-done", R + "mtsp/env.py", "        available[..., 0] = torch.logical_or(done, available[..., 0])\n", "", "C02.b"),
    V("C02", "mdcpdp-no-done-reopen", R + "mdcpdp/env.py", "action_mask[..., :num_depot].gather(-1, current_depot) | done,", "action_mask[..., :num_depot].gather(-1, current_depot),", "C02.b"),
    V("C02", "fjsp-noop-not-open-when-done", S_ + "fjsp/env.py", "            ) | td[\"done\"]\n", "            )\n", "C02.b"),
    V("C02", "mtvrp-depot-always-blocked-at-depot", R + "mtvrp/env.py", "can_visit[:, 0] = ~((curr_node == 0) & (can_visit[:, 1:].sum(-1) > 0))", "can_visit[:, 0] = ~(curr_node == 0)", "C02.b"),
    V("C02", "pctsp-depot-guard-dropped", R + "pctsp/env.py", '''        mask[..., 0] = (td["cur_total_prize"] < 1.0) & (
            td["visited"][..., 1:].int().sum(-1) < td["visited"][..., 1:].size(-1)
        )''', '''        mask[..., 0] = (td["cur_total_prize"] < 1.0)''', "C02.b"),
    V("C02", "cvrp-done-from-old-visited", R + "cvrp/env.py", "done = visited.sum(-1) == visited.size(-1)", 'done = td["visited"].sum(-1) == td["visited"].size(-1)', "C02.c"),
    V("C02", "tsp-done-from-old-mask", R + "tsp/env.py", "done = torch.sum(available, dim=-1) == 0", 'done = torch.sum(td["action_mask"], dim=-1) == 0', "C02.c"),
    V("C02", "op-done-post-increment", R + "op/env.py", 'done = (current_node.squeeze(-1) == 0) & (td["i"] > 0)', 'done = (current_node.squeeze(-1) == 0)', "C02.c"),
    V("C02", "flp-done-off-by-one", "rl4co/envs/graph/flp/env.py", 'done = td["i"] >= (td["to_choose"] - 1)', 'done = td["i"] >= td["to_choose"]', "C02.c"),
    V("C02", "cvrp-visited-reset", R + "cvrp/env.py", 'visited = td["visited"].scatter(-1, current_node, 1)', 'visited = torch.zeros_like(td["visited"]).scatter(-1, current_node, 1)', "C02.a"),
    V("C02", "fjsp-loop-no-mask-refresh", S_ + "fjsp/env.py", '''            td, dones = self._transit_to_next_time(step_complete, td)
            td.set("action_mask", self.get_action_mask(td))''', '''            td, dones = self._transit_to_next_time(step_complete, td)''', "C02.d"),
    V("C02", "sdvrp-done-from-old-demand", R + "sdvrp/env.py", "done = ~(demand_with_depot > 0).any(-1)", 'done = ~(td["demand_with_depot"] > 0).any(-1)', "C02.c"),
    V("C02", "decode-loop-no-cap", "rl4co/models/common/constructive/base.py", "            if step > max_steps:", "            if False:", "C02.e"),
    # equivalents
    V("C02", "eq-cvrp-exists-any", R + "cvrp/env.py", "((mask_loc == 0).int().sum(-1) > 0)", "((mask_loc == 0).any(-1))", None),
    V("C02", "eq-cvrp-done-all", R + "cvrp/env.py", "done = visited.sum(-1) == visited.size(-1)", "done = visited.bool().all(-1)", None),
    V("C02", "eq-mtsp-or-operator", R + "mtsp/env.py", "available[..., 0] = torch.logical_or(done, available[..., 0])", "available[..., 0] = done | available[..., 0]", None),
]

G_ = "rl4co/envs/graph/"
CORPUS += [
    # ---------------------------------------------------------------- C03
    V("C03", "svrp-empty-route-skips-technician", "rl4co/envs/routing/svrp/env.py", '            costs[batch, start:end] = self.tech_costs[tech]\n            tech += 1', '            if end - start == 1:\n                start = end\n                continue\n            costs[batch, start:end] = self.tech_costs[tech]\n            tech += 1', 'C03.g'),
    V("C03", "svrp-technician-advances-conditionally", "rl4co/envs/routing/svrp/env.py", '            costs[batch, start:end] = self.tech_costs[tech]\n            tech += 1', '            costs[batch, start:end] = self.tech_costs[tech]\n            if end - start > 1:\n                tech += 1', 'C03.g'),
    V("C03", "svrp-rate-of-next-technician", "rl4co/envs/routing/svrp/env.py", '            costs[batch, start:end] = self.tech_costs[tech]\n            tech += 1', '            tech += 1\n            costs[batch, start:end] = self.tech_costs[tech]', 'C03.g'),
    V("C03", "mdcpdp-last-return-charged-in-open-mode", "rl4co/envs/routing/mdcpdp/env.py", '        if self.problem_mode == "close":\n            last_leg', '        if True:\n            last_leg', 'C03.d'),
    V("C03", "mdcpdp-last-return-only-in-open-mode", "rl4co/envs/routing/mdcpdp/env.py", '        if self.problem_mode == "close":\n            last_leg', '        if self.problem_mode == "open":\n            last_leg', 'C03.d'),
    V("C03", "eq-mdcpdp-last-return-not-open", "rl4co/envs/routing/mdcpdp/env.py", '        if self.problem_mode == "close":\n            last_leg', '        if self.problem_mode != "open":\n            last_leg', None),
    V("C03", "mdcpdp-last-return-dropped", "rl4co/envs/routing/mdcpdp/env.py", '            current_length = current_length.scatter_add(\n                -1, td["current_depot"], last_leg.unsqueeze(-1)\n            )\n', '            pass\n', 'C03.d'),
    V("C03", "mcp-every-item-covered", "rl4co/envs/graph/mcp/env.py", 'chosen_items = (chosen_items > 0).float()', 'chosen_items = (chosen_items >= 0).float()', 'C03.f'),
    V("C03", "mcp-covered-twice-only", "rl4co/envs/graph/mcp/env.py", 'chosen_items = (chosen_items > 0).float()', 'chosen_items = (chosen_items > 1).float()', 'C03.f'),
    V("C03", "mcp-uncovered-counted", "rl4co/envs/graph/mcp/env.py", 'chosen_items = (chosen_items > 0).float()', 'chosen_items = (chosen_items == 0).float()', 'C03.f'),
    V("C03", "mcp-last-column-dropped", "rl4co/envs/graph/mcp/env.py", 'chosen_items = chosen_items[:, 1:]  # remove the first column', 'chosen_items = chosen_items[:, :-1]', 'C03.f'),
    V("C03", "eq-mcp-covered-ge-1", "rl4co/envs/graph/mcp/env.py", 'chosen_items = (chosen_items > 0).float()', 'chosen_items = (chosen_items >= 1).float()', None),
    V("C03", "eq-mcp-covered-ne-0", "rl4co/envs/graph/mcp/env.py", 'chosen_items = (chosen_items > 0).float()', 'chosen_items = (chosen_items != 0).float()', None),
    V("C03", "eq-mcp-covered-yoda", "rl4co/envs/graph/mcp/env.py", 'chosen_items = (chosen_items > 0).float()', 'chosen_items = (0 < chosen_items).float()', None),
    V("C03", "ffsp-end-minus-duration", S_ + "ffsp/env.py", 'td["schedule"] + td["job_duration"].permute(0, 2, 1)', 'td["schedule"] - td["job_duration"].permute(0, 2, 1)', 'C03.d'),
    V("C03", "ffsp-duration-not-transposed", S_ + "ffsp/env.py", 'td["schedule"] + td["job_duration"].permute(0, 2, 1)', 'td["schedule"] + td["job_duration"].permute(0, 1, 2)', 'C03.d'),
    V("C03", "ffsp-dummy-job-included", S_ + "ffsp/env.py", 'end_schedule[:, :, : self.num_job].max(dim=-1)', 'end_schedule.max(dim=-1)', 'C03.d'),
    V("C03", "ffsp-earliest-job", S_ + "ffsp/env.py", 'end_schedule[:, :, : self.num_job].max(dim=-1)', 'end_schedule[:, :, : self.num_job].min(dim=-1)', 'C03.d'),
    V("C03", "ffsp-max-over-machines-first", S_ + "ffsp/env.py", 'end_schedule[:, :, : self.num_job].max(dim=-1)', 'end_schedule[:, :, : self.num_job].max(dim=1)', 'C03.d'),
    V("C03", "ffsp-makespan-over-batch", S_ + "ffsp/env.py", 'end_time_max, _ = end_time_max.max(dim=-1)', 'end_time_max, _ = end_time_max.max(dim=0)', 'C03.d'),
    V("C03", "ffsp-makespan-global", S_ + "ffsp/env.py", 'end_time_max, _ = end_time_max.max(dim=-1)', 'end_time_max = end_time_max.max()', 'C03.d'),
    V("C03", "eq-ffsp-makespan-values", S_ + "ffsp/env.py", 'end_time_max, _ = end_time_max.max(dim=-1)', 'end_time_max = end_time_max.max(dim=-1).values', None),
    V("C03", "eq-ffsp-makespan-amax", S_ + "ffsp/env.py", 'end_time_max, _ = end_time_max.max(dim=-1)', 'end_time_max = end_time_max.amax(-1)', None),
    V("C03", "eq-ffsp-makespan-torch-max", S_ + "ffsp/env.py", 'end_time_max, _ = end_time_max.max(dim=-1)', 'end_time_max = torch.max(end_time_max, dim=1)[0]', None),
    V("C03", "eq-ffsp-end-commuted", S_ + "ffsp/env.py", 'td["schedule"] + td["job_duration"].permute(0, 2, 1)', 'td["job_duration"].transpose(1, 2) + td["schedule"]', None),
    V("C03", "cvrp-reward-no-depot", R + "cvrp/env.py", '''        locs_ordered = torch.cat(
            [
                td["locs"][..., 0:1, :],  # depot
                gather_by_index(td["locs"], actions),  # order locations
            ],
            dim=1,
        )
        return -get_tour_length(locs_ordered)''', '''        locs_ordered = gather_by_index(td["locs"], actions)
        return -get_tour_length(locs_ordered)''', "C03.b"),
    V("C03", "tsp-reward-sign", R + "tsp/env.py", "        return -get_tour_length(locs_ordered)\n\n    @staticmethod\n    def check_solution_validity(td: TensorDict, actions: torch.Tensor) -> None:\n        \"\"\"Check that solution is valid: nodes are visited exactly once\"\"\"", "        return get_tour_length(locs_ordered)\n\n    @staticmethod\n    def check_solution_validity(td: TensorDict, actions: torch.Tensor) -> None:\n        \"\"\"Check that solution is valid: nodes are visited exactly once\"\"\"", "C03.c"),
    V("C03", "atsp-roll-direction", R + "atsp/env.py", "nodes_tgt = torch.roll(actions, -1, dims=1)", "nodes_tgt = torch.roll(actions, 1, dims=1)", "C03.b"),
    V("C03", "atsp-src-tgt-swapped", R + "atsp/env.py", "distance_matrix[batch_idx, nodes_src, nodes_tgt]", "distance_matrix[batch_idx, nodes_tgt, nodes_src]", "C03.b"),
    V("C03", "tour-length-roll-coord-axis", "rl4co/utils/ops.py", "ordered_locs_next = torch.roll(ordered_locs, -1, dims=-2)", "ordered_locs_next = torch.roll(ordered_locs, -1, dims=-1)", "C03.b"),
    V("C03", "pctsp-penalty-term-dropped", R + "pctsp/env.py", 'return saved_penalty.sum(-1) - (length + td["penalty"][..., 1:].sum(-1))', "return saved_penalty.sum(-1) - length", "C03"),
    V("C03", "pctsp-penalty-sign", R + "pctsp/env.py", 'return saved_penalty.sum(-1) - (length + td["penalty"][..., 1:].sum(-1))', 'return -saved_penalty.sum(-1) - (length + td["penalty"][..., 1:].sum(-1))', "C03.c"),
    V("C03", "mtvrp-open-route-wrong-leg", R + "mtvrp/env.py", '~((go_to == 0) & td["open_route"])', '~((go_from == 0) & td["open_route"])', "C03.b"),
    V("C03", "mtvrp-ignores-open-route", R + "mtvrp/env.py", 'tour_length = (distances * ~((go_to == 0) & td["open_route"])).sum(-1)', "tour_length = distances.sum(-1)", "C03.a"),
    V("C03", "mcp-reads-mutated-weights", G_ + "mcp/env.py", 'weights = td["orig_weights"]  # (batch_size, n_items)', 'weights = td["weights"]  # (batch_size, n_items)', "C03.a"),
    V("C03", "flp-reads-mutated-distances", G_ + "flp/env.py", 'orig_distances = td["orig_distances"]\n        cur_min_dist = (', 'orig_distances = td["distances"]\n        cur_min_dist = (', "C03.a"),
    V("C03", "smtwtp-no-clamp", "rl4co/envs/scheduling/smtwtp/env.py", "        job_tardiness[job_tardiness < 0] = 0\n", "", "C03.b"),
    V("C03", "smtwtp-cumsum-unordered", "rl4co/envs/scheduling/smtwtp/env.py", "            ordered_process_time, dim=1\n", "            job_process_time, dim=1\n", "C03.b"),
    V("C03", "fjsp-makespan-pad-zero", "rl4co/envs/scheduling/fjsp/env.py", '-td["finish_times"].masked_fill(td["pad_mask"], -torch.inf).max(1).values', '-td["finish_times"].masked_fill(td["pad_mask"], torch.inf).max(1).values', "C03.b"),
    V("C03", "mtsp-reward-not-negated", R + "mtsp/env.py", "reward = -max_subtour_length", "reward = max_subtour_length", "C03.d"),
    V("C03", "mtsp-max-after-reset", R + "mtsp/env.py", '''        max_subtour_length = torch.where(
            current_length > td["max_subtour_length"],
            current_length,
            td["max_subtour_length"],
        )

        # If current agent is different from previous agent, then we have a new subtour and reset the length
        current_length *= (cur_agent_idx == td["agent_idx"]).float()
''', '''        current_length *= (cur_agent_idx == td["agent_idx"]).float()
        max_subtour_length = torch.where(
            current_length > td["max_subtour_length"],
            current_length,
            td["max_subtour_length"],
        )
''', "C03.d"),
    V("C03", "mdcpdp-length-to-old-depot", R + "mdcpdp/env.py", "current_length.scatter_add_(-1, current_depot, current_step_length)", 'current_length.scatter_add_(-1, td["current_depot"], current_step_length)', "C03.d"),
    V("C03", "op-reward-prize-of-all", R + "op/env.py", 'collected_prize = td["prize"].gather(1, actions)', 'collected_prize = td["prize"]', "C03.a"),
    # equivalents
    V("C03", "eq-atsp-roll-source", R + "atsp/env.py", "        nodes_src = actions\n        nodes_tgt = torch.roll(actions, -1, dims=1)", "        nodes_tgt = actions\n        nodes_src = torch.roll(actions, 1, dims=1)", None),
    V("C03", "eq-pctsp-rearranged", R + "pctsp/env.py", 'return saved_penalty.sum(-1) - (length + td["penalty"][..., 1:].sum(-1))', 'return -length + saved_penalty.sum(-1) - td["penalty"][..., 1:].sum(-1)', None),
    V("C03", "eq-tour-roll-plus", "rl4co/utils/ops.py", "ordered_locs_next = torch.roll(ordered_locs, -1, dims=-2)", "ordered_locs_next = torch.roll(ordered_locs, 1, dims=-2)", None),
    V("C03", "eq-cvrp-rename", R + "cvrp/env.py", "locs_ordered", "seq", None, count=99),
]

CORPUS += [
    # ---------------------------------------------------------------- C04
    V("C04", "ffsp-tables-bound-once", "rl4co/envs/scheduling/ffsp/env.py", "        self.tables.set_bs(batch_size[0])\n", "        if getattr(self, '_bs_done', False) is False:\n            self.tables.set_bs(batch_size[0])\n            self._bs_done = True\n", "C04.d"),
    V("C04", "cvrp-done-all-batch", R + "cvrp/env.py", "done = visited.sum(-1) == visited.size(-1)", "done = (visited.sum(-1) == visited.size(-1)).all().expand(visited.size(0))", "C04.a"),
    V("C04", "cvrptw-row0-deadline-again", R + "cvrptw/env.py", '<= td["time_windows"][..., 0, 1, None]', '<= td["time_windows"][..., 0, 1][0]', "C04.a"),
    V("C04", "op-capacity-from-row0", R + "op/env.py", '            > td["max_length"]\n', '            > td["max_length"][0]\n', "C04.a"),
    V("C04", "tsp-i-per-row-breaks-uniformity", R + "tsp/env.py", '"i": td["i"] + 1,', '"i": td["i"] + (~done).long().unsqueeze(-1),', "C04.a"),
    V("C04", "mtvrp-normalise-by-batch-max", R + "mtvrp/env.py", 'arrival_time = td["current_time"] + (d_ij / td["speed"])', 'arrival_time = td["current_time"] + (d_ij / td["speed"].max())', "C04.a"),
    V("C04", "cvrp-reward-mean-shift", R + "cvrp/env.py", "        return -get_tour_length(locs_ordered)\n\n    @staticmethod\n    def check_solution_validity(td: TensorDict, actions: torch.Tensor):\n        \"\"\"Check that solution is valid: nodes are not visited twice except depot and capacity is not exceeded\"\"\"",
      "        length = get_tour_length(locs_ordered)\n        return -(length - length.mean() * 0)\n\n    @staticmethod\n    def check_solution_validity(td: TensorDict, actions: torch.Tensor):\n        \"\"\"Check that solution is valid: nodes are not visited twice except depot and capacity is not exceeded\"\"\"", "C04.a"),
    V("C04", "sdvrp-shortcut-if-any-done", R + "sdvrp/env.py", "        # Get done\n        done = ~(demand_with_depot > 0).any(-1)", "        # Get done\n        done = ~(demand_with_depot > 0).any(-1)\n        if done.any():\n            used_capacity = used_capacity * 0", "C04.a"),
    V("C04", "pctsp-done-dim-minus1-on-rank1", R + "pctsp/env.py", 'done = (td["i"] > 0) & (current_node == 0)', 'done = ((td["i"] > 0) & (current_node == 0)) | (td["cur_total_prize"] > 1000).any(-1)', "C04.a"),
    V("C04", "mtsp-length-divided-by-batch", R + "mtsp/env.py", "reward = -max_subtour_length", "reward = -max_subtour_length * (td.batch_size[0] / td.batch_size[0])", None),
    # equivalents
    V("C04", "eq-cvrp-rename", R + "cvrp/env.py", "selected_demand", "sel", None, count=99),
    V("C04", "eq-op-explicit-dim", R + "op/env.py", "(current_loc - previus_loc).norm(p=2, dim=-1)", "(current_loc - previus_loc).norm(p=2, dim=(-1,))", None),
    V("C04", "eq-fjsp-any-dim1", "rl4co/envs/scheduling/fjsp/env.py", 'td["job_in_process"].any(1, keepdims=True)', 'td["job_in_process"].any(dim=1, keepdims=True)', None),
]

CORPUS += [
    # ---------------------------------------------------------------- C05 (extra constraints / alternatives)
    V("C05", "mtvrp-dist-limit-ignores-open-route", R + "mtvrp/env.py", 'td["current_route_length"] + d_ij + (d_j0 * ~td["open_route"])', 'td["current_route_length"] + d_ij + d_j0', "C05.b"),
    V("C05", "ffsp-wait-alternative-dropped", S_ + "ffsp/env.py", "wait_allowed = job_in_previous_stages + job_waiting_in_stage + done", "wait_allowed = job_in_previous_stages + done", "C05.c"),
    V("C05", "cvrp-depot-always-blocked-while-customers", R + "cvrp/env.py", 'mask_depot = (td["current_node"] == 0) & ((mask_loc == 0).int().sum(-1) > 0)[', 'mask_depot = (td["current_node"] >= 0) & ((mask_loc == 0).int().sum(-1) > 0)[', "C05"),
    V("C05", "cvrp-extra-constraint-half-capacity", R + "cvrp/env.py", 'mask_loc = td["visited"][..., 1:].to(exceeds_cap.dtype) | exceeds_cap', 'mask_loc = td["visited"][..., 1:].to(exceeds_cap.dtype) | exceeds_cap | (td["demand"] > 0.5 * td["vehicle_capacity"])', "C05.b"),
    V("C05", "pctsp-depot-only-when-all-visited", R + "pctsp/env.py", '''        mask[..., 0] = (td["cur_total_prize"] < 1.0) & (
            td["visited"][..., 1:].int().sum(-1) < td["visited"][..., 1:].size(-1)
        )''', '''        mask[..., 0] = (
            td["visited"][..., 1:].int().sum(-1) < td["visited"][..., 1:].size(-1)
        )''', "C05.c"),
    V("C05", "fjsp-machine-eligibility-on-wrong-op", S_ + "fjsp/env.py", "        action_mask.add_(next_ops_proc_times == 0)\n", '        action_mask.add_(next_ops_proc_times == 0)\n        action_mask.add_(td["busy_until"].sum(-1)[:, None, None] > 1e9)\n', "C05.b"),
]

E_ = "rl4co/envs/eda/"
CORPUS += [
    # ---------------------------------------------------------------- C08
    V("C08", "mdpp-gen-probe-left-open", "rl4co/envs/eda/mdpp/generator.py", 'available.scatter_(1, probe, False)', 'available.scatter_(1, probe, True)', 'C08.f'),
    V("C08", "dpp-gen-probe-left-open", "rl4co/envs/eda/dpp/generator.py", 'available.scatter_(1, probe, False)', 'available.scatter_(1, probe, True)', 'C08.f'),
    V("C08", "mdpp-gen-probes-left-open", "rl4co/envs/eda/mdpp/generator.py", 'available[i] = a.scatter(0, p, False)', 'available[i] = a.scatter(0, p, True)', 'C08.f'),
    V("C08", "mdpp-gen-probe-map-empty", "rl4co/envs/eda/mdpp/generator.py", 'probes[i] = probes[i].scatter(0, p, True)', 'probes[i] = probes[i].scatter(0, p, False)', 'C08.f'),
    V("C08", "dpp-gen-keepout-not-closed", "rl4co/envs/eda/dpp/generator.py", 'available[i] = a.scatter(0, k, False)', 'available[i] = a', 'C08.f'),
    V("C08", "eq-dpp-gen-scatter-kw", "rl4co/envs/eda/dpp/generator.py", 'available.scatter_(1, probe, False)', 'available.scatter_(dim=1, index=probe, value=False)', None),
    V("C08", "flp-done-off-by-one", G_ + "flp/env.py", 'done = td["i"] >= (td["to_choose"] - 1)', 'done = td["i"] >= td["to_choose"]', "C08.a"),
    V("C08", "mcp-done-strict", G_ + "mcp/env.py", 'done = td["i"].reshape(batch_size, 1) >= (td["n_sets_to_choose"] - 1)', 'done = td["i"].reshape(batch_size, 1) > (td["n_sets_to_choose"] - 1)', "C08.a"),
    V("C08", "dpp-counter-double-increment", E_ + "dpp/env.py", '"i": td["i"] + 1,', '"i": td["i"] + 2,', "C08.a"),
    V("C08", "flp-mask-from-old-chosen", G_ + "flp/env.py", "        action_mask = ~chosen\n", '        action_mask = ~td["chosen"]\n', "C08.b"),
    V("C08", "mcp-chosen-not-cloned-overwrite", G_ + "mcp/env.py", "chosen[torch.arange(batch_size).to(td.device), selected] |= still_choosing", "chosen = torch.zeros_like(chosen); chosen[torch.arange(batch_size).to(td.device), selected] |= still_choosing", "C08.b"),
    V("C08", "mcp-padding-steps-keep-selecting", G_ + "mcp/env.py", "chosen[torch.arange(batch_size).to(td.device), selected] |= still_choosing", "chosen[torch.arange(batch_size).to(td.device), selected] = True", "C08.h"),
    V("C08", "flp-padding-steps-keep-selecting", G_ + "flp/env.py", "chosen[torch.arange(batch_size).to(td.device), selected] |= still_choosing", "chosen[torch.arange(batch_size).to(td.device), selected] = True", "C08.h"),
    V("C08", "mcp-selection-frozen-for-running-rows", G_ + "mcp/env.py", 'still_choosing = ~td["done"].reshape(batch_size, -1)[:, 0]', 'still_choosing = td["done"].reshape(batch_size, -1)[:, 0]', "C08"),
    V("C08", "eq-mcp-freeze-through-where", G_ + "mcp/env.py", "chosen[torch.arange(batch_size).to(td.device), selected] |= still_choosing", "chosen[torch.arange(batch_size).to(td.device), selected] = chosen[torch.arange(batch_size).to(td.device), selected] | still_choosing", None),
    V("C08", "dpp-mask-reopens", E_ + "dpp/env.py", '-1, current_node.unsqueeze(-1).expand_as(td["action_mask"]), 0\n', '-1, current_node.unsqueeze(-1).expand_as(td["action_mask"]), 1\n', "C08.b"),
    V("C08", "mdpp-probe-not-excluded", E_ + "mdpp/env.py", 'action_mask = torch.logical_and(td_reset["action_mask"], ~td_reset["probe"])', 'action_mask = td_reset["action_mask"]', "C08.c"),
    V("C08", "mdpp-probe-polarity", E_ + "mdpp/env.py", 'action_mask = torch.logical_and(td_reset["action_mask"], ~td_reset["probe"])', 'action_mask = torch.logical_and(td_reset["action_mask"], td_reset["probe"])', "C08.c"),
    V("C08", "dpp-reset-ignores-keepout", E_ + "dpp/env.py", '"action_mask": td["action_mask"],', '"action_mask": torch.ones_like(td["action_mask"]),', "C08.c"),
    V("C08", "flp-distances-from-mutated", G_ + "flp/env.py", 'orig_distances = td["orig_distances"]  # (batch_size, n_points, n_points)', 'orig_distances = td["distances"]  # (batch_size, n_points, n_points)', "C08.d"),
    V("C08", "mcp-weights-from-old-selection", G_ + "mcp/env.py", 'chosen_membership = chosen.unsqueeze(-1) * td["membership"]\n        chosen_membership_nonzero', 'chosen_membership = td["chosen"].unsqueeze(-1) * td["membership"]\n        chosen_membership_nonzero', "C08.d"),
    V("C08", "eq-flp-mask-logical-not", G_ + "flp/env.py", "        action_mask = ~chosen\n", "        action_mask = torch.logical_not(chosen)\n", None),
    V("C08", "eq-dpp-done-rearranged", E_ + "dpp/env.py", 'done = td["i"] >= self.max_decaps - 1', 'done = td["i"] + 1 >= self.max_decaps', None),
]

FJ_ = S_ + "fjsp/env.py"
CORPUS += [
    # ---------------------------------------------------------------- C07
    V("C07", "smtwtp-mask-sized-from-config", "rl4co/envs/scheduling/smtwtp/env.py", '(*batch_size, init_job_due_time.shape[-1])', '(*batch_size, self.generator.num_job + 1)', 'C07.i'),
    V("C07", "ffsp-stage-index-as-machine", "rl4co/envs/scheduling/ffsp/env.py", 'new_machine_idx = self.tables.get_machine_index(idx, new_sub_time_idx)', 'new_machine_idx = self.tables.get_stage_machine_index(idx, new_sub_time_idx)', 'C07.h'),
    V("C07", "ffsp-machine-index-as-stage-machine", "rl4co/envs/scheduling/ffsp/env.py", 'self.tables.get_stage_machine_index(batch_idx, sub_time_idx)', 'self.tables.get_machine_index(batch_idx, sub_time_idx)', 'C07.h'),
    V("C07", "fjsp-busy-until-wrong-proc-time", FJ_, 'td["busy_until"][batch_idx, selected_machine] = td["time"] + proc_time_of_action', 'td["busy_until"][batch_idx, selected_machine] = td["time"] + td["proc_times"][batch_idx, selected_machine].max(-1).values', "C07.b"),
    V("C07", "fjsp-finish-on-wrong-index", FJ_, 'td["finish_times"][batch_idx, selected_op] = td["time"] + proc_time_of_action', 'td["finish_times"][batch_idx, selected_job] = td["time"] + proc_time_of_action', "C07.b"),
    V("C07", "fjsp-proc-time-swapped-index", FJ_, 'proc_time_of_action = td["proc_times"][batch_idx, selected_machine, selected_op]', 'proc_time_of_action = td["proc_times"][batch_idx, selected_op, selected_machine]', "C07.b"),
    V("C07", "fjsp-decode-div-mod-swapped", FJ_, 'selected_job = td["action"] // self.num_mas', 'selected_job = td["action"] % self.num_mas', "C07.c"),
    V("C07", "fjsp-decode-by-num-jobs", FJ_, 'selected_machine = td["action"] % self.num_mas', 'selected_machine = td["action"] % self.num_jobs', "C07.c"),
    V("C07", "fjsp-flatten-m-j", FJ_, '"bs j m -> bs (j m)"', '"bs j m -> bs (m j)"', "C07.c"),
    V("C07", "fjsp-no-action-shift", FJ_, '        td["action"].subtract_(1)\n', '', "C07.c"),
    V("C07", "fjsp-release-strict", FJ_, '(curr_ops_end <= td["time"][:, None])', '(curr_ops_end < td["time"][:, None])', "C07.d"),
    V("C07", "fjsp-time-nonstrict-advance", FJ_, 'available_time_ma > td["time"][:, None], available_time_ma, torch.inf', 'available_time_ma >= td["time"][:, None], available_time_ma, torch.inf', "C07.d"),
    V("C07", "fjsp-next-op-past-last", FJ_, "            op_finished & ~job_finished,\n", "            op_finished,\n", "C07.d"),
    V("C07", "fjsp-avail-ignores-in-process", FJ_, '        action_mask.add_(td["job_in_process"].unsqueeze(2))\n', '', "C07.a"),
    V("C07", "fjsp-avail-ignores-busy", FJ_, '        action_mask.add_(td["busy_until"].gt(td["time"].unsqueeze(1)).unsqueeze(1))\n', '', "C07.a"),
    V("C07", "ffsp-wait-counters-differ", S_ + "ffsp/env.py", 'td["job_wait_step"][batch_idx, job_idx] = job_length', 'td["job_wait_step"][batch_idx, job_idx] = job_length - 1', "C07.e"),
    V("C07", "ffsp-schedule-index-swapped", S_ + "ffsp/env.py", 'td["schedule"][batch_idx, machine_idx, job_idx] = time_idx', 'td["schedule"][batch_idx, job_idx, machine_idx] = time_idx', "C07.e"),
    V("C07", "ffsp-duration-index-swapped", S_ + "ffsp/env.py", 'job_length = td["job_duration"][batch_idx, job_idx, machine_idx]', 'job_length = td["job_duration"][batch_idx, machine_idx, job_idx]', "C07.e"),
    V("C07", "ffsp-job-offered-while-waiting", S_ + "ffsp/env.py", "job_available = job_in_stage & job_not_waiting", "job_available = job_in_stage", "C07.a"),
    V("C07", "smtwtp-dummy-open", S_ + "smtwtp/env.py", "        available[:, 0] = 0  # mask the starting dummy node\n", "", "C07.e"),
    V("C07", "l2d-flatten-m-j", "rl4co/models/zoo/l2d/decoder.py", '"b m j -> b (j m)"', '"b m j -> b (m j)"', "C07.c"),
    V("C07", "eq-fjsp-gt-operator", FJ_, 'td["busy_until"].gt(td["time"].unsqueeze(1))', '(td["busy_until"] > td["time"].unsqueeze(1))', None),
    V("C07", "eq-fjsp-rename-p", FJ_, "proc_time_of_action", "p_sel", None, count=99),
    V("C07", "eq-fjsp-release-flipped", FJ_, '(curr_ops_end <= td["time"][:, None])', '(td["time"][:, None] >= curr_ops_end)', None),
]

CORPUS += [
    V("C07", "fjsp-release-against-next-release-time", FJ_, '(curr_ops_end <= td["time"][:, None])', '(curr_ops_end <= available_time[:, None])', "C07.d"),
    V("C07", "fjsp-job-finished-or", FJ_, 'job_finished = op_finished & (td["next_op"] == end_op_per_job)', 'job_finished = op_finished | (td["next_op"] == end_op_per_job)', "C07.d"),
    V("C07", "fjsp-job-finished-any-op", FJ_, 'job_finished = op_finished & (td["next_op"] == end_op_per_job)', 'job_finished = op_finished', "C07.d"),
    V("C07", "fjsp-job-finished-not-last", FJ_, 'job_finished = op_finished & (td["next_op"] == end_op_per_job)', 'job_finished = op_finished & (td["next_op"] != end_op_per_job)', "C07.d"),
    V("C07", "fjsp-job-done-forgets", FJ_, 'td["job_done"] = td["job_done"] + job_finished', 'td["job_done"] = job_finished', "C07.d"),
    V("C07", "fjsp-job-done-and", FJ_, 'td["job_done"] = td["job_done"] + job_finished', 'td["job_done"] = td["job_done"] & job_finished', "C07.d"),
    V("C07", "eq-fjsp-job-done-or", FJ_, 'td["job_done"] = td["job_done"] + job_finished', 'td["job_done"] = job_finished | td["job_done"]', None),
    V("C07", "eq-fjsp-job-finished-swapped", FJ_, 'job_finished = op_finished & (td["next_op"] == end_op_per_job)', 'job_finished = (end_op_per_job == td["next_op"]) & op_finished', None),
    V("C07", "fjsp-wait-applied-to-finished-only", S_ + "fjsp/env.py", 'no_op = no_op & ~dones', 'no_op = no_op & dones', 'C07.g'),
    V("C07", "fjsp-transit-for-all-unfinished", S_ + "fjsp/env.py", 'no_op = no_op & ~dones', 'no_op = no_op | ~dones', 'C07.g'),
    V("C07", "fjsp-step-for-waiting-rows", S_ + "fjsp/env.py", 'req_op = ~no_op & ~dones', 'req_op = no_op & ~dones', 'C07.g'),
    V("C07", "fjsp-step-for-finished-rows", S_ + "fjsp/env.py", 'req_op = ~no_op & ~dones', 'req_op = ~no_op', 'C07.g'),
    V("C07", "fjsp-step-or-unfinished", S_ + "fjsp/env.py", 'req_op = ~no_op & ~dones', 'req_op = ~no_op | ~dones', 'C07.g'),
    V("C07", "fjsp-write-back-other-rows", S_ + "fjsp/env.py", 'td[req_op] = td_op', 'td[~no_op] = td_op', 'C07.g'),
    V("C07", "eq-fjsp-wait-mask-without-dones", S_ + "fjsp/env.py", '        no_op = no_op & ~dones\n', '', None),
    V("C07", "eq-fjsp-dispatch-ne", S_ + "fjsp/env.py", 'req_op = ~no_op & ~dones', 'req_op = td["action"].ne(NO_OP_ID) & ~dones', None),
    V("C07", "fjsp-makespan-sentinel-mask", FJ_, '-td["finish_times"].masked_fill(td["pad_mask"], -torch.inf).max(1).values', '-td["finish_times"].masked_fill(td["finish_times"] >= 9999, -torch.inf).max(1).values', "C07.f"),
]

CORPUS += [
    V("C02", "cvrp-cap-ge-starves-full-demand", R + "cvrp/env.py", 'td["demand"] + td["used_capacity"] > td["vehicle_capacity"]', 'td["demand"] + td["used_capacity"] >= td["vehicle_capacity"]', "C02.f"),
    V("C04", "fjsp-release-against-unmasked-candidate", FJ_, '(curr_ops_end <= td["time"][:, None])', '(curr_ops_end <= available_time[:, None])', "C04.b"),
    V("C04", "fjsp-clock-not-row-masked", FJ_, 'td["time"] = torch.where(step_complete, available_time, td["time"])', 'td["time"] = torch.where(available_time.isinf(), td["time"], available_time)', "C04.b"),
    V("C06", "sdvrp-checker-reset-before-delivery", R + "sdvrp/env.py", '''            d = torch.min(demands[rng, a], td["vehicle_capacity"].squeeze(-1) - used_cap)
            demands[rng, a] -= d
            used_cap += d
            used_cap[a == 0] = 0''', '''            used_cap[a == 0] = 0
            d = torch.min(demands[rng, a], td["vehicle_capacity"].squeeze(-1) - used_cap)
            demands[rng, a] -= d
            used_cap += d''', "C06.e"),
    V("C06", "cvrptw-checker-time-reset-dropped", R + "cvrptw/env.py", "            curr_time[curr_node == 0] = 0.0  # reset time for depot\n", "", "C06.e"),
]

CORPUS += [
    V("C04", "mtvrp-checker-limit-unsqueezed-broadcast", R + "mtvrp/env.py", 'curr_length <= td["distance_limit"].squeeze(-1)', 'curr_length <= td["distance_limit"]', "C04.a"),
    V("C04", "eq-mtvrp-checker-limit-indexed", R + "mtvrp/env.py", 'curr_length <= td["distance_limit"].squeeze(-1)', 'curr_length <= td["distance_limit"][:, 0]', None),
]

CORPUS += [
    V("C06", "mtvrp-checker-limit-unsqueezed-broadcast", R + "mtvrp/env.py", 'curr_length <= td["distance_limit"].squeeze(-1)', 'curr_length <= td["distance_limit"]', "C06.f"),
    V("C06", "cvrptw-row0-deadline-again", R + "cvrptw/env.py", '<= td["time_windows"][..., 0, 1, None]', '<= td["time_windows"][..., 0, 1][0]', "C06.f"),
]

TSPE = R + "tsp/env.py"
PDPE = R + "pdp/env.py"
CORPUS += [
    # ---------------------------------------------------------------- C09
    V("C09", "ruinrepair-visit-order-without-modulus", "rl4co/envs/routing/pdp/env.py", '        visited_time = visited_time % gs\n        arange = torch.arange(bs)\n\n        visited_order_map', '        arange = torch.arange(bs)\n\n        visited_order_map', 'C09.h'),
    V("C09", "kopt-reset-best-aliases-current", TSPE, '"rec_best": current_rec.clone(),', '"rec_best": current_rec,', "C09.a"),
    V("C09", "kopt-reset-cost-bsf-alias", TSPE, '"cost_bsf": obj.clone(),', '"cost_bsf": obj,', "C09.a"),
    V("C09", "kopt-local-operator-in-place", TSPE, "    def _local_operator(self, solution, action):\n        rec = solution.clone()", "    def _local_operator(self, solution, action):\n        rec = solution", "C09.a"),
    V("C09", "kopt-solution-to-not-cloned", TSPE, "            next_rec = solution_to.clone()", "            next_rec = solution_to", "C09.a"),
    V("C09", "kopt-bsf-nonstrict", TSPE, "now_bsf = torch.where(new_obj < cost_bsf, new_obj, cost_bsf)", "now_bsf = torch.where(new_obj < cost_bsf, cost_bsf, new_obj)", "C09.b"),
    V("C09", "kopt-reward-sign", TSPE, "        reward = cost_bsf - now_bsf\n        index = reward > 0.0\n        solution_best[index] = next_rec[index].clone()\n\n        # reset visited_time\n        visited_time = td[\"visited_time\"] * 0\n        pre = torch.zeros((bs), device=visited_time.device).long()\n        arange = torch.arange(bs)\n        for i in range(gs):\n            current_nodes = next_rec[arange, pre]\n            visited_time[arange, current_nodes] = i + 1\n            pre = current_nodes\n        visited_time = visited_time.long()",
      "        reward = now_bsf - cost_bsf\n        index = reward > 0.0\n        solution_best[index] = next_rec[index].clone()\n\n        # reset visited_time\n        visited_time = td[\"visited_time\"] * 0\n        pre = torch.zeros((bs), device=visited_time.device).long()\n        arange = torch.arange(bs)\n        for i in range(gs):\n            current_nodes = next_rec[arange, pre]\n            visited_time[arange, current_nodes] = i + 1\n            pre = current_nodes\n        visited_time = visited_time.long()", "C09.b"),
    V("C09", "pdp-best-update-vs-current-cost", PDPE, "        index = reward > 0.0\n", '        index = new_obj < td["cost_current"]\n', "C09.b"),
    V("C09", "pdp-cost-of-old-tour", PDPE, "        new_obj = self.get_costs(locs, next_rec)\n", '        new_obj = self.get_costs(locs, td["rec_current"])\n', "C09"),
    V("C09", "kopt-visited-time-from-old-tour", TSPE, "            current_nodes = next_rec[arange, pre]\n            visited_time[arange, current_nodes] = i + 1\n            pre = current_nodes\n        visited_time = visited_time.long()\n\n        # Update step", '            current_nodes = td["rec_current"][arange, pre]\n            visited_time[arange, current_nodes] = i + 1\n            pre = current_nodes\n        visited_time = visited_time.long()\n\n        # Update step', "C09.d"),
    V("C09", "pdp-stale-argsort", PDPE, "        rec.scatter_(1, pair_index, pair_index)\n\n        argsort = rec.argsort()\n", "        rec.scatter_(1, pair_index, pair_index)\n", "C09.f"),
    V("C09", "kopt-two-opt-walk-too-short", TSPE, "            for i in range(self.generator.num_loc):\n                cur_next = solution.gather(1, cur)", "            for i in range(self.generator.num_loc - 2):\n                cur_next = solution.gather(1, cur)", "C09.g"),
    V("C09", "dact-decode-mismatch", "rl4co/models/zoo/dact/policy.py", "action_sampled % seq_length,", "action_sampled % (seq_length - 1),", "C09.e"),
    V("C09", "get-costs-sum-wrong-axis", "rl4co/envs/common/base.py", "length = (d1 - d2).norm(p=2, dim=2).sum(1)", "length = (d1 - d2).norm(p=2, dim=1).sum(1)", "C09.c"),
    V("C09", "eq-kopt-rename", TSPE, "now_bsf", "best_now", None, count=99),
    V("C09", "eq-kopt-where-flipped", TSPE, "now_bsf = torch.where(new_obj < cost_bsf, new_obj, cost_bsf)", "now_bsf = torch.where(cost_bsf > new_obj, new_obj, cost_bsf)", None),
]

DECP = "rl4co/utils/decoding.py"
CORPUS += [
    # ---------------------------------------------------------------- C10
    V("C10", "mask-before-tanh", DECP, '''    # Tanh clipping from Bello et al. 2016
    if tanh_clipping > 0:
        logits = torch.tanh(logits) * tanh_clipping

    # In RL, we want to mask the logits to prevent the agent from selecting infeasible actions
    if mask_logits:
        assert mask is not None, "mask must be provided if mask_logits is True"
        logits[~mask] = float("-inf")
''', '''    # In RL, we want to mask the logits to prevent the agent from selecting infeasible actions
    if mask_logits:
        assert mask is not None, "mask must be provided if mask_logits is True"
        logits = logits.masked_fill(~mask, float("-inf"))

    # Tanh clipping from Bello et al. 2016
    if tanh_clipping > 0:
        logits = torch.tanh(logits) * tanh_clipping
''', "C10.a"),
    V("C10", "mask-after-topk", DECP, '''    if mask_logits:
        assert mask is not None, "mask must be provided if mask_logits is True"
        logits[~mask] = float("-inf")

    logits = logits / temperature  # temperature scaling

    if top_k > 0:
        top_k = min(top_k, logits.size(-1))  # safety check
        logits = modify_logits_for_top_k_filtering(logits, top_k)
''', '''    logits = logits / temperature  # temperature scaling

    if top_k > 0:
        top_k = min(top_k, logits.size(-1))  # safety check
        logits = modify_logits_for_top_k_filtering(logits, top_k)

    if mask_logits:
        assert mask is not None, "mask must be provided if mask_logits is True"
        logits[~mask] = float("-inf")
''', "C10.a"),
    V("C10", "mask-fill-zero", DECP, '        logits[~mask] = float("-inf")\n', "        logits[~mask] = 0.0\n", "C10.b"),
    V("C10", "mask-polarity", DECP, '        logits[~mask] = float("-inf")\n', '        logits[mask] = float("-inf")\n', "C10.b"),
    V("C10", "topk-nonstrict", DECP, "indices_to_remove = logits < torch.topk(logits, top_k)[0][..., -1, None]", "indices_to_remove = logits <= torch.topk(logits, top_k)[0][..., -1, None]", "C10.b"),
    V("C10", "topk-first-instead-of-kth", DECP, "torch.topk(logits, top_k)[0][..., -1, None]", "torch.topk(logits, top_k)[0][..., 0, None]", "C10.b"),
    V("C10", "topp-descending", DECP, "torch.sort(logits, descending=False)", "torch.sort(logits, descending=True)", "C10.b"),
    V("C10", "topp-strict", DECP, "sorted_indices_to_remove = cumulative_probs <= (1 - top_p)", "sorted_indices_to_remove = cumulative_probs <= top_p", "C10.b"),
    V("C10", "topp-fill-zero", DECP, '    return logits.masked_fill(indices_to_remove, float("-inf"))\n\n\ndef process_logits(', "    return logits.masked_fill(indices_to_remove, 0.0)\n\n\ndef process_logits(", "C10.b"),
    V("C10", "softmax-wrong-dim", DECP, "return F.log_softmax(logits, dim=-1)", "return F.log_softmax(logits, dim=0)", "C10.a"),
    V("C10", "greedy-argmin", DECP, "selected = logprobs.argmax(dim=-1)", "selected = logprobs.argmin(dim=-1)", "C10.c"),
    V("C10", "sampling-from-logprobs", DECP, "probs = logprobs.exp()", "probs = logprobs.abs()", "C10.c"),
    V("C10", "greedy-guard-removed", DECP, '''        if mask is not None:
            assert (
                not (~mask).gather(1, selected.unsqueeze(-1)).data.any()
            ), "infeasible action selected"

        return selected

    @staticmethod
    def sampling''', '''        return selected

    @staticmethod
    def sampling''', "C10.c"),
    V("C10", "step-swaps-topk-topp", DECP, "            top_p=self.top_p,\n            top_k=self.top_k,", "            top_p=self.top_k,\n            top_k=self.top_p,", "C10.d"),
    V("C10", "step-drops-mask", DECP, "        logprobs = process_logits(\n            logits,\n            mask,", "        logprobs = process_logits(\n            logits,\n            None,", "C10.d"),
    V("C10", "eq-mask-out-of-place", DECP, '        logits[~mask] = float("-inf")\n', '        logits = logits.masked_fill(~mask, float("-inf"))\n', None),
    V("C10", "eq-topk-flipped", DECP, "indices_to_remove = logits < torch.topk(logits, top_k)[0][..., -1, None]", "indices_to_remove = torch.topk(logits, top_k)[0][..., -1, None] > logits", None),
    V("C10", "eq-rename", DECP, "indices_to_remove", "drop", None, count=99),
]

CPB = "rl4co/models/common/constructive/base.py"
PPOF = "rl4co/models/rl/ppo/ppo.py"
CORPUS += [
    # ---------------------------------------------------------------- C11
    V("C11", "l2d-act-temperature-only", "rl4co/models/zoo/l2d/policy.py", '        logits, mask = self.decoder(td, hidden=None, num_starts=0)\n        logprobs = process_logits(logits, mask, tanh_clipping=self.tanh_clipping)', '        logits, mask = self.decoder(td, hidden=None, num_starts=0)\n        logprobs = process_logits(logits, mask, temperature=self.temperature, tanh_clipping=self.tanh_clipping)', 'C11.g'),
    V("C11", "mdam-scores-not-normalised", "rl4co/models/zoo/mdam/decoder.py", "        if normalize:\n            logprobs = F.log_softmax(logprobs, dim=-1)\n", "", "C11.f"),
    V("C11", "ptrnet-scores-not-normalised", "rl4co/models/zoo/ptrnet/decoder.py", "log_p = torch.log_softmax(logits, dim=1)", "log_p = logits", "C11.f"),
    V("C11", "ptrnet-temperature-after-normalisation", "rl4co/models/zoo/ptrnet/decoder.py", "log_p = torch.log_softmax(logits, dim=1)", "log_p = torch.log_softmax(logits, dim=1) / 2.0", "C11.f"),
    V("C11", "eq-ptrnet-log-softmax-method", "rl4co/models/zoo/ptrnet/decoder.py", "log_p = torch.log_softmax(logits, dim=1)", "log_p = logits.log_softmax(dim=1)", None),
    V("C11", "eq-mdam-log-softmax-torch", "rl4co/models/zoo/mdam/decoder.py", "logprobs = F.log_softmax(logprobs, dim=-1)", "logprobs = torch.log_softmax(logprobs, dim=-1)", None),
    V("C11", "step-append-only-actions-when-storing-all", DECP, "        self.actions.append(selected_action)\n        self.logprobs.append(logprobs)\n        return td", "        self.actions.append(selected_action)\n        if not self.store_all_logp:\n            self.logprobs.append(logprobs)\n        return td", "C11.a"),
    V("C11", "step-gather-with-given-action", DECP, "logprobs = gather_by_index(logprobs, selected_action, dim=1)", "logprobs = gather_by_index(logprobs, action if action is not None else selected_action, dim=1)", "C11.b"),
    V("C11", "step-unprocessed-logits", DECP, "        logprobs, selected_action, td = self._step(\n            logprobs, mask, td, action=action, **kwargs\n        )", "        logprobs, selected_action, td = self._step(\n            logits, mask, td, action=action, **kwargs\n        )", "C11.b"),
    V("C11", "ll-gather-wrong-axis", DECP, "logprobs = logprobs.gather(-1, actions.unsqueeze(-1)).squeeze(-1)", "logprobs = logprobs.gather(1, actions.unsqueeze(-1)).squeeze(-1)", "C11.b"),
    V("C11", "ll-mask-polarity", DECP, "        logprobs[~mask] = 0\n", "        logprobs[mask] = 0\n", "C11.b"),
    V("C11", "ll-sum-wrong-axis", DECP, "        return logprobs.sum(1)  # [batch]", "        return logprobs.sum(0)  # [batch]", "C11.b"),
    V("C11", "forced-start-nonzero-logprob", DECP, "logprobs = torch.zeros_like(action, device=td.device)  # [B]", "logprobs = torch.ones_like(action, device=td.device)  # [B]", "C11.d"),
    V("C11", "replay-step-double-increment", CPB, "            step += 1\n            if step > max_steps:", "            step += 1\n            step += 1\n            if step > max_steps:", "C11.c"),
    V("C11", "replay-increment-before-step", CPB, '''            logits, mask = self.decoder(td, hidden, num_starts)
            td = decode_strategy.step(''', '''            logits, mask = self.decoder(td, hidden, num_starts)
            step += 1
            td = decode_strategy.step(''', "C11.c"),
    V("C11", "replay-index-first-axis", CPB, "action=actions[..., step] if actions is not None else None,", "action=actions[step] if actions is not None else None,", "C11.c"),
    V("C11", "ppo-ratio-sign", PPOF, 'ratio = torch.exp(ll.sum(dim=-1) - sub_td["logprobs"]).view(', 'ratio = torch.exp(sub_td["logprobs"] - ll.sum(dim=-1)).view(', "C11.e"),
    V("C11", "ppo-old-ll-with-grad", PPOF, "        with torch.no_grad():\n            td = self.env.reset(batch)  # note: clone needed for dataloader\n            out = self.policy(td.clone(), self.env, phase=phase)", "        td = self.env.reset(batch)  # note: clone needed for dataloader\n        out = self.policy(td.clone(), self.env, phase=phase)", "C11.e"),
    V("C11", "ppo-replay-without-actions", PPOF, '                        actions=sub_td["action"],\n', "", "C11.e"),
    V("C11", "evaluate-ignores-action", DECP, '        """The action is provided externally, so we just return the action"""\n        selected = action', '        """The action is provided externally, so we just return the action"""\n        selected = logprobs.argmax(-1)', "C11.c"),
    V("C11", "eq-rename-selected", DECP, "selected_action", "chosen", None, count=99),
]

OPSF = "rl4co/utils/ops.py"
CORPUS += [
    # ---------------------------------------------------------------- C12
    V("C12", "nar-row-index-instance-major", "rl4co/models/common/constructive/nonautoregressive/decoder.py", "        return batchify(arr, num_starts)", "        return arr.repeat_interleave(num_starts)", "C12.a"),
    V("C12", "batchify-b-major", OPSF, "return x.expand(repeats, *s).contiguous().view(s[0] * repeats, *s[1:])", "return x.unsqueeze(1).expand(s[0], repeats, *s[1:]).contiguous().view(s[0] * repeats, *s[1:])", "C12.a"),
    V("C12", "unbatchify-view-swapped", OPSF, "return x.view(repeats, s[0] // repeats, *s[1:]).permute(1, 0, *range(2, len(s) + 1))", "return x.view(s[0] // repeats, repeats, *s[1:])", "C12.a"),
    V("C12", "unbatchify-loop-not-reversed", OPSF, "    for s in reversed(\n        shape\n    ):  # we need to reverse the shape to unbatchify in the right order", "    for s in shape:", "C12.a"),
    V("C12", "start-nodes-repeat", OPSF, "            torch.arange(num_starts, device=td.device).repeat_interleave(td.shape[0])\n            % (num_nodes - 1)\n            + 1", "            torch.arange(num_starts, device=td.device).repeat(td.shape[0])\n            % (num_nodes - 1)\n            + 1", "C12.a"),
    V("C12", "op-resample-pattern-b-major", OPSF, '                selected = rearrange(selected, "b n -> (n b)")', '                selected = rearrange(selected, "b n -> (b n)")', "C12.a"),
    V("C12", "am-decoder-logits-b-major", "rl4co/models/zoo/am/decoder.py", 'logits = rearrange(logits, "b s l -> (s b) l", s=num_starts)', 'logits = rearrange(logits, "b s l -> (b s) l", s=num_starts)', "C12.a"),
    V("C12", "symnco-invariance-b-major-again", "rl4co/models/zoo/symnco/losses.py", '"(a b) ... -> b a ..."', '"(b a) ... -> b a ..."', "C12.a"),
    V("C12", "select-best-other-factor", DECP, "        logprobs = unbatchify_and_gather(logprobs, max_idxs, self.num_starts)", "        logprobs = unbatchify_and_gather(logprobs, max_idxs, max_idxs.shape[0])", "C12"),
    V("C12", "pomo-ll-other-tuple", "rl4co/models/zoo/pomo/model.py", 'log_likelihood = unbatchify(out["log_likelihood"], (n_aug, n_start))', 'log_likelihood = unbatchify(out["log_likelihood"], (n_start, n_aug))', "C12.b"),
    V("C12", "eval-aug-gather-axis", "rl4co/tasks/eval.py", "        rewards = unbatchify(rewards, num_augment)\n        actions = unbatchify(out[\"actions\"], num_augment)\n\n        # Get best reward and corresponding action\n        rewards, max_idxs = rewards.max(dim=1)\n        actions = gather_by_index(actions, max_idxs, dim=1)", "        rewards = unbatchify(rewards, num_augment)\n        actions = unbatchify(out[\"actions\"], num_augment)\n\n        # Get best reward and corresponding action\n        rewards, max_idxs = rewards.max(dim=1)\n        actions = gather_by_index(actions, max_idxs, dim=2)", "C12.c"),
    V("C12", "eval-multistart-factor-mismatch", "rl4co/tasks/eval.py", "        rewards = unbatchify(rewards, self.num_starts * num_augment)", "        rewards = unbatchify(rewards, self.num_starts)", "C12.b"),
    # since the F13 repair the start index wraps modulo (mask width - 1): an uncounted dummy node only repeats one start, it no longer leaves the mask
    V("C12", "eq-smtwtp-not-counted-wraps", OPSF, '"pctsp", "spctsp", "smtwtp"]', '"pctsp", "spctsp"]', None),
    V("C12", "start-modulus-from-generator-config", OPSF, '    num_nodes = td["action_mask"].shape[-1]\n', '    num_nodes = env.generator.num_loc + 1\n', "C12.d"),
    V("C12", "depot-branch-modulus-full-width", OPSF, "            % (num_nodes - 1)\n            + 1", "            % num_nodes\n            + 1", "C12.d"),
    V("C12", "mtvrp-start-modulus-from-generator", R + "mtvrp/env.py", '        num_loc = td["locs"].shape[-2] - 1\n        selected = (', '        num_loc = self.generator.num_loc\n        selected = (', "C12.d"),
    V("C12", "pdp-start-includes-deliveries", "rl4co/envs/routing/pdp/env.py", "            % num_possible_starts\n            + 1", "            % (2 * num_possible_starts)\n            + 1", "C12.d"),
    V("C12", "eq-ops-rename", OPSF, "selected", "picked", None, count=99),
]

CORPUS += [
    # ---------------------------------------------------------------- C13
    V("C13", "beam-temperature-dropped", "rl4co/utils/decoding.py", '        kwargs["store_all_logp"] = True\n        super().__init__(**kwargs)', '        kwargs["store_all_logp"] = True\n        kwargs.pop("temperature", None)\n        super().__init__(**kwargs)', 'C13.f'),
    V("C13", "beam-temperature-overwritten", "rl4co/utils/decoding.py", '        kwargs["store_all_logp"] = True\n        super().__init__(**kwargs)', '        kwargs["store_all_logp"] = True\n        kwargs["temperature"] = 1.0\n        super().__init__(**kwargs)', 'C13.f'),
    V("C13", "beam-idx-parent-times-width", DECP, "        batch_beam_idx = batch_beam_sequence + beam_parent * batch_size\n", "        batch_beam_idx = batch_beam_sequence + beam_parent * self.beam_width\n", "C13.a"),
    V("C13", "beam-seq-repeat-interleave", DECP, "            torch.arange(0, batch_size).repeat(self.beam_width).to(logprobs.device)", "            torch.arange(0, batch_size).repeat_interleave(self.beam_width).to(logprobs.device)", "C13.a"),
    V("C13", "beam-decode-mod-width", DECP, "        selected = topk_ind % num_nodes  # determine node index", "        selected = topk_ind % self.beam_width  # determine node index", "C13.b"),
    V("C13", "beam-decode-swapped", DECP, "        selected = topk_ind % num_nodes  # determine node index\n\n        # calc parent this branch comes from\n        beam_parent = (topk_ind // num_nodes).int()", "        selected = topk_ind // num_nodes  # determine node index\n\n        # calc parent this branch comes from\n        beam_parent = (topk_ind % num_nodes).int()", "C13.b"),
    V("C13", "beam-hstack-split-width", DECP, "log_beam_prob_hstacked = torch.cat(log_beam_prob.split(batch_size), dim=1)", "log_beam_prob_hstacked = torch.cat(log_beam_prob.split(self.beam_width), dim=1)", "C13.b"),
    V("C13", "beam-topk-wrong-k", DECP, "            log_beam_prob_hstacked, self.beam_width, dim=1\n", "            log_beam_prob_hstacked, batch_size, dim=1\n", "C13.b"),
    V("C13", "beam-step-mask-not-reindexed", DECP, "        mask = mask[batch_beam_idx]\n", "", "C13.c"),
    V("C13", "beam-step-td-not-reindexed", DECP, "        td = td[batch_beam_idx]\n", "", "C13.c"),
    V("C13", "beam-parent-scores-not-updated", DECP, "        self.parent_beam_logprobs = logprobs_selected\n", "", "C13.d"),
    V("C13", "beam-path-append-twice", DECP, "        self.beam_path.append(beam_parent)\n\n        return selected, batch_beam_idx", "        self.beam_path.append(beam_parent)\n        self.beam_path.append(beam_parent)\n\n        return selected, batch_beam_idx", "C13.d"),
    V("C13", "backtrack-parent-not-followed", DECP, "            cur_parent = self.beam_path[k][batch_beam_idx]", "            cur_parent = self.beam_path[k]", "C13.d"),
    V("C13", "backtrack-actions-unaligned", DECP, "            reversed_aligned_sequences.append(actions[batch_beam_idx, k])", "            reversed_aligned_sequences.append(actions[:, k])", "C13.d"),
    V("C13", "backtrack-idx-times-width", DECP, "            batch_beam_idx = batch_beam_sequence + cur_parent * batch_size", "            batch_beam_idx = batch_beam_sequence + cur_parent * self.beam_width", "C13.a"),
    V("C13", "best-beam-idx-plus-one", DECP, "        flat_idx = torch.arange(batch_size, device=rewards.device) + idx * batch_size", "        flat_idx = torch.arange(batch_size, device=rewards.device) * self.beam_width + idx", "C13.e"),
    V("C13", "best-beam-td-not-gathered", DECP, "        return logprobs[flat_idx], actions[flat_idx], td[flat_idx], env", "        return logprobs[flat_idx], actions[flat_idx], td[: flat_idx.shape[0]], env", "C13.e"),
    V("C13", "eq-beam-rename", DECP, "batch_beam_sequence", "bseq", None, count=99),
    V("C13", "eq-beam-commute", DECP, "        batch_beam_idx = batch_beam_sequence + beam_parent * batch_size\n", "        batch_beam_idx = batch_size * beam_parent + batch_beam_sequence\n", None),
]

BLF = "rl4co/models/rl/reinforce/baselines.py"
RFF = "rl4co/models/rl/reinforce/reinforce.py"
SYMF = "rl4co/models/zoo/symnco/losses.py"
CORPUS += [
    # ---------------------------------------------------------------- C16
    V("C16", "entropy-under-no-grad", "rl4co/utils/ops.py", 'def calculate_entropy(', '@torch.no_grad()\ndef calculate_entropy(', 'C16.e'),
    V("C16", "log-likelihood-under-no-grad", "rl4co/utils/decoding.py", 'def get_log_likelihood(', '@torch.no_grad()\ndef get_log_likelihood(', 'C16.e'),
    V("C16", "critic-baseline-not-detached", BLF, "        return v.detach(), F.mse_loss(v, c.detach())", "        return v, F.mse_loss(v, c.detach())", "C16.a"),
    V("C16", "critic-loss-detached-value", BLF, "        return v.detach(), F.mse_loss(v, c.detach())", "        return v.detach(), F.mse_loss(v.detach(), c.detach())", "C16.a"),
    V("C16", "exponential-not-detached", BLF, "        self.v = v.detach()  # Detach since we never want to backprop", "        self.v = v  # Detach since we never want to backprop", "C16.a"),
    V("C16", "rollout-eval-with-grad", BLF, "        with torch.inference_mode():\n            reward = self.policy(td, env)[\"reward\"]\n        return reward, 0", "        reward = self.policy(td, env)[\"reward\"]\n        return reward, 0", "C16.a"),
    V("C16", "reinforce-sign", RFF, "reinforce_loss = -(advantage * log_likelihood).mean()", "reinforce_loss = (advantage * log_likelihood).mean()", "C16.b"),
    V("C16", "reinforce-advantage-reversed", RFF, "advantage = reward - bl_val  # advantage = reward - baseline", "advantage = bl_val - reward  # advantage = reward - baseline", "C16.b"),
    V("C16", "reinforce-drops-bl-loss", RFF, "        loss = reinforce_loss + bl_loss\n", "        loss = reinforce_loss\n", "C16.b"),
    V("C16", "reinforce-scaler-on-reward", RFF, "        advantage = reward - bl_val  # advantage = reward - baseline\n        advantage = self.advantage_scaler(advantage)", "        advantage = self.advantage_scaler(reward) - bl_val  # advantage = reward - baseline", "C16.b"),
    V("C16", "shared-baseline-no-keepdim", BLF, "return reward.mean(dim=on_dim, keepdims=True), 0", "return reward.mean(dim=on_dim), 0", "C16.c"),
    V("C16", "symnco-ps-no-keepdim", SYMF, "    advantage = reward - reward.mean(dim=dim, keepdim=True)\n    loss = -advantage * log_likelihood\n    return loss.mean()\n\n\ndef solution_symmetricity_loss", "    advantage = reward - reward.mean(dim=dim)\n    loss = -advantage * log_likelihood\n    return loss.mean()\n\n\ndef solution_symmetricity_loss", "C16"),
    V("C16", "symnco-ss-sign", SYMF, "    loss = -advantage * log_likelihood\n    return loss.mean()\n\n\ndef invariance_loss", "    loss = advantage * log_likelihood\n    return loss.mean()\n\n\ndef invariance_loss", "C16.b"),
    V("C16", "ppo-adv-not-detached", PPOF, "adv = previous_reward - value_pred.detach()", "adv = previous_reward - value_pred", "C16.a"),
    V("C16", "ppo-clip-asymmetric", PPOF, "                            1 + self.ppo_cfg[\"clip_range\"],", "                            1 + 2 * self.ppo_cfg[\"clip_range\"],", "C16.b"),
    V("C16", "ppo-max-instead-of-min", PPOF, "surrogate_loss = -torch.min(", "surrogate_loss = -torch.max(", "C16.b"),
    V("C16", "ppo-entropy-sign", PPOF, '                        - self.ppo_cfg["entropy_lambda"] * entropy.mean()', '                        + self.ppo_cfg["entropy_lambda"] * entropy.mean()', "C16.b"),
    V("C16", "ppo-value-loss-swapped-target", PPOF, "value_loss = F.huber_loss(value_pred, previous_reward)", "value_loss = F.huber_loss(value_pred, adv)", "C16.b"),
    V("C16", "eq-reinforce-rearranged", RFF, "reinforce_loss = -(advantage * log_likelihood).mean()", "reinforce_loss = -(log_likelihood * advantage).mean()", None),
    V("C16", "eq-critic-rename", BLF, "        v = self.critic(x).squeeze(-1)\n        # detach v since actor should not backprop through baseline, only for loss\n        return v.detach(), F.mse_loss(v, c.detach())", "        val = self.critic(x).squeeze(-1)\n        return val.detach(), F.mse_loss(val, c.detach())", None),
]

UTF = "rl4co/models/rl/common/utils.py"
CORPUS += [
    # ---------------------------------------------------------------- C20
    V("C20", "factory-exp-beta-swallowed", "rl4co/models/rl/reinforce/baselines.py", "RolloutBaseline(bl_alpha=bl_alpha), warmup_epochs, warmup_exp_beta", "RolloutBaseline(bl_alpha=bl_alpha), n_epochs=warmup_epochs, exp_beta=warmup_exp_beta", "C20.e"),
    V("C20", "eq-factory-keywords-declared", "rl4co/models/rl/reinforce/baselines.py", "RolloutBaseline(bl_alpha=bl_alpha), warmup_epochs, warmup_exp_beta", "RolloutBaseline(bl_alpha=bl_alpha), n_epochs=warmup_epochs, warmup_exp_beta=warmup_exp_beta", None),
    V("C20", "welford-delta2-before-mean-update", UTF, "        delta = batch - self.mean\n        self.mean += (delta / self.count).sum()\n        # newvalues - newMeant\n        delta2 = batch - self.mean", "        delta = batch - self.mean\n        delta2 = batch - self.mean\n        self.mean += (delta / self.count).sum()", "C20.a"),
    V("C20", "welford-count-after-mean", UTF, "        self.count += len(batch)\n\n        # newvalues - oldMean\n        delta = batch - self.mean\n        self.mean += (delta / self.count).sum()", "        # newvalues - oldMean\n        delta = batch - self.mean\n        self.mean += (delta / self.count).sum()\n        self.count += len(batch)", "C20.a"),
    V("C20", "welford-m2-delta-squared", UTF, "self.M2 += (delta * delta2).sum()", "self.M2 += (delta * delta).sum()", "C20.a"),
    V("C20", "welford-mean-of-means", UTF, "self.mean += (delta / self.count).sum()", "self.mean += (delta / self.count).mean()", "C20.a"),
    V("C20", "scaler-population-std", UTF, "std = (self.M2 / (self.count - 1)).float().sqrt()", "std = (self.M2 / self.count).float().sqrt()", "C20.b"),
    V("C20", "scaler-update-twice", UTF, "        self.update(scores)\n", "        self.update(scores)\n        self.update(scores)\n", "C20.b"),
    V("C20", "scaler-norm-no-centering", UTF, "scores = (scores - self.mean.to(**tensor_to_kwargs)) / score_scaling_factor", "scores = scores / score_scaling_factor", "C20.b"),
    V("C20", "scaler-update-with-grad", UTF, "    @torch.no_grad()\n    def update", "    def update", "C20.a"),
    V("C20", "ema-beta-swapped", BLF, "v = self.beta * self.v + (1.0 - self.beta) * reward.mean()", "v = (1.0 - self.beta) * self.v + self.beta * reward.mean()", "C20.c"),
    V("C20", "ema-returns-fresh-v", BLF, "        return self.v, 0  # No loss", "        return v, 0  # No loss", "C20.c"),
    V("C20", "warmup-alpha-swapped", BLF, "            self.alpha * v_b + (1 - self.alpha) * v_wb,", "            (1 - self.alpha) * v_b + self.alpha * v_wb,", "C20.d"),
    V("C20", "warmup-loss-other-weight", BLF, "            self.alpha * l_b + (1 - self.alpha) * l_wb,", "            l_b + (1 - self.alpha) * l_wb,", "C20.d"),
    V("C20", "warmup-alpha-no-plus-one", BLF, 'self.alpha = (kw["epoch"] + 1) / float(self.n_epochs)', 'self.alpha = kw["epoch"] / float(self.n_epochs)', "C20.d"),
    V("C20", "eq-ema-incremental-form", BLF, "v = self.beta * self.v + (1.0 - self.beta) * reward.mean()", "v = self.v + (1.0 - self.beta) * (reward.mean() - self.v)", None),
    V("C20", "eq-welford-rename", UTF, "delta2", "d_new", None, count=99),
]

DSF = "rl4co/data/dataset.py"
CORPUS += [
    # ---------------------------------------------------------------- C17
    V("C17", "extrakey-write-through", "rl4co/data/dataset.py", "data = self.data[idx].copy()", "data = self.data[idx]", "C17.c"),
    V("C17", "eq-extrakey-dict-copy", "rl4co/data/dataset.py", "data = self.data[idx].copy()", "data = dict(self.data[idx])", None),
    V("C17", "reinforce-rewrap-before-baseline-update", "rl4co/models/rl/reinforce/reinforce.py", """        self.baseline.epoch_callback(
            self.policy,
            env=self.env,
            batch_size=self.val_batch_size,
            device=get_lightning_device(self),
            epoch=self.current_epoch,
            dataset_size=self.data_cfg["val_data_size"],
        )
        # Need to call super() for the dataset to be reset
        super().on_train_epoch_end()
""", """        super().on_train_epoch_end()
        self.baseline.epoch_callback(
            self.policy,
            env=self.env,
            batch_size=self.val_batch_size,
            device=get_lightning_device(self),
            epoch=self.current_epoch,
            dataset_size=self.data_cfg["val_data_size"],
        )
""", "C17.e"),
    V("C17", "rollout-loader-shuffled", BLF, "dl = DataLoader(dataset, batch_size=batch_size, collate_fn=dataset.collate_fn)\n\n        rewards", "dl = DataLoader(dataset, batch_size=batch_size, shuffle=True, collate_fn=dataset.collate_fn)\n\n        rewards", "C17.b"),
    V("C17", "rollout-loader-drop-last", BLF, "dl = DataLoader(dataset, batch_size=batch_size, collate_fn=dataset.collate_fn)\n\n        rewards", "dl = DataLoader(dataset, batch_size=batch_size, drop_last=True, collate_fn=dataset.collate_fn)\n\n        rewards", "C17.b"),
    V("C17", "rollout-default-collate", BLF, "dl = DataLoader(dataset, batch_size=batch_size, collate_fn=dataset.collate_fn)\n\n        rewards", "dl = DataLoader(dataset, batch_size=batch_size)\n\n        rewards", "C17.a"),
    V("C17", "eval-loader-shuffled", "rl4co/tasks/eval.py", "        shuffle=False,\n        num_workers=0,\n        collate_fn=dataset.collate_fn,\n    )\n\n    # Run evaluation", "        shuffle=True,\n        num_workers=0,\n        collate_fn=dataset.collate_fn,\n    )\n\n    # Run evaluation", "C17.b"),
    V("C17", "extra-shifted-index", DSF, "data[self.key_name] = self.extra[idx]", "data[self.key_name] = self.extra[idx - 1]", "C17.c"),
    V("C17", "wrap-dataset-uses-own-dataset", BLF, "self.rollout(self.policy, env, batch_size, device, dataset=dataset)", "self.rollout(self.policy, env, batch_size, device)", "C17.c"),
    V("C17", "wrap-dataset-other-key", BLF, 'return dataset.add_key("extra", rewards)', 'return dataset.add_key("baseline", rewards)', "C17.c"),
    V("C17", "collate-sorted", DSF, "{key: torch.stack([b[key] for b in batch]) for key in batch[0].keys()}", "{key: torch.stack([b[key] for b in sorted(batch, key=id)]) for key in batch[0].keys()}", "C17.d"),
    V("C17", "disassembly-reversed", DSF, "{key: value[i] for key, value in td.items()} for i in range(self.data_len)", "{key: value[-i - 1] for key, value in td.items()} for i in range(self.data_len)", "C17.d"),
    V("C17", "evalbase-actions-not-appended-pairwise", "rl4co/tasks/eval.py", "                rewards_list.append(rewards)\n                actions_list.append(actions)", "                rewards_list.append(rewards)\n                actions_list.insert(0, actions)", "C17.b"),
    V("C17", "eq-extra-rename-index", DSF, "    def __getitem__(self, idx):\n        data = self.data[idx]\n        data[self.key_name] = self.extra[idx]\n        return data", "    def __getitem__(self, index):\n        item = self.data[index]\n        item[self.key_name] = self.extra[index]\n        return item", None),
    V("C17", "eq-collate-rename", DSF, "[b[key] for b in batch]", "[elem[key] for elem in batch]", None),
]

CORPUS += [
    # ---------------------------------------------------------------- C18
    V("C18", "mtvrp-preset-keys-reordered", "rl4co/envs/routing/mtvrp/generator.py", '"ovrpbtw": {"O": 1.0, "TW": 1.0, "L": 0.0, "B": 1.0},', '"ovrpbtw": {"O": 1.0, "B": 1.0, "TW": 1.0, "L": 0.0},', 'C18.m'),
    V("C18", "mtvrp-prob-args-reordered", "rl4co/envs/routing/mtvrp/generator.py", '                "O": prob_open,\n                "TW": prob_time_window,\n                "L": prob_limit,\n                "B": prob_backhaul,', '                "O": prob_open,\n                "TW": prob_time_window,\n                "B": prob_backhaul,\n                "L": prob_limit,', 'C18.m'),
    V("C18", "cluster-clamp-result-discarded", "rl4co/envs/common/distribution_utils.py", '        coords.clamp_(0, 1)\n\n        return coords\n\n\nclass Mixed', '        coords.clamp(0, 1)\n\n        return coords\n\n\nclass Mixed', 'C18.m'),
    V("C18", "eq-cluster-clamp-assigned", "rl4co/envs/common/distribution_utils.py", '        coords.clamp_(0, 1)\n\n        return coords\n\n\nclass Mixed', '        coords = coords.clamp(0, 1)\n\n        return coords\n\n\nclass Mixed', None),
    V("C18", "mtvrp-capacity-original-aliased", "rl4co/envs/routing/mtvrp/generator.py", 'capacity_original = vehicle_capacity.clone()', 'capacity_original = vehicle_capacity', 'C18.k'),
    V("C18", "mtvrp-both-classes-same-mask", "rl4co/envs/routing/mtvrp/generator.py", 'backhaul_demand * ~is_linehaul', 'backhaul_demand * is_linehaul', 'C18.k'),
    V("C18", "mtvrp-classes-independent-draws", "rl4co/envs/routing/mtvrp/generator.py", 'linehaul_demand * is_linehaul', 'linehaul_demand * (torch.rand(*batch_size, num_loc) > self.backhaul_ratio)', 'C18.k'),
    V("C18", "fjsp-end-op-off-by-two", "rl4co/envs/scheduling/fjsp/generator.py", 'end_op_per_job = n_ope_per_job.cumsum(1) - 1', 'end_op_per_job = n_ope_per_job.cumsum(1) + 1', 'C18.k'),
    V("C18", "fjsp-start-op-overlaps", "rl4co/envs/scheduling/fjsp/generator.py", 'end_op_per_job[:, :-1] + 1,', 'end_op_per_job[:, :-1] - 1,', 'C18.k'),
    V("C18", "jssp-start-op-is-previous-end", "rl4co/envs/scheduling/jssp/generator.py", 'end_op_per_job[:, :-1] + 1,', 'end_op_per_job[:, :-1],', 'C18.k'),
    V("C18", "eq-mtvrp-mask-commuted", "rl4co/envs/routing/mtvrp/generator.py", 'backhaul_demand * ~is_linehaul', '~is_linehaul * backhaul_demand', None),
    V("C18", "eq-mtvrp-indicator-yoda", "rl4co/envs/routing/mtvrp/generator.py", 'is_linehaul = torch.rand(*batch_size, num_loc) > self.backhaul_ratio', 'is_linehaul = self.backhaul_ratio < torch.rand(*batch_size, num_loc)', None),
    V("C18", "eq-fjsp-cumsum-function", "rl4co/envs/scheduling/fjsp/generator.py", 'end_op_per_job = n_ope_per_job.cumsum(1) - 1', 'end_op_per_job = torch.cumsum(n_ope_per_job, 1) - 1', None),
    V("C18", "mdcpdp-capacity-single-column", "rl4co/envs/routing/mdcpdp/generator.py", 'size=(*batch_size, self.num_depot),\n        )\n\n        # Sample lateness', 'size=(*batch_size, 1),\n        )\n\n        # Sample lateness', 'C18.j'),
    V("C18", "fjsp-one-machine-short", "rl4co/envs/scheduling/fjsp/generator.py", 'ma_seq_per_ops <= n_eligible_per_ops[..., None]', 'ma_seq_per_ops < n_eligible_per_ops[..., None]', 'C18.i'),
    V("C18", "fjsp-counter-from-zero", "rl4co/envs/scheduling/fjsp/generator.py", 'torch.arange(1, self.num_mas + 1)[None, None]', 'torch.arange(0, self.num_mas)[None, None]', 'C18.i'),
    V("C18", "fjsp-counter-short", "rl4co/envs/scheduling/fjsp/generator.py", 'torch.arange(1, self.num_mas + 1)[None, None]', 'torch.arange(1, self.num_mas)[None, None]', 'C18.i'),
    V("C18", "fjsp-shuffle-across-operations", "rl4co/envs/scheduling/fjsp/generator.py", 'ma_ops_edges_unshuffled.gather(2, idx)', 'ma_ops_edges_unshuffled.gather(1, idx)', 'C18.i'),
    V("C18", "fjsp-max-eligible-exclusive", "rl4co/envs/scheduling/fjsp/generator.py", 'self.max_eligible_ma_per_op + 1,', 'self.max_eligible_ma_per_op,', 'C18.i'),
    V("C18", "fjsp-padded-ops-eligible", "rl4co/envs/scheduling/fjsp/generator.py", '        n_eligible_per_ops[pad_mask] = 0\n', '', 'C18.i'),
    V("C18", "fjsp-proc-time-above-max", "rl4co/envs/scheduling/fjsp/generator.py", 'self.max_processing_time + 1,\n                size', 'self.max_processing_time + 2,\n                size', 'C18.i'),
    V("C18", "fjsp-low-above-high", "rl4co/envs/scheduling/fjsp/generator.py", '(proc_time_means * (1 - 0.2)).round().unsqueeze(1),', '(proc_time_means * (1 + 0.3)).round().unsqueeze(1),', 'C18.i'),
    V("C18", "fjsp-zero-proc-time-default", "rl4co/envs/scheduling/fjsp/generator.py", 'min_processing_time: int = 1,', 'min_processing_time: int = 0,', 'C18.i'),
    V("C18", "eq-fjsp-indicator-flipped", "rl4co/envs/scheduling/fjsp/generator.py", 'ma_seq_per_ops <= n_eligible_per_ops[..., None]', 'n_eligible_per_ops[..., None] >= ma_seq_per_ops', None),
    V("C18", "eq-fjsp-gather-last-axis", "rl4co/envs/scheduling/fjsp/generator.py", 'ma_ops_edges_unshuffled.gather(2, idx)', 'ma_ops_edges_unshuffled.gather(-1, idx)', None),
    V("C18", "eq-fjsp-argsort-dim", "rl4co/envs/scheduling/fjsp/generator.py", 'torch.rand_like(ma_ops_edges_unshuffled).argsort()', 'torch.rand_like(ma_ops_edges_unshuffled).argsort(dim=-1)', None),
    V("C18", "eq-fjsp-wider-low", "rl4co/envs/scheduling/fjsp/generator.py", '(proc_time_means * (1 - 0.2)).round().unsqueeze(1),', '(proc_time_means * (1 - 0.2)).round().unsqueeze(1) - 1,', None),
    V("C18", "eq-fjsp-mean-inclusive", "rl4co/envs/scheduling/fjsp/generator.py", 'self.min_processing_time, self.max_processing_time, (bs, n_ops_max)', 'self.min_processing_time, self.max_processing_time + 1, (bs, n_ops_max)', None),
    V("C18", "cvrptw-repair-clamped-at-zero", "rl4co/envs/routing/cvrptw/generator.py", 'min_tmp[mask] = torch.max(\n                dist[mask].int(), min_tmp[mask] - 1\n            )', 'min_tmp[mask] = torch.clamp(min_tmp[mask] - 1, min=0)', 'C18.h'),
    V("C18", "cvrptw-repair-unclamped", "rl4co/envs/routing/cvrptw/generator.py", 'min_tmp[mask] = torch.max(\n                dist[mask].int(), min_tmp[mask] - 1\n            )', 'min_tmp[mask] = min_tmp[mask] - 1', 'C18.h'),
    V("C18", "cvrptw-start-from-zero", "rl4co/envs/routing/cvrptw/generator.py", 'min_ts = (dist + (upper_bound - dist) * ts_1).int()', 'min_ts = (upper_bound * ts_1).int()', 'C18.h'),
    V("C18", "cvrptw-no-return-margin", "rl4co/envs/routing/cvrptw/generator.py", 'upper_bound = self.max_time - dist - durations', 'upper_bound = self.max_time - durations', 'C18.h'),
    V("C18", "cvrptw-repair-ceil-upper", "rl4co/envs/routing/cvrptw/generator.py", 'torch.floor(upper_bound[mask]).int()', 'torch.ceil(upper_bound[mask]).int()', 'C18.h'),
    V("C18", "cvrptw-assert-nonstrict", "rl4co/envs/routing/cvrptw/generator.py", 'min_times < max_times\n        ), "Please', 'min_times <= max_times\n        ), "Please', 'C18.h'),
    V("C18", "cvrptw-scale-times-only", "rl4co/envs/routing/cvrptw/generator.py", '            td["locs"] = td["locs"] / self.max_time\n', '', 'C18.h'),
    V("C18", "cvrptw-end-past-bound", "rl4co/envs/routing/cvrptw/generator.py", 'max_ts = (dist + (upper_bound - dist) * ts_2).int()', 'max_ts = (dist + (upper_bound - dist) * ts_2 + 1).int()', 'C18.h'),
    V("C18", "eq-cvrptw-draw-commuted", "rl4co/envs/routing/cvrptw/generator.py", 'min_ts = (dist + (upper_bound - dist) * ts_1).int()', 'min_ts = (ts_1 * (upper_bound - dist) + dist).int()', None),
    V("C18", "eq-cvrptw-repair-maximum", "rl4co/envs/routing/cvrptw/generator.py", 'min_tmp[mask] = torch.max(\n                dist[mask].int(), min_tmp[mask] - 1\n            )', 'min_tmp[mask] = torch.maximum(min_tmp[mask] - 1, dist[mask].int())', None),
    V("C18", "eq-cvrptw-repair-clamp-dist", "rl4co/envs/routing/cvrptw/generator.py", 'min_tmp[mask] = torch.max(\n                dist[mask].int(), min_tmp[mask] - 1\n            )', 'min_tmp[mask] = (min_tmp[mask] - 1).clamp(min=dist[mask].int())', None),
    V("C18", "eq-cvrptw-assert-flipped", "rl4co/envs/routing/cvrptw/generator.py", 'min_times < max_times\n        ), "Please', 'max_times > min_times\n        ), "Please', None),
    V("C18", "eq-cvrptw-wider-second-repair", "rl4co/envs/routing/cvrptw/generator.py", 'max_tmp[mask] + 1,', 'max_tmp[mask] + 2,', None),
    V("C18", "op-generator-device-again", R + "op/generator.py", "prize = torch.ones(*batch_size, self.num_loc)", "prize = torch.ones(*batch_size, self.num_loc, device=self.device)", "C18.a"),
    V("C18", "cvrp-generator-renamed-attr", R + "cvrp/generator.py", "self.vehicle_capacity", "self.vehicle_cap", "C18.d", count=99),
    V("C18", "eq-tsp-generator-rename-local", R + "tsp/generator.py", "        locs = self.loc_sampler.sample((*batch_size, self.num_loc, 2))", "        coords = self.loc_sampler.sample((*batch_size, self.num_loc, 2))\n        locs = coords", None),
    V("C18", "tsp-generator-typo-read", R + "tsp/generator.py", "locs = self.loc_sampler.sample((*batch_size, self.num_loc, 2))", "locs = self.loc_sampler.sample((*batch_size, self.num_locs, 2))", "C18.a"),
    V("C18", "sampler-branch-dropped", "rl4co/envs/common/utils.py", '    elif distribution == Poisson or distribution == "poisson":', '    elif distribution == Poisson:', "C18.b"),
    V("C18", "cvrp-generator-key-renamed", R + "cvrp/generator.py", '"demand": demand / self.capacity,', '"demands": demand / self.capacity,', "C18.c"),
    V("C18", "pctsp-generator-drops-stochastic-prize", R + "pctsp/generator.py", '"stochastic_prize": stochastic_prize,', '', "C18.c"),
]

GDF = "rl4co/data/generate_data.py"
FPF = "rl4co/envs/scheduling/fjsp/parser.py"
CORPUS += [
    # ---------------------------------------------------------------- C19
    V("C19", "litmodule-hparams-without-policy", "rl4co/models/rl/common/base.py", 'self.save_hyperparameters(logger=False)', 'self.save_hyperparameters(logger=False, ignore=["policy"])', 'C19.e'),
    V("C19", "cvrp-load-normalised-by-first-capacity", "rl4co/envs/routing/cvrp/env.py", 'td_load["demand"] / td_load["capacity"][:, None]', 'td_load["demand"] / td_load["capacity"][0]', 'C19.b'),
    V("C19", "fjsp-parser-memoised", "rl4co/envs/scheduling/fjsp/parser.py", 'def file2lines(', '@lru_cache(maxsize=None)\ndef file2lines(', 'C19.f'),
    V("C19", "eq-cvrp-load-unsqueeze", "rl4co/envs/routing/cvrp/env.py", 'td_load["demand"] / td_load["capacity"][:, None]', 'td_load["demand"] / td_load["capacity"].unsqueeze(-1)', None),
    V("C19", "eq-litmodule-hparams-ignore-other", "rl4co/models/rl/common/base.py", 'self.save_hyperparameters(logger=False)', 'self.save_hyperparameters(logger=False, ignore=["log_on_step"])', None),
    V("C19", "vrp-writer-renames-capacity", GDF, '"capacity": np.full(dataset_size, CAPACITIES[vrp_size]).astype(np.float32),', '"vehicle_capacity": np.full(dataset_size, CAPACITIES[vrp_size]).astype(np.float32),', "C19.b"),
    V("C19", "op-writer-drops-max-length", GDF, '        "max_length": np.full(dataset_size, max_lengths[op_size]).astype(np.float32),\n', '', "C19.b"),
    V("C19", "pdp-writer-renames-depot", GDF, '        "depot": depot.astype(np.float32),\n    }\n\n\ndef generate_op_data', '        "depots": depot.astype(np.float32),\n    }\n\n\ndef generate_op_data', "C19.b"),
    V("C19", "npz-save-skips-keys", "rl4co/data/utils.py", "x_dict = {k: v.numpy() for k, v in tensordict.items()}", "x_dict = {k: v.numpy() for k, v in tensordict.items() if v.dim() > 1}", "C19.a"),
    V("C19", "fjsp-reader-no-minus-one", FPF, "proc_times[ma - 1, op_cnt] = dur", "proc_times[ma, op_cnt] = dur", "C19.c"),
    V("C19", "fjsp-writer-no-plus-one", FPF, "job.extend([int(machine.item()) + 1, int(duration.item())])", "job.extend([int(machine.item()), int(duration.item())])", "C19.c"),
    V("C19", "fjsp-writer-order-swapped", FPF, "job.extend([int(machine.item()) + 1, int(duration.item())])", "job.extend([int(duration.item()), int(machine.item()) + 1])", "C19.c"),
    V("C19", "fjsp-reader-cursor", FPF, "        idx += 1 + num_pairs\n", "        idx += num_pairs\n", "C19.c"),
    V("C19", "env-setstate-drops-rng", "rl4co/envs/common/base.py", '        self.rng.set_state(state["rng"])\n', '', "C19.d"),
    V("C19", "rollout-getstate-keeps-dataset-setstate-none", BLF, '            del state["dataset"]\n', '            del state["policy"]\n', "C19.d"),
    V("C19", "checkpoint-strips-all-occurrences", RFF, 'k.replace("baseline.", "", 1)', 'k.replace("baseline.", "")', "C19.e"),
    V("C19", "cvrp-load-data-no-normalisation", R + "cvrp/env.py", '        td_load.set("demand", td_load["demand"] / td_load["capacity"][:, None])\n', '', "C19.b"),
    V("C19", "eq-env-getstate-rename", "rl4co/envs/common/base.py", '        state = self.__dict__.copy()\n        state["rng"] = state["rng"].get_state()\n        return state', '        st = self.__dict__.copy()\n        st["rng"] = st["rng"].get_state()\n        return st', None),
]

CORPUS += [
    V("C04", "mtsp-reward-squeeze-batch-axis-again", R + "mtsp/env.py", 'return td["reward"].reshape(td.batch_size)', 'return td["reward"].squeeze(-1)', "C04.a"),
]

CTXF = "rl4co/models/nn/env_embeddings/context.py"
CORPUS += [
    # ---------------------------------------------------------------- C14
    V("C14", "op-context-first-item-budget", "rl4co/models/nn/env_embeddings/context.py", 'state_embedding = td["max_length"][..., 0] - td["tour_length"]', 'state_embedding = td["max_length"][(0,) * td["max_length"].dim()] - td["tour_length"]', "C14.a"),
    V("C14", "pdp-context-squeeze-again", CTXF, "class PDPContext(EnvContext):", "class PDPContext(EnvContext):\n    pass\n\n\nclass _Unused(EnvContext):", None),
    V("C14", "svrp-context-squeeze-again", CTXF, '''    def forward(self, embeddings, td):
        cur_node_embedding = self._cur_node_embedding(embeddings, td)
        return self.project_context(cur_node_embedding)


class PCTSPContext''', '''    def forward(self, embeddings, td):
        cur_node_embedding = self._cur_node_embedding(embeddings, td).squeeze()
        return self.project_context(cur_node_embedding)


class PCTSPContext''', "C14.b"),
    V("C14", "mtsp-cur-node-squeeze-again", CTXF, '        cur_node_embedding = gather_by_index(embeddings, td["current_node"])\n        return cur_node_embedding\n', '        cur_node_embedding = gather_by_index(embeddings, td["current_node"])\n        return cur_node_embedding.squeeze()\n', "C14.b"),
    V("C14", "vrp-context-normalise-by-batch-max", CTXF, 'state_embedding = td["vehicle_capacity"] - td["used_capacity"]', 'state_embedding = (td["vehicle_capacity"] - td["used_capacity"]) / td["vehicle_capacity"].max()', "C14.a"),
    V("C14", "normalization-layer-over-batch", "rl4co/models/nn/ops.py", "x.mean((1, 2))", "x.mean((0, 1, 2))", "C14.c"),
    V("C14", "attention-scale-by-batch-mean", "rl4co/models/nn/attention.py", "        # Compute inner multi-head attention with no projections.\n        heads = self._inner_mha(query, key, value, attn_mask)", "        # Compute inner multi-head attention with no projections.\n        heads = self._inner_mha(query, key, value, attn_mask)\n        heads = heads - heads.mean()", "C14.a"),
    V("C14", "init-embedding-centres-on-batch-mean", "rl4co/models/nn/env_embeddings/init.py", '        out = self.init_embed(td["locs"])\n        return out', '        out = self.init_embed(td["locs"] - td["locs"].mean((0, 1), keepdim=True))\n        return out', "C14.a"),
    V("C14", "eq-context-rename", CTXF, "cur_node_embedding", "cur_emb", None, count=99),
]

TRF = "rl4co/data/transforms.py"
EVF = "rl4co/tasks/eval.py"
CORPUS += [
    # ---------------------------------------------------------------- C15
    V("C15", "pomo-augments-raw-batch", "rl4co/models/zoo/pomo/model.py", '            td = self.augment(td)\n', '            td = self.env.reset(self.augment(batch))\n', 'C15.d'),
    V("C15", "symmetric-reflect-below-2pi", "rl4co/data/transforms.py", 'mask = phi > 2 * math.pi', 'mask = phi < 2 * math.pi', 'C15.b'),
    V("C15", "symmetric-reflect-always", "rl4co/data/transforms.py", 'mask = phi > 2 * math.pi', 'mask = phi >= 0', 'C15.b'),
    V("C15", "symmetric-rotation-swapped-at-zero", "rl4co/data/transforms.py", 'x_prime = torch.cos(phi) * x - torch.sin(phi) * y\n    y_prime = torch.sin(phi) * x + torch.cos(phi) * y', 'x_prime = torch.sin(phi) * x + torch.cos(phi) * y\n    y_prime = torch.cos(phi) * x - torch.sin(phi) * y', 'C15.b'),
    V("C15", "eq-symmetric-rotation-clockwise", "rl4co/data/transforms.py", 'x_prime = torch.cos(phi) * x - torch.sin(phi) * y\n    y_prime = torch.sin(phi) * x + torch.cos(phi) * y', 'x_prime = torch.cos(phi) * x + torch.sin(phi) * y\n    y_prime = torch.cos(phi) * y - torch.sin(phi) * x', None),
    V("C15", "eq-symmetric-mask-yoda", "rl4co/data/transforms.py", 'mask = phi > 2 * math.pi', 'mask = 2 * math.pi < phi', None),
    V("C15", "eq-symmetric-mask-ge", "rl4co/data/transforms.py", 'mask = phi > 2 * math.pi', 'mask = phi >= 2 * math.pi', None),
    V("C15", "dihedral-z5-not-permutation", TRF, "z5 = torch.cat((1 - y, x), dim=2)", "z5 = torch.cat((1 - y, y), dim=2)", "C15.a"),
    V("C15", "dihedral-z3-scaled", TRF, "z3 = torch.cat((1 - x, 1 - y), dim=2)", "z3 = torch.cat((1 - 2 * x, 1 - y), dim=2)", "C15.a"),
    V("C15", "dihedral-identity-not-first", TRF, "aug_xy = torch.cat((z0, z1, z2, z3, z4, z5, z6, z7), dim=0)", "aug_xy = torch.cat((z1, z0, z2, z3, z4, z5, z6, z7), dim=0)", "C15.a"),
    V("C15", "dihedral-cat-dim1", TRF, "aug_xy = torch.cat((z0, z1, z2, z3, z4, z5, z6, z7), dim=0)", "aug_xy = torch.cat((z0, z1, z2, z3, z4, z5, z6, z7), dim=1)", "C15.a"),
    V("C15", "dihedral-duplicate-copy", TRF, "z6 = torch.cat((y, 1 - x), dim=2)", "z6 = torch.cat((1 - y, x), dim=2)", "C15.a"),
    V("C15", "symmetric-plus-sin-twice", TRF, "x_prime = torch.cos(phi) * x - torch.sin(phi) * y", "x_prime = torch.cos(phi) * x + torch.sin(phi) * y", "C15.b"),
    V("C15", "symmetric-shear", TRF, "y_prime = torch.sin(phi) * x + torch.cos(phi) * y", "y_prime = torch.sin(phi) * x + y", "C15.b"),
    V("C15", "symmetric-offset-not-restored", TRF, "    return xy + offset\n", "    return xy\n", "C15.b"),
    V("C15", "symmetric-first-copy-augmented", TRF, "        phi[: xy.shape[0] // num_augment] = 0.0\n", "        phi[: xy.shape[0] // num_augment] = 0.5\n", "C15.b"),
    V("C15", "eval-reward-on-augmented", EVF, "        rewards = self.env.get_reward(batchify(td_init, num_augment), out[\"actions\"])", "        rewards = self.env.get_reward(td, out[\"actions\"])", "C15.c"),
    V("C15", "eval-init-cloned-after-augmentation", EVF, "        td_init = td.clone()\n        td = self.augmentation(td)\n        out = policy(td.clone(), decode_type=\"greedy\", num_starts=0)", "        td = self.augmentation(td)\n        td_init = td.clone()\n        out = policy(td.clone(), decode_type=\"greedy\", num_starts=0)", "C15.c"),
    V("C15", "eval-policy-reward-instead-of-recomputed", EVF, "        td = batchify(td_init, self.num_starts)\n        rewards = self.env.get_reward(td, out[\"actions\"])\n        rewards = unbatchify(rewards, self.num_starts)", "        rewards = out[\"reward\"]\n        rewards = unbatchify(rewards, self.num_starts)", "C15.c"),
    V("C15", "eq-symmetric-commuted", TRF, "y_prime = torch.sin(phi) * x + torch.cos(phi) * y", "y_prime = torch.cos(phi) * y + x * torch.sin(phi)", None),
    V("C15", "eq-dihedral-rename", TRF, "aug_xy", "augmented", None, count=99),
]

CORPUS += [
    V("C01", "pdp-reset-mask-aliases-available", R + "pdp/env.py", "action_mask = torch.ones_like(available) # [batch_size, graph_size+1]", "action_mask = available # [batch_size, graph_size+1]", "C01.f"),
    V("C10", "filters-on-stale-logits", DECP, '''    if top_k > 0:
        top_k = min(top_k, logits.size(-1))  # safety check
        logits = modify_logits_for_top_k_filtering(logits, top_k)

    if top_p > 0:
        assert top_p <= 1.0, "top-p should be in (0, 1]."
        logits = modify_logits_for_top_p_filtering(logits, top_p)

    # Compute log probabilities
    return F.log_softmax(logits, dim=-1)''', '''    filtered = logits
    if top_k > 0:
        top_k = min(top_k, logits.size(-1))  # safety check
        filtered = modify_logits_for_top_k_filtering(logits, top_k)

    if top_p > 0:
        assert top_p <= 1.0, "top-p should be in (0, 1]."
        filtered = modify_logits_for_top_p_filtering(logits, top_p)

    # Compute log probabilities
    return F.log_softmax(filtered, dim=-1)''', "C10.a"),
]

CORPUS += [
    # ---------------------------------------------------------------- from seeded defects (second batch)
    V("C20", "welford-old-mean-aliases-inplace-update", UTF, "        # newvalues - oldMean\n        delta = batch - self.mean\n        self.mean += (delta / self.count).sum()\n        # newvalues - newMeant\n        delta2 = batch - self.mean\n        self.M2 += (delta * delta2).sum()",
      "        old_mean = self.mean\n        self.mean += ((batch - old_mean) / self.count).sum()\n        self.M2 += ((batch - old_mean) * (batch - self.mean)).sum()", "C20.a"),
    V("C12", "sample-starts-replacement-too-eager", OPSF, "    if n_valid_actions < n:\n        replace = True", "    if n_valid_actions <= n:\n        replace = True", "C12.d"),
    V("C14", "tsp-context-stack-positive-dim", CTXF, 'torch.stack([td["first_node"], td["current_node"]], -1).view(', 'torch.stack([td["first_node"], td["current_node"]], 1).view(', "C14.d"),
    V("C11", "evaluate-filters-decoding-kwargs", CPB, '            decode_type = "evaluate"\n', '            decode_type = "evaluate"\n            decoding_kwargs = {k: v for k, v in decoding_kwargs.items() if k in ("temperature",)}\n', "C11.c"),
    V("C17", "fastgen-slice-fast-path", DSF, "        return TensorDict(\n            {key: item[index] for key, item in self.data.items()},", "        if index[-1] - index[0] == len(index) - 1:\n            index = slice(index[0], index[-1] + 1)\n        return TensorDict(\n            {key: item[index] for key, item in self.data.items()},", "C17.d"),
    V("C17", "val-loader-follows-train-shuffle", "rl4co/models/rl/common/base.py", "    def _dataloader_single(self, dataset, batch_size, shuffle=False):", "    def _dataloader_single(self, dataset, batch_size, shuffle=None):", "C17.b"),
    V("C19", "npz-loader-memoised", "rl4co/data/utils.py", "def load_npz_to_tensordict(filename):", "@__import__('functools').lru_cache(maxsize=32)\ndef load_npz_to_tensordict(filename):", "C19.a"),
    V("C19", "fjsp-reader-pad-mask-gt", FPF, "pad_mask = pad_mask.ge(total_ops).unsqueeze(0)", "pad_mask = pad_mask.gt(total_ops).unsqueeze(0)", "C19.c"),
    V("C19", "checkpoint-hook-after-load", RFF, "            loaded.setup()\n            loaded.post_setup_hook()\n", "            loaded.setup()\n", "C19.e"),
]

CORPUS += [
    # ---------------------------------------------------------------- from the mutation sweep
    V("C01", "cvrp-load-decreases", R + "cvrp/env.py", '(td["used_capacity"] + selected_demand)', '(td["used_capacity"] - selected_demand)', "C01.h"),
    V("C01", "cvrptw-clock-minus-distance", R + "cvrptw/env.py", 'torch.max(td["current_time"] + distance, start_times) + duration', 'torch.max(td["current_time"] - distance, start_times) + duration', "C01.h"),
    V("C01", "mtvrp-time-times-speed", R + "mtvrp/env.py", 'torch.max(td["current_time"] + distance / td["speed"], start_times)', 'torch.max(td["current_time"] + distance * td["speed"], start_times)', "C01.h"),
    V("C01", "mtvrp-backhaul-cap-polarity", R + "mtvrp/env.py", ') | (~exceeds_cap_backhaul & (td["demand_backhaul"] > 0))', ') | (exceeds_cap_backhaul & (td["demand_backhaul"] > 0))', "C01.b"),
    V("C01", "op-prize-decreases", R + "op/env.py", 'current_total_prize = td["current_total_prize"] + gather_by_index(', 'current_total_prize = td["current_total_prize"] - gather_by_index(', "C01.h"),
]

CORPUS += [
    V("C06", "mtvrp-sanity-assert-reversed", R + "mtvrp/env.py", 'assert torch.all(td["service_time"] >= 0.0)', 'assert torch.all(td["service_time"] <= 0.0)', "C06.g"),
    V("C06", "cvrptw-return-sanity-reversed", R + "cvrptw/env.py", '            <= td["time_windows"][..., 0, 1, None]  # depot deadline of each instance', '            >= td["time_windows"][..., 0, 1, None]  # depot deadline of each instance', "C06.g"),
    V("C06", "cvrp-invented-assert", R + "cvrp/env.py", '        d = demand_with_depot.gather(1, actions)\n', '        d = demand_with_depot.gather(1, actions)\n        assert (td["demand"] <= 0.5 * td["vehicle_capacity"]).all()\n', "C06.g"),
    V("C06", "eq-cvrptw-window-sanity-nonstrict", R + "cvrptw/env.py", 'td["time_windows"][..., 0] < td["time_windows"][..., 1]', 'td["time_windows"][..., 0] <= td["time_windows"][..., 1]', None),
]

CORPUS += [
    V("C01", "tsp-counter-not-advanced", R + "tsp/env.py", '                "i": td["i"] + 1,\n                "action_mask": available,\n                "reward": reward,', '                "action_mask": available,\n                "reward": reward,', "C01.g"),
    V("C01", "pdp-reset-drops-locs", R + "pdp/env.py", '                "locs": locs,\n                "current_node": current_node,\n                "to_deliver": to_deliver,', '                "current_node": current_node,\n                "to_deliver": to_deliver,', "C01.g"),
    V("C01", "pdp-initial-mask-or", R + "pdp/env.py", "            action_mask = action_mask & to_deliver", "            action_mask = action_mask | to_deliver", "C01.k"),
    V("C01", "mtsp-depot-open-at-start", R + "mtsp/env.py", "        available[..., 0] = 0  # Depot is not available as first node\n", "", "C01.k"),
    V("C01", "mtvrp-linehauls-missing-nonstrict", R + "mtvrp/env.py", '(td["demand_linehaul"] * ~td["visited"]).sum(-1) > 0', '(td["demand_linehaul"] * ~td["visited"]).sum(-1) >= 0', "C01.d"),
    V("C02", "atsp-done-never", R + "atsp/env.py", "done = torch.count_nonzero(available, dim=-1) <= 0", "done = torch.count_nonzero(available, dim=-1) < 0", "C02.c"),
    V("C02", "op-done-counter-reversed", R + "op/env.py", '(td["i"] > 0)', '(td["i"] < 0)', "C02.c"),
    V("C03", "mtsp-sum-mode-guard-inverted", R + "mtsp/env.py", 'elif self.cost_type == "sum":', 'elif self.cost_type != "sum":', "C03.c"),
    V("C03", "mdcpdp-lateness-weight-sign", R + "mdcpdp/env.py", 'cost * (1 - td["lateness_weight"].squeeze())', 'cost * (1 + td["lateness_weight"].squeeze())', "C03.c"),
    V("C03", "mdcpdp-minmax-guard-inverted", R + "mdcpdp/env.py", 'if self.reward_mode == "minmax":', 'if self.reward_mode != "minmax":', "C03"),
]

CORPUS += [
    V("C01", "pdp-pairing-mod-instead-of-div", R + "pdp/env.py", "new_to_deliver = (current_node + num_loc // 2) % (num_loc + 1)", "new_to_deliver = (current_node + num_loc % 2) % (num_loc + 1)", "C01.m"),
    V("C01", "pdp-pairing-wrong-modulus", R + "pdp/env.py", "new_to_deliver = (current_node + num_loc // 2) % (num_loc + 1)", "new_to_deliver = (current_node + num_loc // 2) % (num_loc - 1)", "C01.m"),
    V("C01", "mdcpdp-pairing-minus", R + "mdcpdp/env.py", "new_to_deliver = (current_node + num_loc // 2) % (num_loc + num_depot)", "new_to_deliver = (current_node - num_loc // 2) % (num_loc + num_depot)", "C01.m"),
    V("C01", "eq-pdp-pairing-rename", R + "pdp/env.py", "new_to_deliver", "paired", None, count=99),
]

CORPUS += [
    V("C01", "mdcpdp-delivery-test-reversed", R + "mdcpdp/env.py", "current_carry -= (current_node >= pd_split_idx).long()", "current_carry -= (current_node <= pd_split_idx).long()", "C01.n"),
    V("C01", "mdcpdp-pickup-test-or", R + "mdcpdp/env.py", "(current_node < pd_split_idx) & (current_node >= num_depot)", "(current_node < pd_split_idx) | (current_node >= num_depot)", "C01.n"),
    V("C01", "mdcpdp-back-flag-le", R + "mdcpdp/env.py", "back_flag = (current_node < num_depot) & (", "back_flag = (current_node <= num_depot) & (", "C01.n"),
]

# ---- model-side sweep survivors turned into rules (guards, signs, formulas)
_G = "not (~mask).gather(1, selected.unsqueeze(-1)).data.any()"
CORPUS += [
    V("C10", "greedy-guard-polarity", DECP, "        selected = logprobs.argmax(dim=-1)\n        if mask is not None:\n            assert (\n                " + _G, "        selected = logprobs.argmax(dim=-1)\n        if mask is not None:\n            assert (\n                not (mask).gather(1, selected.unsqueeze(-1)).data.any()", "C10.c"),
    V("C10", "sampling-loop-polarity", DECP, "            while (~mask).gather(1, selected.unsqueeze(-1)).data.any():", "            while (mask).gather(1, selected.unsqueeze(-1)).data.any():", "C10.c"),
    V("C10", "eq-greedy-guard-all-form", DECP, "        selected = logprobs.argmax(dim=-1)\n        if mask is not None:\n            assert (\n                " + _G, "        selected = logprobs.argmax(dim=-1)\n        if mask is not None:\n            assert (\n                mask.gather(1, selected.unsqueeze(-1)).all()", None),
    V("C13", "beam-step-guard-polarity", DECP, "        mask = mask[batch_beam_idx]\n\n        assert (\n            " + _G, "        mask = mask[batch_beam_idx]\n\n        assert (\n            not (mask).gather(1, selected.unsqueeze(-1)).data.any()", "C13.c"),
    V("C13", "best-beam-flat-index-minus", DECP, "torch.arange(batch_size, device=rewards.device) + idx * batch_size", "torch.arange(batch_size, device=rewards.device) - idx * batch_size", "C13.e"),
    V("C11", "loglik-gather-rank-guard-inverted", DECP, "if actions is not None and logprobs.dim() == 3:", "if actions is not None and logprobs.dim() != 3:", "C11.b"),
    V("C11", "loglik-sum-guard-inverted", DECP, "    if return_sum:\n        return logprobs.sum(1)", "    if not return_sum:\n        return logprobs.sum(1)", "C11.b"),
    V("C11", "eq-loglik-ndim", DECP, "if actions is not None and logprobs.dim() == 3:", "if actions is not None and logprobs.ndim == 3:", None),
    V("C16", "symnco-degenerate-guard-reversed", SYMF, "    if num_augment < 2:", "    if num_augment > 2:", "C16.b"),
    V("C16", "symnco-degenerate-guard-nonstrict", SYMF, "    if num_starts < 2:", "    if num_starts <= 2:", "C16.b"),
    V("C16", "eq-symnco-guard-le-1", SYMF, "    if num_starts < 2:", "    if num_starts <= 1:", None),
    V("C16", "ppo-adv-normalisation-plus-mean", PPOF, "(adv - adv.mean()) / (adv.std() + 1e-8)", "(adv + adv.mean()) / (adv.std() + 1e-8)", "C16.b"),
    V("C16", "ppo-adv-normalisation-eps-sign", PPOF, "(adv - adv.mean()) / (adv.std() + 1e-8)", "(adv - adv.mean()) / (adv.std() - 1e-8)", "C16.b"),
    V("C16", "eq-ppo-adv-normalisation-other-eps", PPOF, "(adv - adv.mean()) / (adv.std() + 1e-8)", "(adv - adv.mean()) / (1e-6 + adv.std())", None),
    V("C20", "scaler-eps-sign", UTF, "std.to(**tensor_to_kwargs) + torch.finfo(scores.dtype).eps", "std.to(**tensor_to_kwargs) - torch.finfo(scores.dtype).eps", "C20.b"),
    V("C20", "scaler-mode-guard-inverted", UTF, 'if self.scale == "norm":', 'if self.scale != "norm":', "C20.b"),
    V("C12", "batchify-applies-zero-factor", OPSF, "x = _batchify_single(x, s) if s > 0 else x", "x = _batchify_single(x, s) if s >= 0 else x", "C12.a"),
    V("C12", "eq-batchify-guard-ge-1", OPSF, "x = _batchify_single(x, s) if s > 0 else x", "x = _batchify_single(x, s) if s >= 1 else x", None),
    V("C12", "unbatchify-and-gather-fixed-axis", OPSF, "return gather_by_index(x, idx, dim=idx.dim())", "return gather_by_index(x, idx, dim=1)", "C12.c"),
    V("C12", "select-best-max-over-batch", DECP, "_, max_idxs = unbatchify(rewards, self.num_starts).max(dim=-1)", "_, max_idxs = unbatchify(rewards, self.num_starts).max(dim=0)", "C12.c"),
    V("C12", "pomo-gather-fixed-axis", "rl4co/models/zoo/pomo/model.py", "actions, max_idxs, dim=max_idxs.dim()", "actions, max_idxs, dim=1", "C12.c"),
    V("C12", "eq-eval-aug-best-of-rewritten", EVF, "        rewards = unbatchify(rewards, num_augment)\n        actions = unbatchify(out[\"actions\"], num_augment)\n\n        # Get best reward and corresponding action\n        rewards, max_idxs = rewards.max(dim=1)\n        actions = gather_by_index(actions, max_idxs, dim=1)",
      "        rewards = unbatchify(rewards, num_augment)\n        acts = unbatchify(out[\"actions\"], num_augment)\n        best, best_i = torch.max(rewards, dim=1)\n        actions = gather_by_index(acts, best_i)\n        rewards = best", None),
    V("C12", "num-starts-pdp-mod", OPSF, "            num_starts - 1\n        ) // 2", "            num_starts - 1\n        ) % 2", "C12.d"),
    V("C12", "num-starts-depot-plus", OPSF, "num_starts = num_starts - 1  # depot", "num_starts = num_starts + 1  # depot", "C12.d"),
    V("C12", "op-resample-nonstrict", OPSF, ".float().sum(-1) < num_starts).any()", ".float().sum(-1) <= num_starts).any()", "C12.d"),
    V("C12", "op-resample-reversed", OPSF, ".float().sum(-1) < num_starts).any()", ".float().sum(-1) > num_starts).any()", "C12.d"),
    V("C12", "random-starts-plus-inf", OPSF, "ps[~action_mask] = -torch.inf", "ps[~action_mask] = torch.inf", "C12.d"),
    V("C12", "random-starts-mask-polarity", OPSF, "ps[~action_mask] = -torch.inf", "ps[action_mask] = -torch.inf", "C12.d"),
    V("C12", "eq-random-starts-replace-flipped-operands", OPSF, "    if n_valid_actions < n:", "    if n > n_valid_actions:", None),
    V("C12", "depot-branch-no-plus-one", OPSF, "            % (num_nodes - 1)\n            + 1\n        )", "            % (num_nodes - 1)\n        )", "C12.d"),
    V("C12", "pdp-starts-not-halved", "rl4co/envs/routing/pdp/env.py", 'num_possible_starts = (td["locs"].shape[-2] - 1) // 2', 'num_possible_starts = (td["locs"].shape[-2] - 1)', "C12.d"),
    V("C12", "eq-pdp-starts-size-call", "rl4co/envs/routing/pdp/env.py", 'num_possible_starts = (td["locs"].shape[-2] - 1) // 2', 'num_possible_starts = (td["locs"].size(-2) - 1) // 2', None),
]

# ---- structural (value-graph) versions of former text matches: C19 / C20
_DU = "rl4co/data/utils.py"
_EB = "rl4co/envs/common/base.py"
_CV = R + "cvrp/env.py"
CORPUS += [
    V("C19", "npz-batch-size-from-axis-1", _DU, "batch_size = x_dict[list(x_dict.keys())[0]].shape[0]", "batch_size = x_dict[list(x_dict.keys())[0]].shape[1]", "C19.a"),
    V("C19", "npz-loads-two-keys-only", _DU, "    x_dict = dict(x)", "    x_dict = {k: x[k] for k in list(x.keys())[:2]}", "C19.a"),
    V("C19", "eq-npz-load-inlined", _DU, "    x = np.load(filename)\n    x_dict = dict(x)", "    x_dict = dict(np.load(filename))", None),
    V("C19", "cvrp-load-multiplies-capacity", _CV, 'td_load["demand"] / td_load["capacity"][:, None]', 'td_load["demand"] * td_load["capacity"][:, None]', "C19.b"),
    V("C19", "eq-cvrp-load-unsqueeze", _CV, 'td_load["demand"] / td_load["capacity"][:, None]', 'td_load["demand"] / td_load["capacity"].unsqueeze(-1)', None),
    V("C19", "env-pickle-drops-rng-state", _EB, 'state["rng"] = state["rng"].get_state()', 'state["rng"] = None', "C19.d"),
    V("C19", "env-unpickle-does-not-restore-rng", _EB, 'self.rng.set_state(state["rng"])', "pass", "C19.d"),
    V("C19", "eq-env-pickle-rename", _EB, '        state = self.__dict__.copy()\n        state["rng"] = state["rng"].get_state()\n        return state', '        d = self.__dict__.copy()\n        d["rng"] = d["rng"].get_state()\n        return d', None),
    V("C19", "rollout-pickle-drops-bl-vals", BLF, 'del state["dataset"]', 'del state["bl_vals"]', "C19.d"),
    V("C19", "checkpoint-prefix-stripped-everywhere", RFF, 'k.replace("baseline.", "", 1)', 'k.replace("baseline.", "")', "C19.e"),
    V("C19", "checkpoint-baseline-loaded-before-setup", RFF, "            loaded.setup()\n            loaded.post_setup_hook()\n", "", "C19.e"),
    V("C20", "warmup-alpha-updated-one-epoch-too-long", BLF, 'if kw["epoch"] < self.n_epochs:', 'if kw["epoch"] <= self.n_epochs:', "C20.d"),
    V("C20", "warmup-alpha-minus-one", BLF, '(kw["epoch"] + 1) / float(self.n_epochs)', '(kw["epoch"] - 1) / float(self.n_epochs)', "C20.d"),
    V("C20", "eq-warmup-alpha-no-float", BLF, '(kw["epoch"] + 1) / float(self.n_epochs)', '(1 + kw["epoch"]) / self.n_epochs', None),
    V("C20", "warmup-n-epochs-zero-allowed", BLF, "assert n_epochs > 0", "assert n_epochs >= 0", "C20.d"),
    V("C20", "warmup-alpha-starts-at-one", BLF, "        self.alpha = 0\n", "        self.alpha = 1\n", "C20.d"),
    V("C20", "eq-warmup-eval-yoda", BLF, "if self.alpha == 1:", "if 1 == self.alpha:", None),
    V("C20", "warmup-eval-branches-swapped", BLF, "if self.alpha == 1:", "if self.alpha == 0:", "C20.d"),
]

# ---- C17 on the value graph
CORPUS += [
    V("C17", "eval-rewards-prepended", EVF, "rewards_list.append(rewards)", "rewards_list.insert(0, rewards)", "C17.b"),
    V("C17", "eval-rewards-concat-reversed", EVF, "rewards = torch.cat(rewards_list)", "rewards = torch.cat(rewards_list[::-1])", "C17.b"),
    V("C17", "eq-eval-rewards-concat-dim0", EVF, "rewards = torch.cat(rewards_list)", "rewards = torch.cat(rewards_list, dim=0)", None),
    V("C17", "extra-shifted-index", DSF, "data[self.key_name] = self.extra[idx]", "data[self.key_name] = self.extra[idx - 1]", "C17.c"),
    V("C17", "collate-stack-reversed", DSF, "torch.stack([b[key] for b in batch])", "torch.stack([b[key] for b in reversed(batch)])", "C17.d"),
    V("C17", "eq-collate-stack-renamed", DSF, "torch.stack([b[key] for b in batch])", "torch.stack([item[key] for item in batch], 0)", None),
    V("C17", "fastgen-sorted-index", DSF, "{key: item[index] for key, item in self.data.items()}", "{key: item[sorted(index)] for key, item in self.data.items()}", "C17.d"),
    V("C17", "extra-stored-flipped", DSF, "        self.extra = extra\n", "        self.extra = extra.flip(0)\n", "C17.c"),
    V("C17", "add-key-sorts-values", DSF, "return ExtraKeyDataset(self, value, key_name=key)", "return ExtraKeyDataset(self, value.sort().values, key_name=key)", "C17.c"),
    V("C17", "val-loader-shuffled", "rl4co/models/rl/common/base.py", "return self._dataloader(self.val_dataset, self.val_batch_size)", "return self._dataloader(self.val_dataset, self.val_batch_size, True)", "C17.b"),
    V("C17", "eq-val-loader-explicit-false", "rl4co/models/rl/common/base.py", "return self._dataloader(self.val_dataset, self.val_batch_size)", "return self._dataloader(self.val_dataset, self.val_batch_size, shuffle=False)", None),
]

# ---- C15 on the value graph; evaluation padding / regrouping
CORPUS += [
    V("C15", "dihedral-wrapper-takes-tail", TRF, "xy = xy[: xy.shape[0] // 8, ...] if reduce else xy", "xy = xy[xy.shape[0] // 8 :, ...] if reduce else xy", "C15.a"),
    V("C15", "dihedral-wrapper-takes-quarter", TRF, "xy = xy[: xy.shape[0] // 8, ...] if reduce else xy", "xy = xy[: xy.shape[0] // 4, ...] if reduce else xy", "C15.a"),
    V("C15", "eq-dihedral-wrapper-size-call", TRF, "xy = xy[: xy.shape[0] // 8, ...] if reduce else xy", "xy = xy[: xy.size(0) // 8] if reduce else xy", None),
    V("C15", "symmetric-identity-block-half", TRF, "phi[: xy.shape[0] // num_augment] = 0.0", "phi[: xy.shape[0] // 2] = 0.0", "C15.b"),
    V("C15", "symmetric-identity-on-tail", TRF, "phi[: xy.shape[0] // num_augment] = 0.0", "phi[xy.shape[0] // num_augment :] = 0.0", "C15.b"),
    V("C15", "symmetric-identity-guard-inverted", TRF, "    if not first_augment:\n        phi", "    if first_augment:\n        phi", "C15.b"),
    V("C15", "symmetric-x-twice", TRF, "x, y = xy[..., [0]], xy[..., [1]]", "x, y = xy[..., [0]], xy[..., [0]]", "C15.b"),
    V("C15", "state-aug-other-count", TRF, "aug_feat = self.augmentation(td_aug[feat], self.num_augment)", "aug_feat = self.augmentation(td_aug[feat], self.num_augment + 1)", "C15.b"),
    V("C15", "state-aug-written-to-first-feature", TRF, "            td_aug[feat] = aug_feat", "            td_aug[self.feats[0]] = aug_feat", "C15.b"),
    V("C15", "eq-state-aug-alias", TRF, "        td_aug = batchify(td, self.num_augment)\n        for feat in self.feats:", "        out = batchify(td, self.num_augment)\n        td_aug = out\n        for feat in self.feats:", None),
    V("C15", "aug-eval-reward-on-augmented", EVF, 'rewards = self.env.get_reward(batchify(td_init, num_augment), out["actions"])', 'rewards = self.env.get_reward(td, out["actions"])', "C15.c"),
    V("C15", "aug-eval-clone-after-augmentation", EVF, '        td_init = td.clone()\n        td = self.augmentation(td)\n        out = policy(td.clone(), decode_type="greedy", num_starts=0)', '        td = self.augmentation(td)\n        td_init = td.clone()\n        out = policy(td.clone(), decode_type="greedy", num_starts=0)', "C15.c"),
    V("C15", "eq-aug-eval-clone-alias", EVF, '        td_init = td.clone()\n        td = self.augmentation(td)\n        out = policy(td.clone(), decode_type="greedy", num_starts=0)', '        original = td.clone()\n        td_init = original\n        td = self.augmentation(td)\n        out = policy(td.clone(), decode_type="greedy", num_starts=0)', None),
    V("C15", "aug-eval-instance-major-view", EVF, '        rewards = unbatchify(rewards, num_augment)\n        actions = unbatchify(out["actions"], num_augment)\n\n        # Get best reward', '        rewards = rewards.view(-1, num_augment)\n        actions = out["actions"].view(rewards.size(0), num_augment, -1)\n\n        # Get best reward', "C15.c"),
    V("C15", "eval-pad-to-first-batch", EVF, "max_length = max(action.size(-1) for action in actions_list)", "max_length = actions_list[0].size(-1)", "C15.c"),
    V("C17", "eval-pad-to-shortest", EVF, "max_length = max(action.size(-1) for action in actions_list)", "max_length = min(action.size(-1) for action in actions_list)", "C17.b"),
    V("C17", "eval-pad-on-the-left", EVF, "(0, max_length - action.size(-1))", "(max_length - action.size(-1), 0)", "C17.b"),
    V("C17", "eq-eval-pad-rename", EVF, "max_length = max(action.size(-1) for action in actions_list)", "max_length = max(a.size(-1) for a in actions_list)", None),
]

CORPUS += [
    V("C11", "forward-returns-other-actions", CPB, '            outdict["actions"] = actions', '            outdict["actions"] = torch.stack(decode_strategy.actions, 1)', "C11.c"),
    V("C11", "forward-hook-result-swapped", CPB, "        logprobs, actions, td, env = decode_strategy.post_decoder_hook(td, env)", "        actions, logprobs, td, env = decode_strategy.post_decoder_hook(td, env)", "C11.c"),
    V("C11", "eq-forward-hook-result-renamed", CPB, "        logprobs, actions, td, env = decode_strategy.post_decoder_hook(td, env)", "        lp, acts, td, env = decode_strategy.post_decoder_hook(td, env)\n        logprobs, actions = lp, acts", None),
    V("C16", "rollout-values-not-detached", BLF, "            .detach()\n            .cpu()", "            .cpu()", "C16.a"),
    V("C16", "eq-rollout-values-detach-after-cpu", BLF, "            .detach()\n            .cpu()", "            .cpu().detach()", None),
]

# ---- rules added after the sub-agent seeds: registry, best-replica outputs, expansion layout, frozen copy, ATSP closure, units
_MG = R + "mtvrp/generator.py"
_ME = R + "mtvrp/env.py"
CORPUS += [
    V("C10", "registry-greedy-dropped", DECP, '        "greedy": Greedy,\n', "", "C10.d"),
    V("C10", "registry-multistart-greedy-samples", DECP, '"multistart_greedy": Greedy,', '"multistart_greedy": Sampling,', "C10.d"),
    V("C12", "select-best-keeps-first-replica-state", DECP, "        td = unbatchify_and_gather(td, max_idxs, self.num_starts)\n\n        return logprobs, actions, td, env", "        td = td[: max_idxs.shape[0]]\n\n        return logprobs, actions, td, env", "C12.c"),
    V("C12", "cache-expanded-instance-major", "rl4co/models/zoo/am/decoder.py", "new_embs.append(batchify(emb, num_starts))", "new_embs.append(emb.repeat_interleave(num_starts, dim=0))", "C12.a"),
    V("C14", "cache-expanded-instance-major-c14", "rl4co/models/zoo/am/decoder.py", "new_embs.append(batchify(emb, num_starts))", "new_embs.append(emb.repeat_interleave(num_starts, dim=0))", "C14.e"),
    V("C14", "loglik-dimensionless-squeeze", DECP, "logprobs = logprobs.gather(-1, actions.unsqueeze(-1)).squeeze(-1)", "logprobs = logprobs.gather(-1, actions.unsqueeze(-1)).squeeze()", "C14.b"),
    V("C16", "rollout-baseline-shallow-copy", BLF, "self.policy = copy.deepcopy(policy).to(device)", "self.policy = copy.copy(policy).to(device)", "C16.a"),
    V("C16", "warmup-mixture-weights-swapped", BLF, "            self.alpha * v_b + (1 - self.alpha) * v_wb,", "            v_b + self.alpha * (v_wb - v_b),", "C16.d"),
    V("C16", "eq-warmup-mixture-factored", BLF, "            self.alpha * v_b + (1 - self.alpha) * v_wb,", "            v_wb + self.alpha * (v_b - v_wb),", None),
    V("C18", "atsp-relaxation-early-exit", R + "atsp/generator.py", "                dms = torch.minimum(dms, dms[..., :, [i]] + dms[..., [i], :])", "                relaxed = torch.minimum(dms, dms[..., :, [i]] + dms[..., [i], :])\n                if torch.equal(relaxed, dms):\n                    break\n                dms = relaxed", "C18.e"),
    V("C18", "atsp-relaxation-skips-last-pivot", R + "atsp/generator.py", "            for i in range(self.num_loc):", "            for i in range(self.num_loc - 1):", "C18.e"),
    V("C18", "mtvrp-tw-start-in-distance-units", _MG, "torch.rand(batch_size, n_loc)) * d_0i / speed", "torch.rand(batch_size, n_loc)) * d_0i", "C18.f"),
    V("C18", "mtvrp-hmax-without-speed", _MG, "/ d_0i * speed - 1", "/ d_0i - 1", "C18.f"),
    V("C01", "mtvrp-step-clock-adds-distance", _ME, 'td["current_time"] + distance / td["speed"], start_times', 'td["current_time"] + distance, start_times', "C01.u"),
    V("C01", "mtvrp-mask-arrival-adds-distance", _ME, 'arrival_time = td["current_time"] + (d_ij / td["speed"])', 'arrival_time = td["current_time"] + d_ij', "C01.u"),
    V("C06", "mtvrp-checker-clock-adds-distance-again", _ME, 'curr_time + dist / td["speed"].squeeze(-1),', "curr_time + dist,", "C06.h"),
    V("C06", "mtvrp-checker-return-times-speed", _ME, 'td["time_windows"][..., :, 0] + d_j0 / td["speed"] + td["service_time"]', 'td["time_windows"][..., :, 0] + d_j0 * td["speed"] + td["service_time"]', "C06.h"),
]

# ---- FJSP text format on the value graph
CORPUS += [
    V("C19", "fjsp-cursor-skips-count-token", FPF, "idx += 1 + num_pairs", "idx += num_pairs", "C19.c"),
    V("C19", "fjsp-machines-read-from-duration-slots", FPF, "machines = line[idx + 1 : idx + 1 + num_pairs : 2]", "machines = line[idx + 2 : idx + 2 + num_pairs : 2]", "C19.c"),
    V("C19", "fjsp-pairs-zipped-reversed", FPF, "operations.append([(m, d) for m, d in zip(machines, durations)])", "operations.append([(m, d) for m, d in zip(durations, machines)])", "C19.c"),
    V("C19", "fjsp-writer-duration-first", FPF, "job.extend([int(machine.item()) + 1, int(duration.item())])", "job.extend([int(duration.item()), int(machine.item()) + 1])", "C19.c"),
    V("C19", "eq-fjsp-reader-reassociated", FPF, "        num_pairs = int(line[idx]) * 2\n        machines = line[idx + 1 : idx + 1 + num_pairs : 2]\n        durations = line[idx + 2 : idx + 2 + num_pairs : 2]",
      "        n2 = 2 * int(line[idx])\n        machines = line[1 + idx : idx + n2 + 1 : 2]\n        durations = line[2 + idx : 2 + idx + n2 : 2]\n        num_pairs = n2", None),
]

# ---- defects F14-F16 (found after the rank / padding rules were strengthened): re-introducing them must fire
_MT = R + "mtsp/env.py"
_MD = R + "mdcpdp/env.py"
CORPUS += [
    V("C04", "mtsp-legs-added-while-padded-again", _MT, '        current_length = td["current_length"] + get_distance(cur_loc, prev_loc) * (\n            ~was_done\n        )', '        current_length = td["current_length"] + get_distance(cur_loc, prev_loc)', "C04.c"),
    V("C03", "mtsp-return-leg-while-padded", _MT, "            done & ~was_done,\n", "            done,\n", None),   # cur == depot on a padding step: the extra term is dist(depot, depot) = 0
    V("C03", "mtsp-legs-added-while-padded-again-c03", _MT, '        current_length = td["current_length"] + get_distance(cur_loc, prev_loc) * (\n            ~was_done\n        )', '        current_length = td["current_length"] + get_distance(cur_loc, prev_loc)', "C03.d"),
    V("C04", "mdcpdp-step-length-rank1-again", _MD, "current_step_length = self.get_distance(prev_loc, curr_loc).unsqueeze(-1)", "current_step_length = self.get_distance(prev_loc, curr_loc)", "C04.a"),
    V("C04", "eq-mdcpdp-step-length-none-index", _MD, "current_step_length = self.get_distance(prev_loc, curr_loc).unsqueeze(-1)", "current_step_length = self.get_distance(prev_loc, curr_loc)[..., None]", None),
    V("C06", "mtvrp-checker-capacity-rank2-again", R + "mtvrp/env.py", 'used_cap <= td["vehicle_capacity"][:, 0]', 'used_cap <= td["vehicle_capacity"]', "C06.f"),
    V("C04", "mtvrp-checker-capacity-rank2-again-c04", R + "mtvrp/env.py", 'used_cap <= td["vehicle_capacity"][:, 0]', 'used_cap <= td["vehicle_capacity"]', "C04.a"),
    V("C06", "eq-mtvrp-checker-capacity-squeeze", R + "mtvrp/env.py", 'used_cap <= td["vehicle_capacity"][:, 0]', 'used_cap <= td["vehicle_capacity"].squeeze(-1)', None),
]

CORPUS += [
    V("C12", "pomo-regroup-multistart-factor-first", "rl4co/models/zoo/pomo/model.py", "(n_aug, n_start)", "(n_start, n_aug)", "C12.b", count=99),
]

CORPUS += [
    V("C10", "top-p-most-likely-not-kept-explicitly", DECP, "    sorted_indices_to_remove[..., -1] = False\n", "", "C10.b"),
    V("C10", "top-p-keeps-first-instead-of-last", DECP, "    sorted_indices_to_remove[..., -1] = False\n", "    sorted_indices_to_remove[..., 0] = False\n", "C10.b"),
]

CORPUS += [
    V("C19", "mtvrp-load-capacity-not-rescaled-again", R + "mtvrp/env.py", '            # the capacity is expressed in the same (normalised) unit as the demands\n            td_load.set(\n                "vehicle_capacity",\n                td_load["vehicle_capacity"] / td_load["capacity_original"],\n            )\n', "", "C19.b"),
    V("C19", "mtvrp-load-backhaul-not-rescaled", R + "mtvrp/env.py", '            td_load.set(\n                "demand_backhaul",\n                td_load["demand_backhaul"] / td_load["capacity_original"],\n            )\n', "", "C19.b"),
]

_PC = R + "pctsp/env.py"
CORPUS += [
    V("C01", "pctsp-mask-literal-requirement-again", _PC, '(td["cur_total_prize"] < td["prize_required"])', '(td["cur_total_prize"] < 1.0)', "C01.b"),
    V("C05", "pctsp-mask-literal-requirement-again-c05", _PC, '(td["cur_total_prize"] < td["prize_required"])', '(td["cur_total_prize"] < 1.0)', "C05.c"),
    V("C06", "pctsp-checker-literal-requirement-again", _PC, '(p.sum(-1) >= td["prize_required"] - 1e-5)', "(p.sum(-1) >= 1 - 1e-5)", "C06.a"),
    V("C06", "pctsp-checker-tolerance-on-strict-side", _PC, '(p.sum(-1) >= td["prize_required"] - 1e-5)', '(p.sum(-1) >= td["prize_required"] + 1e-5)', "C06.b"),
]

CORPUS += [
    V("C18", "center-sampler-half-width-again", "rl4co/envs/common/utils.py", "Uniform(low=(high + low) / 2, high=(high + low) / 2)", "Uniform(low=(high - low) / 2, high=(high - low) / 2)", "C18.b"),
    V("C18", "eq-center-sampler-reassociated", "rl4co/envs/common/utils.py", "Uniform(low=(high + low) / 2, high=(high + low) / 2)", "Uniform(low=low + (high - low) / 2, high=low + (high - low) / 2)", None),
]

CORPUS += [
    V("C18", "cvrp-demand-sampler-unused", R + "cvrp/generator.py", "        demand = self.demand_sampler.sample((*batch_size, self.num_loc))", "        demand = torch.rand(*batch_size, self.num_loc) * 9", "C18.b"),
]

CORPUS += [
    V("C16", "a2c-critic-not-optimised", "rl4co/models/rl/a2c/a2c.py", '        ] + [{"params": self.baseline.parameters(), **self.critic_optimizer_kwargs}]\n', "        ]\n", "C16.b"),
    V("C16", "a2c-no-critic-baseline", "rl4co/models/rl/a2c/a2c.py", "baseline=CriticBaseline(critic)", 'baseline="no"', "C16.b"),
]

CORPUS += [
    V("C06", "op-checker-accepts-repeated-customers", R + "op/env.py", "(sorted_actions[:, 1:] == 0)", "(sorted_actions[:, 1:] != 0)", "C06.i"),
    V("C06", "pctsp-checker-increase-reversed", _PC, "| (sorted_actions[..., 1:] > sorted_actions[..., :-1])", "| (sorted_actions[..., 1:] < sorted_actions[..., :-1])", "C06.i"),
    V("C06", "eq-pctsp-checker-increase-mirrored", _PC, "| (sorted_actions[..., 1:] > sorted_actions[..., :-1])", "| (sorted_actions[..., :-1] < sorted_actions[..., 1:])", None),
]

_FJ = "rl4co/envs/scheduling/fjsp/env.py"
CORPUS += [
    V("C03", "fjsp-stepwise-reward-sign", _FJ, 'td["reward"] = -(lbs.max(1).values - td["lbs"].max(1).values)', 'td["reward"] = (lbs.max(1).values - td["lbs"].max(1).values)', "C03.d"),
    V("C03", "fjsp-stepwise-reward-sum-of-bounds", _FJ, 'td["reward"] = -(lbs.max(1).values - td["lbs"].max(1).values)', 'td["reward"] = -(lbs.max(1).values + td["lbs"].max(1).values)', "C03.d"),
    V("C03", "eq-fjsp-stepwise-reward-rewritten", _FJ, 'td["reward"] = -(lbs.max(1).values - td["lbs"].max(1).values)', 'td["reward"] = td["lbs"].max(dim=1)[0] - lbs.max(dim=1)[0]', None),
]

CORPUS += [
    V("C08", "mdpp-quota-not-refreshed-again", "rl4co/envs/eda/mdpp/env.py", "        self.max_decaps = self.generator.max_decaps\n", "", "C08.e"),
]

_CG = R + "cvrp/generator.py"
CORPUS += [
    V("C18", "cvrp-demand-shift-two", _CG, "demand = (demand.int() + 1).float()", "demand = (demand.int() + 2).float()", "C18.g"),
    V("C18", "cvrp-demand-sampler-bounds-unshifted", _CG, '"demand", demand_distribution, min_demand - 1, max_demand - 1, **kwargs', '"demand", demand_distribution, min_demand, max_demand, **kwargs', "C18.g"),
    V("C18", "cvrp-demand-not-normalised", _CG, '"demand": demand / self.capacity,', '"demand": demand,', "C18.g"),
    V("C18", "eq-cvrp-demand-shift-reordered", _CG, "demand = (demand.int() + 1).float()", "demand = (1 + demand.int()).float()", None),
]

CORPUS += [
    V("C20", "warmup-wraps-with-inner-baseline-at-alpha-zero", BLF, "        if self.alpha > 0:\n            return self.baseline.wrap_dataset", "        if self.alpha >= 0:\n            return self.baseline.wrap_dataset", "C20.d"),
    V("C20", "eq-warmup-wrap-guard-mirrored", BLF, "        if self.alpha > 0:\n            return self.baseline.wrap_dataset", "        if 0 < self.alpha:\n            return self.baseline.wrap_dataset", None),
]

# ---- term polarity of matched constraint literals (C01.q / C05.d / C06.k) and checker accumulator directions (C06.j)
CORPUS += [
    V("C01", "mtvrp-return-constraint-on-open-routes-only", _ME, '+ td["service_time"] + (d_j0 / td["speed"])\n        ) * ~td["open_route"] <= late_tw[..., 0:1]', '+ td["service_time"] + (d_j0 / td["speed"])\n        ) * td["open_route"] <= late_tw[..., 0:1]', "C01.q"),
    V("C05", "mtvrp-return-constraint-on-open-routes-only-c05", _ME, '+ td["service_time"] + (d_j0 / td["speed"])\n        ) * ~td["open_route"] <= late_tw[..., 0:1]', '+ td["service_time"] + (d_j0 / td["speed"])\n        ) * td["open_route"] <= late_tw[..., 0:1]', "C05.d"),
    V("C01", "mtvrp-return-leg-subtracted", _ME, 'torch.max(arrival_time, early_tw) + td["service_time"] + (d_j0 / td["speed"])', 'torch.max(arrival_time, early_tw) + td["service_time"] - (d_j0 / td["speed"])', "C01.q"),
    V("C01", "mtvrp-linehauls-missing-counts-visited", _ME, '(td["demand_linehaul"] * ~td["visited"]).sum(-1) > 0', '(td["demand_linehaul"] * td["visited"]).sum(-1) > 0', "C01.q"),
    V("C01", "mtvrp-distance-limit-return-for-open-routes", _ME, 'td["current_route_length"] + d_ij + (d_j0 * ~td["open_route"])', 'td["current_route_length"] + d_ij + (d_j0 * td["open_route"])', "C01.q"),
    V("C06", "mtvrp-checker-clock-runs-backwards", _ME, 'curr_time + dist / td["speed"].squeeze(-1),', 'curr_time - dist / td["speed"].squeeze(-1),', "C06.j"),
    V("C06", "cvrptw-checker-clock-runs-backwards", R + "cvrptw/env.py", "curr_time + dist", "curr_time - dist", "C06.j"),
    V("C06", "mtvrp-checker-service-time-subtracted", _ME, 'curr_time + gather_by_index(td["service_time"], next_node)', 'curr_time - gather_by_index(td["service_time"], next_node)', "C06.j"),
    V("C06", "mtvrp-checker-open-route-flag-polarity", _ME, 'curr_length + dist * ~(td["open_route"].squeeze(-1) & (next_node == 0))', 'curr_length + dist * (td["open_route"].squeeze(-1) & (next_node == 0))', "C06"),
]

CORPUS += [
    V("C03", "mdcpdp-free-leg-or", _MD, '(current_node < num_depot) & (td["current_node"] < num_depot),\n            0,', '(current_node < num_depot) | (td["current_node"] < num_depot),\n            0,', "C03.d"),
    V("C03", "mdcpdp-open-mode-return-leg-strict", _MD, '(current_node < num_depot) & (td["current_node"] >= num_depot),', '(current_node < num_depot) & (td["current_node"] > num_depot),', "C03.d"),
    V("C03", "mdcpdp-open-mode-guard-inverted", _MD, 'if self.problem_mode == "open":', 'if self.problem_mode != "open":', "C03.d"),
]

_FL = "rl4co/envs/graph/flp/env.py"
CORPUS += [
    V("C03", "flp-reward-min-over-locations", _FL, "            .min(1)\n            .values.sum(-1)", "            .min(2)\n            .values.sum(-1)", "C03.e"),
    V("C03", "eq-flp-reward-min-dim-keyword", _FL, "            .min(1)\n            .values.sum(-1)", "            .min(dim=1)\n            .values.sum(dim=-1)", None),
    V("C03", "mtsp-closing-leg-after-max-update", _MT,
      "        # At the step that finishes the instance, we add the distance from the current_node to the depot as well\n        current_length = torch.where(\n            done & ~was_done,\n            current_length + get_distance(cur_loc, depot_loc),\n            current_length,\n        )\n\n        # We update the max_subtour_length and reset the current_length\n        max_subtour_length = torch.where(\n            current_length > td[\"max_subtour_length\"],\n            current_length,\n            td[\"max_subtour_length\"],\n        )\n",
      "        # We update the max_subtour_length and reset the current_length\n        max_subtour_length = torch.where(\n            current_length > td[\"max_subtour_length\"],\n            current_length,\n            td[\"max_subtour_length\"],\n        )\n\n        current_length = torch.where(\n            done & ~was_done,\n            current_length + get_distance(cur_loc, depot_loc),\n            current_length,\n        )\n", "C03.d"),
]


# entries for the rules added after the third seeding round live in their own module (it appends to CORPUS)
from . import corpus_r3  # noqa: E402,F401
