"""Corpus entries for the rules added after the third seeding round (mutants with the rule that must fire, equivalents with None)."""
from .corpus import V, CORPUS, R, S_, G_

_SV = R + "svrp/env.py"
_CW = R + "cvrptw/env.py"
_CV = R + "cvrp/env.py"
_PD = R + "pdp/env.py"
_TS = R + "tsp/env.py"
_MD = R + "mdcpdp/env.py"
_AG = R + "atsp/generator.py"
_PG = R + "pdp/generator.py"
_MG = R + "mtvrp/generator.py"
_MCG = G_ + "mcp/generator.py"
_FJ = S_ + "fjsp/env.py"
_FF = S_ + "ffsp/env.py"
_BASE = "rl4co/envs/common/base.py"
_OPS = "rl4co/utils/ops.py"
_NO = "rl4co/models/zoo/neuopt/policy.py"
_PN = "rl4co/models/zoo/ptrnet/policy.py"
_EV = "rl4co/tasks/eval.py"
_FG = S_ + "fjsp/generator.py"
_FLP = G_ + "flp/env.py"

CORPUS += [
    # ---- C06.o technician counter / C06.l clock truncation
    V("C06", "svrp-checker-technician-only-after-nonempty-route", _SV,
      '                ).all(), "Skill level not met"\n            start = each[1] + 1  # skip the depot\n            tech += 1',
      '                ).all(), "Skill level not met"\n                tech += 1\n            start = each[1] + 1  # skip the depot', "C06.o"),
    V("C06", "eq-svrp-checker-technician-plain-assign", _SV,
      '            start = each[1] + 1  # skip the depot\n            tech += 1', '            start = each[1] + 1  # skip the depot\n            tech = tech + 1', None),
    V("C06", "cvrptw-checker-arrival-truncated", _CW, "                curr_time + dist,\n", "                (curr_time + dist).int(),\n", "C06.l"),
    V("C06", "cvrptw-checker-arrival-floored", _CW, "                curr_time + dist,\n", "                torch.floor(curr_time + dist),\n", "C06.l"),
    V("C06", "eq-cvrptw-checker-arrival-commuted", _CW, "                curr_time + dist,\n", "                dist + curr_time,\n", None),
    V("C06", "cvrptw-checker-foreign-quantity", _CW, "                curr_time\n                <= gather_by_index(td[\"time_windows\"], next_node)[..., 1].reshape(", "                curr_time - gather_by_index(td[\"demand\"], next_node, squeeze=False) * 0.5\n                <= gather_by_index(td[\"time_windows\"], next_node)[..., 1].reshape(", "C06"),
    # ---- C18.n / o / p / q
    V("C18", "atsp-range-applied-twice", _AG, 'get_sampler("dist", dist_distribution, 0.0, 1.0, **kwargs)', 'get_sampler("dist", dist_distribution, min_dist, max_dist, **kwargs)', "C18.n"),
    V("C18", "atsp-range-never-applied", _AG, "            * (self.max_dist - self.min_dist)\n            + self.min_dist\n", "", "C18"),
    V("C18", "eq-atsp-rescale-commuted", _AG, "            * (self.max_dist - self.min_dist)\n            + self.min_dist\n", "            * (-self.min_dist + self.max_dist)\n            + self.min_dist\n", None),
    V("C18", "pdp-odd-count-fixup-on-the-local", _PG, "            self.num_loc += 1\n", "            num_loc += 1\n", "C18.o"),
    V("C18", "pdp-odd-count-fixup-adds-two", _PG, "            self.num_loc += 1\n", "            self.num_loc += 2\n", "C18.o"),
    V("C18", "eq-pdp-odd-count-fixup-plain-assign", _PG, "            self.num_loc += 1\n", "            self.num_loc = self.num_loc + 1\n", None),
    V("C18", "eq-pdp-odd-count-test-as-truth-value", _PG, "        if num_loc % 2 != 0:", "        if num_loc % 2:", None),
    V("C18", "mtvrp-distance-guard-bypassed", _MG, "        # calculate distance of all locations to depot\n        dist_to_depot", "        if self.distance_limit > 2 * 2**0.5:\n            return torch.full(shape, self.distance_limit, dtype=torch.float32)\n        # calculate distance of all locations to depot\n        dist_to_depot", "C18.p"),
    V("C18", "mtvrp-distance-guard-one-way", _MG, "            dist_to_depot * 2 < self.distance_limit  # go back and forth", "            dist_to_depot < self.distance_limit  # go back and forth", "C18.p"),
    V("C18", "eq-mtvrp-distance-guard-mirrored", _MG, "            dist_to_depot * 2 < self.distance_limit  # go back and forth", "            self.distance_limit > 2 * dist_to_depot  # go back and forth", None),
    V("C18", "mtvrp-horizon-guard-weakened", _MG, "            h_max >= 1  # reach the node", "            h_max >= 0  # reach the node", "C18.p"),
    V("C18", "eq-mtvrp-horizon-guard-mirrored", _MG, "            h_max >= 1  # reach the node", "            1 <= h_max  # reach the node", None),
    V("C18", "mcp-membership-width-from-the-draw", _MCG, "(batch_size, self.num_sets, self.max_size)", "(batch_size, self.num_sets, set_sizes.max().item())", "C18.q"),
    # ---- C09.i / j / k
    V("C09", "pdp-ruin-repair-reset-stamps-from-zero", _PD, "            current_nodes = current_rec[arange, pre]\n            visited_time[arange, current_nodes] = i + 1", "            current_nodes = current_rec[arange, pre]\n            visited_time[arange, current_nodes] = i", "C09.i"),
    V("C09", "pdp-ruin-repair-step-stamps-from-two", _PD, "            current_nodes = next_rec[arange, pre]\n            visited_time[arange, current_nodes] = i + 1", "            current_nodes = next_rec[arange, pre]\n            visited_time[arange, current_nodes] = i + 2", "C09.i"),
    V("C09", "eq-pdp-ruin-repair-stamp-commuted", _PD, "            current_nodes = next_rec[arange, pre]\n            visited_time[arange, current_nodes] = i + 1", "            current_nodes = next_rec[arange, pre]\n            visited_time[arange, current_nodes] = 1 + i", None),
    V("C09", "pdp-ruin-repair-sampler-rowwise-softmax", _PD, "        prob = torch.softmax(logits.view(batch_size, -1), -1)\n        sample = prob.multinomial(1)", "        prob = torch.softmax(logits, -1)\n        sample = prob.view(batch_size, -1).multinomial(1)", "C09.j"),
    V("C09", "eq-pdp-ruin-repair-sampler-method-softmax", _PD, "        prob = torch.softmax(logits.view(batch_size, -1), -1)", "        prob = logits.reshape(batch_size, -1).softmax(-1)", None),
    V("C09", "neuopt-record-before-padding", _NO,
      "            action_sampled = action_sampled.unsqueeze(-1)\n            if i > 0:",
      "            action_sampled = action_sampled.unsqueeze(-1)\n            action_index[:, i] = action_sampled.squeeze().clone()\n            if i > 0:", "C09.k"),
    # ---- C04.e
    V("C04", "pdp-ruin-repair-overlapping-shift", _PD, "action_record[:, :-1] = action_record[:, 1:].clone()", "action_record[:, :-1] = action_record[:, 1:]", "C04.e"),
    V("C04", "kopt-sampler-dimension-less-squeeze", _TS, "                action_index[:, i] = action.squeeze(-1).clone()", "                action_index[:, i] = action.squeeze().clone()", "C04.e"),
    V("C04", "eq-pdp-ruin-repair-shift-through-roll", _PD, "action_record[:, :-1] = action_record[:, 1:].clone()", "action_record[:, :-1] = action_record[:, 1:].detach().clone()", None),
    # ---- C01.z / r / p / y, C05.d / f / i
    V("C01", "cvrptw-arrival-cast-to-window-dtype", _CW, '            td["current_time"] + dist <= td["time_windows"][..., 1]', '            (td["current_time"] + dist).to(td["time_windows"].dtype) <= td["time_windows"][..., 1]', "C01.z"),
    V("C01", "cvrptw-arrival-truncated", _CW, '            td["current_time"] + dist <= td["time_windows"][..., 1]', '            (td["current_time"] + dist).int() <= td["time_windows"][..., 1]', "C01.z"),
    V("C01", "eq-cvrptw-arrival-commuted", _CW, '            td["current_time"] + dist <= td["time_windows"][..., 1]', '            dist + td["current_time"] <= td["time_windows"][..., 1]', None),
    V("C01", "torchrl-step-on-a-shallow-copy", _BASE, "        next_tensordict = self._step(\n            td.clone()\n        )", "        next_tensordict = self._step(\n            td.clone(recurse=False)\n        )", "C01.r"),
    V("C01", "eq-torchrl-step-explicit-deep-clone", _BASE, "        next_tensordict = self._step(\n            td.clone()\n        )", "        next_tensordict = self._step(td.clone(recurse=True))", None),
    V("C01", "mdcpdp-capacity-slice-stops-one-short", _MD, "            ..., num_depot:pd_split_idx\n        ] &= ~capacity_flag", "            ..., num_depot:pd_split_idx - 1\n        ] &= ~capacity_flag", "C01.p"),
    V("C01", "cvrp-capacity-stored-with-a-bonus", _CV, "(*batch_size, 1), self.generator.vehicle_capacity, device=device", "(*batch_size, 1), self.generator.vehicle_capacity + 1e-3, device=device", "C01.y"),
    V("C01", "cvrptw-mask-credits-the-demand", _CW, '            td["current_time"] + dist <= td["time_windows"][..., 1]', '            td["current_time"] + dist - td["demand"].sum(-1, keepdim=True) * 0 - td["used_capacity"] <= td["time_windows"][..., 1]', "C01.q"),
    V("C05", "cvrp-capacity-stored-with-a-margin", _CV, "(*batch_size, 1), self.generator.vehicle_capacity, device=device", "(*batch_size, 1), self.generator.vehicle_capacity - 1e-6, device=device", "C05.f"),
    V("C05", "cvrptw-mask-counts-the-service-twice", _CW, '            td["current_time"] + dist <= td["time_windows"][..., 1]', '            td["current_time"] + gather_by_index(td["durations"], td["current_node"], squeeze=False) + dist <= td["time_windows"][..., 1]', "C05.d"),
    V("C05", "cvrptw-arrival-rounded-up", _CW, '            td["current_time"] + dist <= td["time_windows"][..., 1]', '            torch.ceil(td["current_time"] + dist) <= td["time_windows"][..., 1]', "C05.i"),
    # ---- C11.h
    V("C11", "entropy-renormalises-the-rows", _OPS, "    entropy = -(logprobs.exp() * logprobs).sum(dim=-1)  # [batch, decoder steps]", "    entropy = torch.distributions.Categorical(logits=logprobs).entropy()", "C11.h"),
    V("C11", "entropy-sign-dropped", _OPS, "    entropy = -(logprobs.exp() * logprobs).sum(dim=-1)  # [batch, decoder steps]", "    entropy = (logprobs.exp() * logprobs).sum(dim=-1)", "C11.h"),
    V("C11", "eq-entropy-sign-inside", _OPS, "    entropy = -(logprobs.exp() * logprobs).sum(dim=-1)  # [batch, decoder steps]", "    entropy = (-logprobs.exp() * logprobs).sum(-1)", None),
    # ---- C03.g row switch
    V("C03", "svrp-reward-row-switch-before-tail-fill", _SV, "                costs[batch, start:] = self.tech_costs[tech]\n                start = tech = 0\n                batch = each[0]", "                batch = each[0]\n                costs[batch, start:] = self.tech_costs[tech]\n                start = tech = 0", "C03.g"),
    # ---- C07.j
    V("C07", "ffsp-stage-table-aliases-machine-table", _FF, "            self.stage_machine_table = permutations", "            self.stage_machine_table = self.machine_table\n            self.stage_machine_table -= start_sub_ids[None]", "C07.j"),
    V("C07", "fjsp-processing-time-cast-to-int", _FJ, 'proc_time_of_action = td["proc_times"][batch_idx, selected_machine, selected_op]', 'proc_time_of_action = td["proc_times"][batch_idx, selected_machine, selected_op].to(torch.int64)', "C07.j"),
    V("C07", "eq-fjsp-processing-time-cloned", _FJ, 'proc_time_of_action = td["proc_times"][batch_idx, selected_machine, selected_op]', 'proc_time_of_action = td["proc_times"][batch_idx, selected_machine, selected_op].clone()', None),
    # ---- C08.g
    V("C08", "flp-selection-updated-in-place", _FLP, 'chosen = td["chosen"].clone()  # (batch_size, n_locations)', 'chosen = td["chosen"]  # (batch_size, n_locations)', "C08.g"),
    # ---- C14.f
    V("C14", "ptrnet-embedding-viewed-instead-of-transposed", _PN,
      '        embedded_inputs = torch.mm(\n            td["locs"].transpose(0, 1).contiguous().view(-1, input_dim),\n            self.embedding,\n        ).view(graph_size, batch_size, -1)',
      '        embedded_inputs = torch.matmul(td["locs"], self.embedding).view(\n            graph_size, batch_size, -1\n        )', "C14.f"),
    V("C14", "ptrnet-embedding-flattened-batch-major", _PN, 'td["locs"].transpose(0, 1).contiguous().view(-1, input_dim),', 'td["locs"].contiguous().view(-1, input_dim),', "C14.f"),
    # ---- C15.g
    V("C15", "greedy-eval-reports-the-rollout-reward", _EV, '        rewards = self.env.get_reward(td, out["actions"])\n        return out["actions"], rewards', '        return out["actions"], out["reward"]', "C15.g"),
    V("C15", "sampling-eval-rolls-out-on-a-default-env", _EV, "            td.clone(),\n            env=self.env,\n            decode_type=\"sampling\",", "            td.clone(),\n            decode_type=\"sampling\",", "C15.g"),
    # ---- C19.d / g / h
    V("C19", "setstate-rebuilds-rng-before-the-update", _BASE, "        self.__dict__.update(state)\n        self.rng = torch.manual_seed(0)\n        self.rng.set_state(state[\"rng\"])", "        self.rng = torch.manual_seed(0)\n        self.rng.set_state(state[\"rng\"])\n        self.__dict__.update(state)", "C19.d"),
    V("C19", "dataset-files-sorted", _BASE, "                    return [pjoin(data_dir, _f) for _f in f]", "                    return sorted(pjoin(data_dir, _f) for _f in f)", "C19.g"),
    V("C19", "eq-dataset-files-generator-to-list", _BASE, "                    return [pjoin(data_dir, _f) for _f in f]", "                    return list(pjoin(data_dir, _f) for _f in f)", None),
    V("C19", "fjsp-files-listed-unsorted", _FG, "            for f in sorted(os.listdir(path))", "            for f in os.listdir(path)", "C19.h"),
]

_MCE = G_ + "mcp/env.py"
CORPUS += [
    V("C08", "mcp-membership-shows-the-chosen-sets", _MCE, "remaining_sets = ~chosen", "remaining_sets = chosen", "C08.d"),
    V("C08", "mcp-weights-grow-with-coverage", _MCE, "remaining_items = 1.0 - covered_items", "remaining_items = 1.0 + covered_items", "C08.d"),
    V("C08", "mcp-covered-indicator-always-on", _MCE, "(chosen_items > 0).float()  # (batch_size, n_items)", "(chosen_items >= 0).float()  # (batch_size, n_items)", "C08.d"),
    V("C08", "eq-mcp-covered-indicator-count-at-least-one", _MCE, "(chosen_items > 0).float()  # (batch_size, n_items)", "(chosen_items >= 1).float()  # (batch_size, n_items)", None),
]

_MTS = R + "mtsp/env.py"
CORPUS += [
    V("C01", "mtsp-agent-counter-runs-backwards", _MTS, 'td["agent_idx"] + (current_node == 0).long()', 'td["agent_idx"] - (current_node == 0).long()', "C01.s"),
    V("C01", "mtsp-agent-counter-counts-customers", _MTS, 'td["agent_idx"] + (current_node == 0).long()', 'td["agent_idx"] + (current_node != 0).long()', "C01.s"),
    V("C01", "eq-mtsp-agent-counter-commuted", _MTS, 'td["agent_idx"] + (current_node == 0).long()', '(0 == current_node).long() + td["agent_idx"]', None),
    V("C05", "mtsp-depot-only-from-the-depot", _MTS, 'current_node != 0, td["agent_idx"] < td["num_agents"] - 1', 'current_node == 0, td["agent_idx"] < td["num_agents"] - 1', "C05.j"),
    V("C05", "mtsp-depot-closed-when-done", _MTS, "available[..., 0] = torch.logical_or(done, available[..., 0])", "available[..., 0] = torch.logical_and(done, available[..., 0])", "C05.j"),
    V("C05", "eq-mtsp-depot-column-mirrored", _MTS, 'current_node != 0, td["agent_idx"] < td["num_agents"] - 1', '0 != current_node, td["num_agents"] - 1 > td["agent_idx"]', None),
]

_PCT = R + "pctsp/env.py"
CORPUS += [
    V("C06", "pctsp-checker-count-adds-the-depot-entries", _PCT, "sorted_actions.size(-1) - (sorted_actions == 0).int().sum(-1)", "sorted_actions.size(-1) + (sorted_actions == 0).int().sum(-1)", "C06.n"),
    V("C06", "pctsp-checker-count-subtracts-the-customers", _PCT, "sorted_actions.size(-1) - (sorted_actions == 0).int().sum(-1)", "sorted_actions.size(-1) - (sorted_actions != 0).int().sum(-1)", "C06.n"),
    V("C06", "eq-pctsp-checker-count-from-unsorted-actions", _PCT, "sorted_actions.size(-1) - (sorted_actions == 0).int().sum(-1)", "(actions.shape[-1] - (actions == 0).sum(-1))", None),
]

_MOE = "rl4co/models/nn/moe.py"
_INI = "rl4co/models/nn/env_embeddings/init.py"
CORPUS += [
    V("C14", "moe-gating-noise-also-in-eval", _MOE, "        if self.noisy_gating and train:", "        if self.noisy_gating:", "C14.g"),
    V("C14", "moe-gating-noise-when-not-training", _MOE, "        if self.noisy_gating and train:", "        if self.noisy_gating and not train:", "C14.g"),
    V("C14", "attention-dropout-ungated", "rl4co/models/nn/attention.py", "            dropout_p=self.attention_dropout if self.training else 0.0,", "            dropout_p=self.attention_dropout,", "C14.g"),
]

_SD = R + "sdvrp/env.py"
CORPUS += [
    V("C06", "sdvrp-checker-room-adds-the-load", _SD, 'td["vehicle_capacity"].squeeze(-1) - used_cap', 'td["vehicle_capacity"].squeeze(-1) + used_cap', "C06.q"),
    V("C06", "sdvrp-checker-demand-grows", _SD, "demands[rng, a] -= d", "demands[rng, a] += d", "C06.q"),
    V("C06", "sdvrp-checker-load-shrinks", _SD, "used_cap += d", "used_cap -= d", "C06.q"),
    V("C06", "sdvrp-checker-depot-column-positive", _SD, 'torch.cat((-td["vehicle_capacity"], td["demand"]), 1)', 'torch.cat((td["vehicle_capacity"], td["demand"]), 1)', "C06.q"),
    V("C06", "eq-sdvrp-checker-minimum-commuted", _SD, 'd = torch.min(demands[rng, a], td["vehicle_capacity"].squeeze(-1) - used_cap)', 'd = torch.minimum(-used_cap + td["vehicle_capacity"].squeeze(-1), demands[rng, a])', None),
    V("C03", "flp-reward-min-over-the-unchosen", _FLP, 'orig_distances.masked_fill(~chosen.unsqueeze(-1), float("inf"))\n            .min(1)', 'orig_distances.masked_fill(chosen.unsqueeze(-1), float("inf"))\n            .min(1)', "C03.e"),
    V("C08", "flp-distances-min-over-the-unchosen", _FLP, 'orig_distances.masked_fill(~chosen.unsqueeze(-1), float("inf")).min(dim=1).values', 'orig_distances.masked_fill(chosen.unsqueeze(-1), float("inf")).min(dim=1).values', "C08.d"),
    V("C08", "flp-distances-filled-with-minus-inf", _FLP, 'orig_distances.masked_fill(~chosen.unsqueeze(-1), float("inf")).min(dim=1).values', 'orig_distances.masked_fill(~chosen.unsqueeze(-1), -float("inf")).min(dim=1).values', "C08.d"),
    V("C02", "ffsp-wait-when-any-job-in-stage", _FF, "(job_in_stage & (job_wait_time > 0)).any(dim=-1)", "(job_in_stage | (job_wait_time > 0)).any(dim=-1)", "C02.i"),
    V("C02", "ffsp-wait-for-jobs-of-this-stage", _FF, "(job_loc < stage_idx[:, None]).any(dim=-1)", "(job_loc <= stage_idx[:, None]).any(dim=-1)", "C02.i"),
    V("C02", "eq-ffsp-wait-column-or", _FF, "job_in_previous_stages + job_waiting_in_stage + done", "job_in_previous_stages | job_waiting_in_stage | done", None),
]

CORPUS += [
    V("C19", "eq-fjsp-files-listing-only-counted", _FG, "        assert len(files) > 0", "        assert len(files) > 0 and len(os.listdir(path)) >= len(files)", None),
]

CORPUS += [
    V("C18", "mtvrp-window-end-before-start", _MG, "        tw_end = tw_start + tw_length", "        tw_end = tw_start - tw_length", "C18.r"),
    V("C18", "mtvrp-window-start-column-is-the-end", _MG, "torch.cat((torch.zeros(batch_size, 1), tw_start), -1),  # start", "torch.cat((torch.zeros(batch_size, 1), tw_end), -1),  # start", "C18.r"),
    V("C18", "eq-mtvrp-window-end-commuted", _MG, "        tw_end = tw_start + tw_length", "        tw_end = tw_length + tw_start", None),
]

CORPUS += [
    V("C18", "mtvrp-demand-lower-bound-shifted-up", _MG, ".uniform_(self.min_demand - 1, self.max_demand - 1)", ".uniform_(self.min_demand + 1, self.max_demand - 1)", "C18.g"),
    V("C18", "mtvrp-backhaul-upper-bound-of-the-linehauls", _MG, ".uniform_(self.min_backhaul - 1, self.max_backhaul - 1)", ".uniform_(self.min_backhaul - 1, self.max_demand - 1)", "C18.g"),
]

_UTF = "rl4co/models/rl/common/utils.py"
_BLF = "rl4co/models/rl/reinforce/baselines.py"
_RFF = "rl4co/models/rl/reinforce/reinforce.py"
_DSF = "rl4co/data/dataset.py"
CORPUS += [
    V("C20", "scaler-statistics-pinned-to-float32", _UTF, "        self.mean = 0\n        self.M2 = 0", "        self.mean = torch.zeros((), dtype=torch.float32)\n        self.M2 = torch.zeros((), dtype=torch.float32)", "C20.f"),
    V("C20", "eq-scaler-statistics-float-zero", _UTF, "        self.mean = 0\n        self.M2 = 0", "        self.mean = 0.0\n        self.M2 = 0.0", None),
    V("C20", "warmup-shares-the-inner-moving-average", _BLF, "        self.warmup_baseline = ExponentialBaseline(warmup_exp_beta)", "        self.warmup_baseline = baseline if isinstance(baseline, ExponentialBaseline) else ExponentialBaseline(warmup_exp_beta)", "C20.f"),
    V("C20", "epoch-callback-skipped-for-the-last-epoch", _RFF, "        self.baseline.epoch_callback(\n            self.policy,", "        if self.current_epoch < self.trainer.max_epochs - 1:\n          self.baseline.epoch_callback(\n            self.policy,", "C20.f"),
    V("C20", "warmup-factory-nests-warmups", _BLF, 'inner_baseline = kw.pop("baseline", "rollout_only")', 'inner_baseline = kw.pop("baseline", "rollout")', "C20.e"),
    V("C17", "batched-fetch-added-to-the-parent", _DSF, "    def __getitem__(self, idx):\n        return self.data[idx]\n", "    def __getitem__(self, idx):\n        return self.data[idx]\n\n    def __getitems__(self, idx):\n        return [self.data[i] for i in idx]\n", "C17.f"),
]

_DEC = "rl4co/utils/decoding.py"
_MDD = "rl4co/models/zoo/mdam/decoder.py"
_DPE = "rl4co/envs/eda/dpp/env.py"
_ATE = R + "atsp/env.py"
CORPUS += [
    V("C10", "mdam-mask-before-clipping", _MDD, "        if self.tanh_clipping > 0:\n            logits = F.tanh(logits) * self.tanh_clipping\n        if self.mask_logits:\n            logits[~mask[:, None, :]] = -math.inf\n", "        if self.mask_logits:\n            logits[~mask[:, None, :]] = -math.inf\n        if self.tanh_clipping > 0:\n            logits = F.tanh(logits) * self.tanh_clipping\n", "C10.e"),
    V("C10", "greedy-drops-the-filters", _DEC, '    if "multistart" in decoding_strategy:\n        config["multistart"] = True\n', '    if "multistart" in decoding_strategy:\n        config["multistart"] = True\n    if "greedy" in decoding_strategy:\n        config["top_k"], config["top_p"] = 0, 0.0\n', "C10.f"),
    V("C10", "decode-logprobs-forced-move-shortcut", _DEC, '    if "greedy" in decode_type:\n        selected = DecodingStrategy.greedy(logprobs, mask)', '    if (mask.sum(-1) == 1).any():\n        return mask.long().argmax(dim=-1)\n    if "greedy" in decode_type:\n        selected = DecodingStrategy.greedy(logprobs, mask)', "C10.f"),
    V("C08", "dpp-mask-updated-in-place", _DPE, '        available = td["action_mask"].scatter(\n            -1, current_node.unsqueeze(-1).expand_as(td["action_mask"]), 0\n        )', '        available = td["action_mask"].scatter_(-1, current_node.unsqueeze(-1), False)', "C08.g"),
    V("C04", "atsp-closing-edge-rolled-over-the-batch", _ATE, "torch.roll(actions, -1, dims=1)", "torch.roll(actions, -1)", "C04.a"),
    V("C04", "mcp-quota-flattened-in-reset", G_ + "mcp/env.py", '"n_sets_to_choose": td["n_sets_to_choose"],  # (batch_size, 1)', '"n_sets_to_choose": td["n_sets_to_choose"].reshape(*batch_size),  # (batch_size,)', "C04.a"),
]

_ANT = "rl4co/models/zoo/deepaco/antsystem.py"
CORPUS += [
    V("C12", "deepaco-start-nodes-flattened-instance-major", _ANT, "            .transpose(0, 1)\n            .reshape(-1)", "            .reshape(-1)", "C12.e"),
    V("C12", "eq-deepaco-start-nodes-t-view", _ANT, "            .transpose(0, 1)\n            .reshape(-1)", "            .t()\n            .reshape(-1)", None),
    V("C12", "select-best-only-for-multistart", _DEC, "        if self.num_starts > 0 and self.select_best:", "        if self.multistart and self.select_best:", "C12.f"),
    V("C12", "eq-select-best-guard-commuted", _DEC, "        if self.num_starts > 0 and self.select_best:", "        if self.select_best and self.num_starts > 0:", None),
]

CORPUS += [
    V("C18", "pdp-extra-row-kept-with-a-depot-sampler", _PG, "            locs = self.loc_sampler.sample((*batch_size, self.num_loc, 2))", "            locs = self.loc_sampler.sample((*batch_size, self.num_loc + 1, 2))", "C18.s"),
]

# ---- rules added after the fifth seeding round
_OPE = R + "op/env.py"
_N2S = "rl4co/models/zoo/n2s/policy.py"
_TRF = "rl4co/data/transforms.py"
_FPP = S_ + "fjsp/parser.py"
CORPUS += [
    V("C01", "cvrp-step-clamps-with-the-configured-size", _CV, '        n_loc = td["demand"].size(-1)  # Excludes depot', "        n_loc = self.generator.num_loc  # Excludes depot", "C01.x"),
    V("C01", "mtsp-agent-counter-starts-at-one", _MTS, "agent_idx = torch.zeros((*batch_size,), dtype=torch.int64, device=device)", "agent_idx = torch.ones((*batch_size,), dtype=torch.int64, device=device)", "C01.s"),
    V("C05", "mtsp-agent-counter-starts-at-one-c05", _MTS, "agent_idx = torch.zeros((*batch_size,), dtype=torch.int64, device=device)", "agent_idx = torch.ones((*batch_size,), dtype=torch.int64, device=device)", "C05.j"),
    V("C05", "op-return-leg-budgeted-twice", _OPE, '            td["tour_length"][..., None] + (td["locs"] - current_loc).norm(p=2, dim=-1)\n            > td["max_length"]', '            td["tour_length"][..., None] + (td["locs"] - current_loc).norm(p=2, dim=-1) + (td["locs"] - td["locs"][..., 0:1, :]).norm(p=2, dim=-1)\n            > td["max_length"]', "C05.d"),
    V("C03", "mdcpdp-step-legs-euclidean", _MD, "        current_step_length = self.get_distance(prev_loc, curr_loc).unsqueeze(-1)", "        current_step_length = (curr_loc - prev_loc).norm(p=2, dim=-1).unsqueeze(-1)", "C03.h"),
    V("C09", "n2s-mask-called-with-the-pair-index", _N2S, "env.get_mask(action_removal + 1, td)", 'env.get_mask(td["action"], td)', "C09.l"),
    V("C09", "eq-n2s-mask-argument-commuted", _N2S, "env.get_mask(action_removal + 1, td)", "env.get_mask(1 + action_removal, td)", None),
    V("C09", "step-to-solution-shortcut", _BASE, "        return self._step(td, solution_to=solution)", '        if solution is td["rec_best"]:\n            td.update({"rec_current": solution.clone()})\n            return td\n        return self._step(td, solution_to=solution)', "C09.m"),
    V("C15", "dihedral-copies-clamped", _TRF, "    return aug_xy\n", "    return aug_xy.clamp_(min=0.0, max=1.0)\n", "C15.a"),
    V("C15", "multistart-eval-trims-trailing-zeros", _EV, "        actions = gather_by_index(actions, max_idxs, dim=1)\n        return actions, rewards", "        actions = gather_by_index(actions, max_idxs, dim=1)\n        actions = actions[:, : actions.size(-1) - 1]\n        return actions, rewards", "C15.i"),
    V("C19", "fjsp-file-names-not-padded", _FPP, "    file_name = f\"{str(id+1).rjust(4, '0')}_{num_jobs}j_{num_machines}m.txt\"", '    file_name = f"{id + 1}_{num_jobs}j_{num_machines}m.txt"', "C19.i"),
    V("C19", "eq-fjsp-file-names-padded-by-format", _FPP, "    file_name = f\"{str(id+1).rjust(4, '0')}_{num_jobs}j_{num_machines}m.txt\"", '    file_name = f"{id + 1:04d}_{num_jobs}j_{num_machines}m.txt"', None),
    V("C19", "multistart-prefix-added-twice", _RFF, '        elif "multistart" in attr_get:\n            return\n        else:\n            setattr(self.policy, attribute, f"multistart_{attr_get}")', '        setattr(self.policy, attribute, f"multistart_{attr_get}")', "C19.i"),
    V("C19", "explicit-file-name-joined-again", _BASE, '        f = getattr(self, f"{phase}_file") if filename is None else filename', '        f = getattr(self, f"{phase}_file") if filename is None else pjoin(self.data_dir, filename)', "C19.i"),
]

_CTX = "rl4co/models/nn/env_embeddings/context.py"
_PTD = "rl4co/models/zoo/ptrnet/decoder.py"
CORPUS += [
    V("C14", "ptrnet-attention-dimension-less-squeeze", _PTD, "        u = torch.bmm(v_view, F.tanh(expanded_q + e)).squeeze(1)", "        u = torch.bmm(v_view, F.tanh(expanded_q + e)).squeeze()", "C14.b"),
    V("C14", "tsp-context-caches-an-embedding-on-the-module", _CTX, "        return self.project_context(context_embedding)\n\n\nclass VRPContext", "        self.last_context = context_embedding\n        return self.project_context(context_embedding)\n\n\nclass VRPContext", "C14.h"),
    V("C13", "tsp-context-caches-an-embedding-on-the-module-c13", _CTX, "        return self.project_context(context_embedding)\n\n\nclass VRPContext", "        self.last_context = context_embedding\n        return self.project_context(context_embedding)\n\n\nclass VRPContext", "C13.g"),
    V("C10", "greedy-constructor-drops-the-filters", _DEC, 'class Greedy(DecodingStrategy):\n    name = "greedy"\n', 'class Greedy(DecodingStrategy):\n    name = "greedy"\n\n    def __init__(self, **kwargs) -> None:\n        kwargs.update(top_k=0, top_p=0.0)\n        super().__init__(**kwargs)\n', "C10.f"),
    V("C11", "greedy-constructor-drops-the-filters-c11", _DEC, 'class Greedy(DecodingStrategy):\n    name = "greedy"\n', 'class Greedy(DecodingStrategy):\n    name = "greedy"\n\n    def __init__(self, **kwargs) -> None:\n        kwargs.update(top_k=0, top_p=0.0)\n        super().__init__(**kwargs)\n', "C11.i"),
]

CORPUS += [
    V("C14", "mlp-dropouts-in-a-plain-list", "rl4co/models/nn/mlp.py", "        self.dropouts = nn.ModuleList()", "        self.dropouts = []", "C14.g"),
]

CORPUS += [
    V("C07", "ffsp-schedule-sentinel-minus-one", _FF, "            fill_value=-999999,", "            fill_value=-1,", "C07.k"),
    V("C07", "ffsp-machine-getter-reads-the-stage-table", _FF, "        return self.machine_table[pomo_idx, sub_time_idx]", "        return self.stage_machine_table[pomo_idx, sub_time_idx]", "C07.k"),
]

# ---- rules added after the sixth seeding round
_CRIT = "rl4co/models/rl/common/critic.py"
_MDM = "rl4co/models/zoo/mdam/model.py"
CORPUS += [
    V("C20", "exponential-beta-falsy-default", _BLF, "    def __init__(self, beta=0.8, **kw):\n        super(REINFORCEBaseline, self).__init__()\n\n        self.beta = beta", "    def __init__(self, beta=None, **kw):\n        super(REINFORCEBaseline, self).__init__()\n\n        self.beta = beta or 0.8", "C20.g"),
    V("C20", "eq-exponential-beta-none-default", _BLF, "    def __init__(self, beta=0.8, **kw):\n        super(REINFORCEBaseline, self).__init__()\n\n        self.beta = beta", "    def __init__(self, beta=None, **kw):\n        super(REINFORCEBaseline, self).__init__()\n\n        self.beta = 0.8 if beta is None else beta", None),
    V("C16", "exponential-beta-falsy-default-c16", _BLF, "    def __init__(self, beta=0.8, **kw):\n        super(REINFORCEBaseline, self).__init__()\n\n        self.beta = beta", "    def __init__(self, beta=None, **kw):\n        super(REINFORCEBaseline, self).__init__()\n\n        self.beta = beta or 0.8", "C16.g"),
    V("C20", "warmup-setup-resets-the-schedule", _BLF, "    def setup(self, *args, **kw):\n        self.baseline.setup(*args, **kw)", "    def setup(self, *args, **kw):\n        self.alpha = 0\n        self.baseline.setup(*args, **kw)", "C20.g"),
    V("C20", "scaler-updated-by-the-loss-as-well", _RFF, "        advantage = self.advantage_scaler(advantage)", "        self.advantage_scaler.update(advantage.detach())\n        advantage = self.advantage_scaler(advantage)", "C20.g"),
    V("C16", "critic-returns-a-vector", _CRIT, "            return self.value_head(h).mean(1)  # [batch_size, N] -> [batch_size]", "            return self.value_head(h).squeeze(-1).mean(1)", "C16.f"),
    V("C16", "eq-critic-mean-over-nodes-keyword", _CRIT, "            return self.value_head(h).mean(1)  # [batch_size, N] -> [batch_size]", "            return self.value_head(h).mean(dim=1)", None),
    V("C17", "mdam-rollout-left-in-training-mode", _MDM, "    model.eval()\n    model = model.to(device)", "    model = model.to(device)", "C17.g"),
    V("C12", "augmentation-eval-raw-gather-and-squeeze", _EV, "        actions = gather_by_index(actions, max_idxs, dim=1)\n        return actions, rewards\n\n    @property", "        actions = torch.take_along_dim(actions, max_idxs[:, None, None], dim=1).squeeze()\n        return actions, rewards\n\n    @property", "C12.c"),
]

# ---- round 6, second batch: rows decided per instance (C02.j / C08.i), finished selection rows (C02.k), parser (C02.l),
# exact distances (C03.i / C08.j), rewards read frozen state (C04.f / C04.g)
_DM_OLD = "    distance = (locs[..., :, None, :] - locs[..., None, :, :]).norm(p=2, dim=-1)\n    return distance"
CORPUS += [
    V("C02", "mtsp-fleet-size-of-the-first-instance", _MTS, 'current_node != 0, td["agent_idx"] < td["num_agents"] - 1', 'current_node != 0, td["agent_idx"] < batch_to_scalar(td["num_agents"]) - 1', "C02.j"),
    V("C02", "mcp-finished-row-all-masked", _MCE, "        action_mask = ~chosen\n\n        td.update(\n            {\n                \"membership\"", "        action_mask = ~chosen & ~done\n\n        td.update(\n            {\n                \"membership\"", "C02.k"),
    V("C02", "flp-finished-row-all-masked", _FLP, "        action_mask = ~chosen\n\n        td.update(\n            {\n                \"distances\"", "        action_mask = ~chosen & ~done.unsqueeze(-1)\n\n        td.update(\n            {\n                \"distances\"", "C02.k"),
    V("C02", "eq-mcp-mask-logical-not", _MCE, "        action_mask = ~chosen\n\n        td.update(\n            {\n                \"membership\"", "        action_mask = torch.logical_not(chosen)\n\n        td.update(\n            {\n                \"membership\"", None),
    V("C02", "fjsp-parser-drops-last-alternative", _FPP, "durations = line[idx + 2 : idx + 2 + num_pairs : 2]", "durations = line[idx + 2 : idx + num_pairs : 2]", "C02.l"),
    V("C02", "eq-fjsp-parser-stop-on-last-token", _FPP, "durations = line[idx + 2 : idx + 2 + num_pairs : 2]", "durations = line[idx + 2 : idx + 1 + num_pairs : 2]", None),
    V("C19", "eq-fjsp-parser-stop-on-last-token-c19", _FPP, "durations = line[idx + 2 : idx + 2 + num_pairs : 2]", "durations = line[idx + 2 : idx + 1 + num_pairs : 2]", None),
    V("C19", "fjsp-parser-machines-one-short", _FPP, "machines = line[idx + 1 : idx + 1 + num_pairs : 2]", "machines = line[idx + 1 : idx - 1 + num_pairs : 2]", "C19.c"),
    V("C08", "mcp-quota-as-a-vector", _MCG, '"n_sets_to_choose": torch.ones(batch_size, 1)\n                * self.n_sets_to_choose,', '"n_sets_to_choose": torch.ones(batch_size)\n                * self.n_sets_to_choose,', "C08.i"),
    V("C08", "flp-done-from-the-whole-batch", _FLP, '        done = td["i"] >= (td["to_choose"] - 1)', '        done = (td["i"] >= (td["to_choose"] - 1)).all().expand_as(td["i"])', "C08.i"),
    V("C08", "distance-matrix-by-cdist", _OPS, _DM_OLD, "    return torch.cdist(locs, locs, p=2)", "C08.j"),
    V("C03", "distance-matrix-by-cdist-c03", _OPS, _DM_OLD, "    return torch.cdist(locs, locs, p=2)", "C03.i"),
    V("C03", "eq-distance-matrix-by-exact-cdist", _OPS, _DM_OLD, "    return torch.cdist(locs, locs, p=2, compute_mode=\"donot_use_mm_for_euclid_dist\")", None),
    V("C04", "flp-reward-from-the-padded-actions", _FLP, '        chosen = td["chosen"]  # (batch_size, n_points)\n        batch_size_', '        chosen = torch.zeros_like(td["chosen"]).scatter(-1, actions, True)\n        batch_size_', "C04.f"),
    V("C04", "mcp-reward-from-the-padded-actions", _MCE, '        chosen_sets = td["chosen"]  # (batch_size, n_set); 1 if chosen, 0 otherwise', '        chosen_sets = torch.zeros_like(td["chosen"]).scatter(-1, actions, True)', "C04.f"),
    V("C04", "ffsp-reward-from-live-counters", _FF, '            end_schedule = td["schedule"] + td["job_duration"].permute(0, 2, 1)\n            # exclude dummy job and determine the makespan per job\n            end_time_max, _ = end_schedule[:, :, : self.num_job].max(dim=-1)\n            # determine the max makespan of all jobs\n            end_time_max, _ = end_time_max.max(dim=-1)',
      '            end_time_max = td["time_idx"] + td["machine_wait_step"].max(dim=-1).values', "C04.g"),
]

# ---- round 6, third batch: own decoding loops (C10.g), start sampler (C10.h), start nodes used as selected (C12.d)
_EASD = "rl4co/models/zoo/eas/decoder.py"
_MATD = "rl4co/models/zoo/matnet/decoder.py"
CORPUS += [
    V("C10", "eas-greedy-argmax-of-raw-logits", _EASD, "        action = decode_logprobs(logp, mask, decode_type=decode_type)\n", "        if \"greedy\" in decode_type:\n            action = logits.argmax(dim=-1)\n        else:\n            action = decode_logprobs(logp, mask, decode_type=decode_type)\n", "C10.g"),
    V("C10", "matnet-own-multinomial", _MATD, "        job_selected = decode_logprobs(logprobs, mask, decode_type)", "        job_selected = logprobs.exp().multinomial(1).squeeze(1)", "C10.g"),
    V("C10", "eq-eas-selector-positional-decode-type", _EASD, "        action = decode_logprobs(logp, mask, decode_type=decode_type)\n", "        action = decode_logprobs(logp, mask, decode_type)\n", None),
    V("C10", "start-sampler-counts-over-the-batch-axis", _OPS, "n_valid_actions = torch.sum(action_mask[:, 1:], 1).min()", "n_valid_actions = torch.sum(action_mask[:, 1:], 0).min()", "C10.h"),
    V("C10", "start-sampler-softmax-over-the-batch-axis", _OPS, "    ps = torch.softmax(ps, dim=1)\n    selected = torch.multinomial", "    ps = torch.softmax(ps, dim=0)\n    selected = torch.multinomial", "C10.h"),
    V("C10", "start-sampler-masked-weights-finite", _OPS, "    ps[~action_mask] = -torch.inf\n", "    ps[~action_mask] = -1e4\n", "C10.h"),
    V("C10", "eq-start-sampler-count-last-axis", _OPS, "n_valid_actions = torch.sum(action_mask[:, 1:], 1).min()", "n_valid_actions = torch.sum(action_mask[:, 1:], -1).min()", None),
    V("C12", "beam-start-nodes-shifted", _DEC, "            action = env.select_start_nodes(td, num_starts=self.beam_width)", "            action = env.select_start_nodes(td, num_starts=self.beam_width) % self.beam_width", "C12.d"),
    V("C12", "multistart-start-nodes-plus-one", _DEC, "                        action = env.select_start_nodes(td, num_starts=self.num_starts)", "                        action = env.select_start_nodes(td, num_starts=self.num_starts) + 1", "C12.d"),
]
CORPUS += [
    V("C12", "eas-start-nodes-wrapped-to-the-depot", _EASD, "        action = env.select_start_nodes(td, num_starts + 1)\n", "        action = env.select_start_nodes(td, num_starts + 1) % num_starts\n", "C12.d"),
]

# ---- from the model2 mutation sweep: REINFORCE variants (C16.b), reader job spans (C19.c)
_PLY = "rl4co/models/zoo/polynet/model.py"
CORPUS += [
    V("C16", "mdam-advantage-sign", _MDM, "advantage = reward - bl_val  # advantage", "advantage = reward + bl_val  # advantage", "C16.b"),
    V("C16", "mdam-surrogate-sign", _MDM, "reinforce_loss = -(advantage * log_likelihood).mean()", "reinforce_loss = (advantage * log_likelihood).mean()", "C16.b"),
    V("C16", "mdam-baseline-loss-subtracted", _MDM, "loss = reinforce_loss + bl_loss", "loss = reinforce_loss - bl_loss", "C16.b"),
    V("C16", "polynet-mask-keeps-the-worst", _PLY, "best_idx = (-reward).argsort(1).argsort(1)", "best_idx = reward.argsort(1).argsort(1)", "C16.b"),
    V("C16", "polynet-rank-over-the-batch-axis", _PLY, "best_idx = (-reward).argsort(1).argsort(1)", "best_idx = (-reward).argsort(0).argsort(0)", "C16.b"),
    V("C16", "polynet-mask-direction", _PLY, "mask = best_idx < 1", "mask = best_idx > 1", "C16.b"),
    V("C16", "eq-polynet-mask-equals-zero", _PLY, "mask = best_idx < 1", "mask = best_idx == 0", None),
    V("C16", "eq-polynet-factor-order", _PLY, "reinforce_loss = -(advantage * log_likelihood * mask).mean()", "reinforce_loss = -(mask * log_likelihood * advantage).mean()", None),
    V("C19", "fjsp-reader-end-op-shifted", _FPP, "end_op_per_job = n_ope_per_job.cumsum(1) - 1", "end_op_per_job = n_ope_per_job.cumsum(1) + 1", "C19.c"),
    V("C19", "fjsp-reader-start-op-shifted", _FPP, "end_op_per_job[:, :-1] + 1)", "end_op_per_job[:, :-1] - 1)", "C19.c"),
    V("C19", "eq-fjsp-reader-start-op-commuted", _FPP, "end_op_per_job[:, :-1] + 1)", "1 + end_op_per_job[:, :-1])", None),
]

# ---- round 7, first batch
_PCT7 = R + "pctsp/env.py"
_MTE7 = R + "mtvrp/env.py"
_L2DD = "rl4co/models/zoo/l2d/decoder.py"
_SYMM = "rl4co/models/zoo/symnco/model.py"
_POMM = "rl4co/models/zoo/pomo/model.py"
_STO_OLD = "    name = \"pctsp\"\n    _stochastic = False\n"
_STO_NEW = "    name = \"pctsp\"\n\n    def _set_flags(self):\n        self._stochastic = False\n"
_PDE7 = R + "pdp/env.py"
CORPUS += [
    V("C01", "pctsp-stochastic-flag-on-the-instance", _PCT7, _STO_OLD, _STO_NEW, "C01.v"),
    V("C06", "pctsp-stochastic-flag-on-the-instance-c06", _PCT7, _STO_OLD, _STO_NEW, "C06.r"),
    V("C01", "mtsp-fleet-size-of-the-first-instance-c01", _MTS, 'current_node != 0, td["agent_idx"] < td["num_agents"] - 1', 'current_node != 0, td["agent_idx"] < batch_to_scalar(td["num_agents"]) - 1', "C01.w"),
    V("C03", "mdcpdp-l1-abs-after-sum", _MD, "return torch.abs(cur_loc - prev_loc).norm(p=1, dim=-1)", "return (cur_loc - prev_loc).sum(dim=-1).abs()", "C03.h"),
    V("C03", "mdcpdp-l1-over-the-batch-axis", _MD, "return torch.abs(cur_loc - prev_loc).norm(p=1, dim=-1)", "return torch.abs(cur_loc - prev_loc).norm(p=1, dim=0)", "C03.h"),
    V("C03", "eq-mdcpdp-l1-abs-sum", _MD, "return torch.abs(cur_loc - prev_loc).norm(p=1, dim=-1)", "return (cur_loc - prev_loc).abs().sum(-1)", None),
    V("C03", "eq-mdcpdp-l2-without-abs", _MD, "return torch.abs(cur_loc - prev_loc).norm(p=2, dim=-1)", "return (prev_loc - cur_loc).norm(p=2, dim=-1)", None),
    V("C05", "cvrp-load-not-restarted-at-the-depot", _CV, "        used_capacity = (td[\"used_capacity\"] + selected_demand) * (\n            current_node != 0\n        ).float()", "        used_capacity = (\n            torch.where(current_node != 0, td[\"used_capacity\"], 0.0) + selected_demand\n        )", "C05.k"),
    V("C05", "op-leg-as-one-norm-over-the-batch", _OPE, "(current_loc - previus_loc).norm(p=2, dim=-1)", "torch.dist(current_loc, previus_loc, p=2)", "C05.k"),
    V("C04", "op-leg-as-one-norm-over-the-batch-c04", _OPE, "(current_loc - previus_loc).norm(p=2, dim=-1)", "torch.dist(current_loc, previus_loc, p=2)", "C04.a"),
    V("C06", "cvrptw-service-inside-the-max", _CW, "torch.max(\n            td[\"current_time\"] + dist, start_times\n        ) + durations", "torch.max(\n            td[\"current_time\"] + dist, start_times + durations\n        )", "C06.s"),
    V("C06", "op-budget-of-the-first-instance", _OPE, '"max_length": td["max_length"][..., None]\n', '"max_length": td["max_length"][0]\n', "C06.t"),
    V("C09", "neuopt-decoding-loop-early-exit", _NO, "        for i in range(env.k_max):\n            # Pass RDS decoder\n", "        for i in range(env.k_max):\n            if i > 0 and stopped.all():\n                break\n            # Pass RDS decoder\n", "C09.k"),
    V("C09", "pdp-unlinked-pickup-not-self-looped", _PDE7, "        rec.scatter_(1, pair_index, pair_index)\n", "", "C09.f"),
    V("C14", "mtvrp-return-leg-by-a-batch-wide-branch", _MTE7, "td[\"current_route_length\"] + d_ij + (d_j0 * ~td[\"open_route\"])", "td[\"current_route_length\"] + d_ij + (d_j0 if not td[\"open_route\"].all() else 0)", "C14.k"),
    V("C14", "l2d-einsum-second-batch-symbol", _L2DD, '"b m o, b m e -> b o e"', '"bs m o, b m e -> bs o e"', "C14.j"),
    V("C14", "eq-l2d-einsum-renamed-consistently", _L2DD, '"b m o, b m e -> b o e"', '"n m o, n m e -> n o e"', None),
    V("C14", "mdam-heads-first-view", _MDD, "        glimpse_Q = query.view(\n            batch_size, num_steps, self.num_heads, 1, key_size\n        ).permute(2, 0, 1, 3, 4)", "        glimpse_Q = query.view(self.num_heads, batch_size, num_steps, 1, key_size)", "C14.f"),
    V("C15", "symnco-aug-max-over-the-last-axis", _SYMM, "                reward_ = max_reward if n_start > 1 else reward\n                max_aug_reward, max_idxs = reward_.max(dim=1)", "                max_aug_reward, max_idxs = reward.max(dim=-1)", "C15.j"),
    V("C15", "pomo-aug-max-of-the-raw-rewards", _POMM, "                reward_ = max_reward if n_start > 1 else reward\n                max_aug_reward, max_idxs = reward_.max(dim=1)", "                max_aug_reward, max_idxs = reward.max(dim=1)", "C15.j"),
    V("C15", "reinforce-select-best-only-in-test", _RFF, 'select_best=phase != "train"', 'select_best=phase == "test"', "C15.k"),
    V("C15", "eq-reinforce-select-best-not-train", _RFF, 'select_best=phase != "train"', 'select_best=not (phase == "train")', None),
    V("C15", "eq-reinforce-select-best-membership", _RFF, 'select_best=phase != "train"', 'select_best=phase in ("val", "test")', None),
    V("C15", "select-best-only-for-multistart", _DEC, "        if self.num_starts > 0 and self.select_best:", "        if self.multistart and self.select_best:", "C15.k"),
    V("C18", "mtvrp-flag-written-into-a-copy", _MG, "                    keep_mask[:, :2] |= keep_mask[:, 4:5]", "                    keep_mask[keep_mask[:, 4]][:, :2] = True", "C18.t"),
    V("C18", "mtvrp-capacity-normalised-unconditionally", _MG, "            demand_linehaul /= vehicle_capacity\n            vehicle_capacity /= vehicle_capacity", "            demand_linehaul /= vehicle_capacity\n        vehicle_capacity /= vehicle_capacity", "C18.u"),
    V("C19", "polynet-restore-takes-the-key-tail", _PLY, 'k.replace("policy.", "", 1): v', 'k.split("policy.", 1)[-1]: v', "C19.j"),
    V("C19", "eq-polynet-restore-removeprefix", _PLY, 'k.replace("policy.", "", 1): v', '(k[len("policy."):] if k.startswith("policy.") else k): v', None),
]

# ---- round 7, second batch
_SMT = S_ + "smtwtp/env.py"
_JSE = S_ + "jssp/env.py"
_AMD = "rl4co/models/zoo/am/decoder.py"
_ATT = "rl4co/models/nn/attention.py"
_WAIVE = '                | (td["open_route"].squeeze(-1) & (next_node == 0))'
CORPUS += [
    V("C07", "smtwtp-index-fill-across-the-batch", _SMT, '        available = td["action_mask"].scatter(\n            -1, current_job.unsqueeze(-1).expand_as(td["action_mask"]), 0\n        )', '        available = td["action_mask"].index_fill(-1, current_job, False)', "C07.l"),
    V("C07", "jssp-wait-decided-by-the-whole-batch", _JSE, 'td["job_in_process"].any(1, keepdims=True)', 'td["job_in_process"].any()', "C07.l"),
    V("C07", "ffsp-machine-table-loses-the-offset", _FF, "            self.stage_machine_table = permutations\n", "            self.stage_machine_table = self.machine_table\n            self.machine_table = permutations\n", "C07.m"),
    V("C11", "top-k-clamped-by-the-poorest-row", _DEC, "    top_k = min(top_k, logits.size(-1))  # safety check", "    top_k = min(top_k, logits.size(-1), int(torch.isfinite(logits).sum(-1).min()))  # safety check", "C11.j"),
    V("C11", "temperature-only-when-sampling", _DEC, "            temperature=self.temperature,", "            temperature=self.temperature if self.name == \"sampling\" else 1.0,", "C11.k"),
    V("C13", "beam-best-is-the-first-beam", _DEC, "            return self._select_best_beam(aligned_logprobs, aligned_sequences, td, env)", "            bs_ = aligned_sequences.size(0) // self.beam_width\n            return aligned_logprobs[:bs_], aligned_sequences[:bs_], td[:bs_], env", "C13.h"),
    V("C13", "cache-without-graph-context-for-multistart", _AMD, "        if self.use_graph_context:\n            graph_context = self.project_fixed_context(embeddings.mean(1))", "        if self.use_graph_context and not num_starts > 1:\n            graph_context = self.project_fixed_context(embeddings.mean(1))", "C13.i"),
    V("C13", "inner-mask-union-over-the-beams", _ATT, "            # make mask the same number of dimensions as q\n            attn_mask = (\n                attn_mask.unsqueeze(1)\n", "            # make mask the same number of dimensions as q\n            attn_mask = (\n                attn_mask.any(dim=1, keepdim=True).unsqueeze(1)\n", "C13.j"),
    V("C06", "mtvrp-checker-open-route-waiver-dropped", _MTE7, "                (curr_time <= gather_by_index(td[\"time_windows\"], next_node)[..., 1])\n" + _WAIVE, "                curr_time <= gather_by_index(td[\"time_windows\"], next_node)[..., 1]", "C06.u"),
    V("C06", "mtvrp-checker-waiver-for-every-route-end", _MTE7, _WAIVE, '                | (next_node == 0)', "C06"),
    V("C06", "eq-mtvrp-checker-waiver-commuted", _MTE7, _WAIVE, '                | ((next_node == 0) & td["open_route"].squeeze(-1))', None),
]
CORPUS += [
    V("C06", "sdvrp-final-assert-includes-the-depot-column", _SD, "assert (demands[:, 1:] == 0).all()", "assert (demands == 0).all()", "C06.q"),
    V("C06", "eq-sdvrp-final-assert-ellipsis", _SD, "assert (demands[:, 1:] == 0).all()", "assert (demands[..., 1:] == 0).all()", None),
]
CORPUS += [
    V("C19", "fjsp-file-names-fixed-width-again", _FPP, "    width = max(4, len(str(len(instances))))", "    width = 4", "C19.i"),
    V("C19", "eq-fjsp-file-names-exact-width", _FPP, "    width = max(4, len(str(len(instances))))", "    width = len(str(len(instances)))", None),
]

# ---- from the env mutation sweep after round 7: OP length bookkeeping (C01.l / C05.l / C06.v)
CORPUS += [
    V("C01", "op-leg-norm-of-a-sum", _OPE, "(current_loc - previus_loc).norm(p=2, dim=-1)", "(current_loc + previus_loc).norm(p=2, dim=-1)", "C01.l"),
    V("C05", "op-leg-norm-of-a-sum-c05", _OPE, "(current_loc - previus_loc).norm(p=2, dim=-1)", "(current_loc + previus_loc).norm(p=2, dim=-1)", "C05.l"),
    V("C01", "op-budget-return-leg-added", _OPE, '                - (td["depot"][..., None, :] - locs_with_depot).norm(p=2, dim=-1)', '                + (td["depot"][..., None, :] - locs_with_depot).norm(p=2, dim=-1)', "C01.l"),
    V("C06", "op-checker-return-leg-subtracted", _OPE, '                + (td["locs"][..., 0:1, :] - td["locs"]).norm(p=2, dim=-1)', '                - (td["locs"][..., 0:1, :] - td["locs"]).norm(p=2, dim=-1)', "C06.v"),
    V("C01", "eq-op-mask-leg-operands-swapped", _OPE, '(td["locs"] - current_loc).norm(p=2, dim=-1)', '(current_loc - td["locs"]).norm(p=2, dim=-1)', None),
]

# ---- from the generator mutation sweep after round 7: the horizon H of the MTVRP window start (C18.p)
_HM = "        h_max = (self.max_time - service_time - tw_length) / d_0i * speed - 1"
CORPUS += [
    V("C18", "mtvrp-horizon-plus-one", _MG, _HM, "        h_max = (self.max_time - service_time - tw_length) / d_0i * speed + 1", "C18.p"),
    V("C18", "mtvrp-horizon-length-added", _MG, _HM, "        h_max = (self.max_time - service_time + tw_length) / d_0i * speed - 1", "C18.p"),
    V("C18", "eq-mtvrp-horizon-reordered", _MG, _HM, "        h_max = speed * (self.max_time - tw_length - service_time) / d_0i - 1", None),
]

# ---- round 8
_LIT = "rl4co/models/rl/common/base.py"
_PTRD = "rl4co/models/zoo/ptrnet/decoder.py"
CORPUS += [
    V("C04", "flp-row-index-cached-on-the-env", _FLP, "        chosen[torch.arange(batch_size).to(td.device), selected] |= still_choosing", "        if getattr(self, \"_bidx\", None) is None:\n            self._bidx = torch.arange(batch_size).to(td.device)\n        chosen[self._bidx, selected] |= still_choosing", "C04.h"),
    V("C04", "mcp-reward-from-the-live-weights", _MCE, "        chosen_weights = torch.sum(chosen_items * weights, dim=-1)\n\n        return chosen_weights", "        chosen_weights = torch.sum(chosen_items * weights, dim=-1)\n\n        return chosen_weights * 0 + (td[\"orig_weights\"] - td[\"weights\"]).sum(-1)", "C04.f"),
    V("C10", "beam-ranking-of-probabilities", _DEC, "        log_beam_prob = logprobs + self.parent_beam_logprobs  #", "        log_beam_prob = (logprobs + self.parent_beam_logprobs).exp()  #", "C10.i"),
    V("C10", "ptrnet-flags-exchanged-at-the-call", _PTRD, "x, h_in, logit_mask, context, self.mask_glimpses, self.mask_logits", "x, h_in, logit_mask, context, self.mask_logits, self.mask_glimpses", "C10.j"),
    V("C10", "eq-ptrnet-flags-by-keyword", _PTRD, "x, h_in, logit_mask, context, self.mask_glimpses, self.mask_logits", "x, h_in, logit_mask, context, mask_logits=self.mask_logits, mask_glimpses=self.mask_glimpses", None),
    V("C12", "unbatchify-shortcut-for-a-factor-of-one", _OPS, "    \"\"\"Undoes batchify operation for Tensordicts as well\"\"\"\n    s = x.shape", "    \"\"\"Undoes batchify operation for Tensordicts as well\"\"\"\n    if repeats == 1:\n        return x\n    s = x.shape", "C12.a"),
    V("C12", "normaliser-per-coordinate-scale", _TRF, "    return (x - x.min()) / (x.max() - x.min())", "    lo, hi = x.amin(dim=-2, keepdim=True), x.amax(dim=-2, keepdim=True)\n    return (x - lo) / (hi - lo)", "C12.g"),
    V("C12", "eq-normaliser-one-scale-per-instance", _TRF, "    return (x - x.min()) / (x.max() - x.min())", "    lo, hi = x.amin(dim=(-2, -1), keepdim=True), x.amax(dim=(-2, -1), keepdim=True)\n    return (x - lo) / (hi - lo)", None),
    V("C16", "symnco-total-swallowed-by-a-conditional", _SYMM, "            loss = loss_ps + self.beta * loss_ss + self.alpha * loss_inv", "            loss = loss_ps if n_start > 1 else 0 + self.beta * loss_ss + self.alpha * loss_inv", "C16.b"),
    V("C16", "eq-symnco-total-reordered", _SYMM, "            loss = loss_ps + self.beta * loss_ss + self.alpha * loss_inv", "            loss = self.alpha * loss_inv + loss_ps + loss_ss * self.beta", None),
    V("C17", "training-loader-drops-the-last-batch", _LIT, "            shuffle=shuffle,\n            num_workers=self.dataloader_num_workers,", "            shuffle=shuffle,\n            drop_last=shuffle,\n            num_workers=self.dataloader_num_workers,", "C17.h"),
    V("C17", "baseline-policy-shallow-copy", _BLF, "        self.policy = copy.deepcopy(policy).to(device)", "        self.policy = copy.copy(policy).to(device)", "C17.i"),
    V("C17", "baseline-values-squeezed", _BLF, "            .detach()\n            .cpu()\n        )\n        return dataset.add_key", "            .detach()\n            .cpu()\n            .squeeze()\n        )\n        return dataset.add_key", "C17.j"),
]
CORPUS += [
    V("C12", "log-likelihood-renormalised-before-the-gather", _DEC, "    if actions is not None and logprobs.dim() == 3:\n        logprobs = logprobs.gather", "    if actions is not None and logprobs.dim() == 3:\n        logprobs = logprobs.log_softmax(dim=-1)\n        logprobs = logprobs.gather", "C12.h"),
]
CORPUS += [
    V("C02", "mtvrp-limit-checked-one-way", _MG, "            dist_to_depot * 2 < self.distance_limit  # go back and forth", "            dist_to_depot < self.distance_limit", "C02.m"),
]

# ---- round 9 (half round)
_DU9 = "rl4co/envs/common/distribution_utils.py"
_JG9 = S_ + "jssp/generator.py"
CORPUS += [
    V("C09", "pdp-stamps-the-node-it-stands-on", _PDE7, "        for i in range(gs):\n            current_nodes = next_rec[arange, pre]\n            visited_time[arange, current_nodes] = i + 1\n            pre = current_nodes", "        current_nodes = pre\n        for i in range(gs):\n            visited_time[arange, current_nodes] = i + 1\n            current_nodes = next_rec[arange, current_nodes]", "C09.i"),
    V("C13", "beam-scores-reindexed-twice", _DEC, "        mask = mask[batch_beam_idx]\n\n        assert (", "        mask = mask[batch_beam_idx]\n        self.parent_beam_logprobs = self.parent_beam_logprobs[batch_beam_idx]\n\n        assert (", "C13.k"),
    V("C15", "multistart-augment-eval-min-of-abs", _EV, "        rewards, max_idxs = rewards.max(dim=1)\n        actions = gather_by_index(actions, max_idxs, dim=1)\n        return actions, rewards\n\n    @property\n    def num_augment", "        _, max_idxs = rewards.abs().min(dim=1)\n        rewards = gather_by_index(rewards, max_idxs, dim=1)\n        actions = gather_by_index(actions, max_idxs, dim=1)\n        return actions, rewards\n\n    @property\n    def num_augment", "C15.m"),
    V("C15", "avg-reward-mean-of-batch-means", _EV, '            "avg_reward": rewards.cpu().mean(),', '            "avg_reward": torch.stack([r.mean() for r in rewards_list]).mean().cpu(),', "C15.n"),
    V("C14", "avg-reward-mean-of-batch-means-c14", _EV, '            "avg_reward": rewards.cpu().mean(),', '            "avg_reward": torch.stack([r.mean() for r in rewards_list]).mean().cpu(),', "C14.l"),
    V("C15", "eq-avg-reward-mean-then-cpu", _EV, '            "avg_reward": rewards.cpu().mean(),', '            "avg_reward": rewards.mean().cpu(),', None),
    V("C18", "gaussian-mixture-centred-by-its-mean", _DU9, "            coords + (1 - coords.max(dim=1, keepdim=True).values) / 2", "            coords + 0.5 - coords.mean(dim=1, keepdim=True)", "C18.x"),
    V("C18", "eq-gaussian-mixture-half-slack", _DU9, "            coords + (1 - coords.max(dim=1, keepdim=True).values) / 2", "            coords + 0.5 * (1 - coords.max(dim=1, keepdim=True).values)", None),
    V("C18", "jssp-durations-floor-of-rand", _JG9, "        proc_times = torch.randint(\n            self.min_processing_time,\n            self.max_processing_time + 1,\n            size=(*bs, self.num_mas, n_ops_max),\n        )", "        proc_times = (torch.rand((*bs, self.num_mas, n_ops_max)) * self.max_processing_time).floor() + self.min_processing_time", "C18.w"),
]

# ---- round 10 (half round)
_L2P = "rl4co/models/zoo/l2d/policy.py"
_MTE10 = R + "mtvrp/env.py"
CORPUS += [
    V("C01", "sdvrp-whole-demand-after-the-depot", _SD, "        delivered_demand = torch.min(\n            selected_demand, td[\"vehicle_capacity\"] - td[\"used_capacity\"]\n        )", "        delivered_demand = torch.where(\n            td[\"current_node\"] == 0,\n            selected_demand,\n            torch.min(selected_demand, td[\"vehicle_capacity\"] - td[\"used_capacity\"]),\n        )", "C01.j"),
    V("C05", "pctsp-depot-prize-appended-at-the-end", _PCT7, "        real_prize_with_depot = torch.cat(\n            [torch.zeros_like(real_prize[..., :1]), real_prize], dim=-1\n        )", "        real_prize_with_depot = F.pad(real_prize, (0, 1), mode=\"constant\", value=0)", "C05.m"),
    V("C05", "eq-pctsp-depot-prize-padded-in-front", _PCT7, "        real_prize_with_depot = torch.cat(\n            [torch.zeros_like(real_prize[..., :1]), real_prize], dim=-1\n        )", "        real_prize_with_depot = F.pad(real_prize, (1, 0), mode=\"constant\", value=0)", None),
    V("C06", "sdvrp-step-overwrites-the-demand-field", _SD, '                "demand_with_depot": demand_with_depot,\n                "current_node": current_node,', '                "demand": demand_with_depot[..., 1:],\n                "demand_with_depot": demand_with_depot,\n                "current_node": current_node,', "C06.x"),
    V("C11", "l2d-entropy-of-the-raw-logits", _L2P, "        dist_entropys = Categorical(logprobs.exp()).entropy()\n\n        return action_logprobs, value_pred, dist_entropys", "        dist_entropys = Categorical(logits=logits).entropy()\n\n        return action_logprobs, value_pred, dist_entropys", "C11.m"),
    V("C11", "eq-l2d-entropy-from-logits-of-the-processed", _L2P, "        dist_entropys = Categorical(logprobs.exp()).entropy()\n\n        return action_logprobs, value_pred, dist_entropys", "        dist_entropys = Categorical(logits=logprobs).entropy()\n\n        return action_logprobs, value_pred, dist_entropys", None),
    V("C19", "jssp-file-list-in-a-default-argument", _JG9, "    def list_files(path):\n        files = [", "    def list_files(path, files=[]):\n        files += [", "C19.k"),
    V("C19", "fjsp-pad-width-from-the-zero-based-index", _FPP, "    width = max(4, len(str(len(instances))))", "    width = max(4, len(str(len(instances) - 1)))", "C19.i"),
]

# ---- session after round 10: survivors of the env mutation sweep (tools/mutation_sweep.py --scope env)
CORPUS += [
    V("C06", "cvrp-checker-clamp-direction", _CV, "            used_cap[used_cap < 0] = 0\n", "            used_cap[used_cap > 0] = 0\n", "C06.e"),
    V("C06", "eq-cvrp-checker-clamp-yoda", _CV, "            used_cap[used_cap < 0] = 0\n", "            used_cap[0 > used_cap] = 0\n", None),
    V("C01", "cvrp-step-demand-of-the-next-customer", _CV, "torch.clamp(current_node - 1, 0, n_loc - 1)", "torch.clamp(current_node + 1, 0, n_loc - 1)", "C01.o"),
    V("C01", "cvrp-step-demand-unshifted", _CV, "torch.clamp(current_node - 1, 0, n_loc - 1)", "torch.clamp(current_node, 0, n_loc - 1)", "C01.o"),
    V("C01", "eq-cvrp-step-demand-shift-commuted", _CV, "torch.clamp(current_node - 1, 0, n_loc - 1)", "torch.clamp(-1 + current_node, 0, n_loc - 1)", None),
    V("C01", "pctsp-step-prize-of-the-previous-node", R + "pctsp/env.py", 'td["real_prize"], current_node', 'td["real_prize"], current_node - 1', "C01.o"),
]

# ---- round 11
_RF = "rl4co/models/rl/reinforce/reinforce.py"
_BLS = "rl4co/models/rl/reinforce/baselines.py"
CORPUS += [
    V("C20", "scaler-recreated-in-post-setup-hook", _RF, '    def post_setup_hook(self, stage="fit"):\n', '    def post_setup_hook(self, stage="fit"):\n        self.advantage_scaler = RewardScaler("norm")\n', "C20.g"),
    V("C20", "scaler-replaced-in-on-train-epoch-end", _RF, '    def on_train_epoch_end(self):\n', '    def on_train_epoch_end(self):\n        self.advantage_scaler = type(self.advantage_scaler)("norm")\n', "C20.g"),
    V("C17", "rollout-baseline-decodes-as-in-validation", _BLS, 'return policy(batch, env, decode_type="greedy")["reward"]', 'return policy(batch, env, phase="val")["reward"]', "C17.g"),
    V("C17", "rollout-baseline-decodes-by-sampling", _BLS, 'return policy(batch, env, decode_type="greedy")["reward"]', 'return policy(batch, env, decode_type="sampling")["reward"]', "C17.g"),
    V("C17", "eq-rollout-baseline-env-by-keyword", _BLS, 'return policy(batch, env, decode_type="greedy")["reward"]', 'return policy(batch, env=env, decode_type="greedy")["reward"]', None),
]
_FJE = S_ + "fjsp/env.py"
_AS = "rl4co/models/zoo/deepaco/antsystem.py"
_PM = "rl4co/models/zoo/pomo/model.py"
CORPUS += [
    V("C02", "fjsp-flag-kept-for-completed-jobs", _FJE, '        td["job_in_process"][op_finished] = False\n', '        td["job_in_process"][op_finished & ~job_finished] = False\n', "C02.n"),
    V("C12", "deepaco-incumbent-from-compacted-position", _AS, "            for index in require_update:\n                self.final_actions[index] = best_actions[index]\n",
      "            for i, index in enumerate(require_update):\n                self.final_actions[index] = best_actions[i]\n", "C12.i"),
    V("C12", "eq-deepaco-incumbent-loop-variable-renamed", _AS, "            for index in require_update:\n                self.final_actions[index] = best_actions[index]\n",
      "            for b_ in require_update:\n                self.final_actions[b_] = best_actions[b_]\n", None),
    V("C16", "pomo-train-keeps-singleton-augmentation-axis", _PM, '        if phase == "train":\n            n_aug = 0\n        elif n_aug > 1:\n            td = self.augment(td)\n',
      '        if n_aug > 1:\n            if phase == "train":\n                n_aug = 0\n            else:\n                td = self.augment(td)\n', "C16.h"),
    V("C08", "torchrl-preset-overrides-successor", _BASE, "next_tensordict.update(next_preset.exclude(*next_tensordict.keys(True, True)))", "next_tensordict.update(next_preset)", "C08.k"),
    V("C01", "torchrl-preset-overrides-successor", _BASE, "next_tensordict.update(next_preset.exclude(*next_tensordict.keys(True, True)))", "next_tensordict.update(next_preset)", "C01.r"),
    V("C04", "tour-length-smoothing-epsilon", _OPS, "    return get_distance(ordered_locs_next, ordered_locs).sum(-1)\n",
      "    return ((ordered_locs_next - ordered_locs).pow(2).sum(-1) + 1e-8).sqrt().sum(-1)\n", "C04.j"),
    V("C08", "tour-length-smoothing-epsilon", _OPS, "    return get_distance(ordered_locs_next, ordered_locs).sum(-1)\n",
      "    return ((ordered_locs_next - ordered_locs).pow(2).sum(-1) + 1e-8).sqrt().sum(-1)\n", "C08.j"),
]
CORPUS += [
    # F55 repaired at either site: the clause must be silent (and the old guard clause must accept the stricter guard)
    V("C20", "eq-f55-repaired-wrap-only-when-the-inner-baseline-applies-alone", _BLS, "        if self.alpha > 0:\n            return self.baseline.wrap_dataset(dataset, *args, **kw)",
      "        if self.alpha == 1:\n            return self.baseline.wrap_dataset(dataset, *args, **kw)", None),
    V("C20", "warmup-wraps-from-the-start", _BLS, "        if self.alpha > 0:\n            return self.baseline.wrap_dataset(dataset, *args, **kw)",
      "        if self.alpha >= 0:\n            return self.baseline.wrap_dataset(dataset, *args, **kw)", "C20.d"),
]
_PD_ = "rl4co/models/zoo/ptrnet/decoder.py"
_DECO = "rl4co/utils/decoding.py"
CORPUS += [
    V("C10", "ptrnet-mask-written-out-of-place-and-dropped", _PD_, '            log_p[~logit_mask] = float("-inf")\n', '            log_p.masked_fill(~logit_mask, float("-inf"))\n', "C10.k"),
    V("C10", "eq-ptrnet-mask-written-in-place-by-method", _PD_, '            log_p[~logit_mask] = float("-inf")\n', '            log_p.masked_fill_(~logit_mask, float("-inf"))\n', None),
    V("C10", "top-k-of-one-silently-disabled", _DECO, "        self.top_k = top_k\n", "        self.top_k = top_k if top_k is not None and top_k > 1 else 0\n", "C10.l"),
    V("C10", "eq-top-k-none-default", _DECO, "        self.top_k = top_k\n", "        self.top_k = top_k if top_k is not None else 0\n", None),
]
_MT = R + "mtsp/env.py"
CORPUS += [
    V("C03", "mtsp-closing-leg-only-after-finish", _MT, "            done & ~was_done,\n", "            done & was_done,\n", "C03.d"),
    V("C03", "mtsp-closing-leg-at-every-running-step", _MT, "            done & ~was_done,\n", "            done | ~was_done,\n", "C03.d"),
    V("C03", "eq-mtsp-closing-leg-guard-commuted", _MT, "            done & ~was_done,\n", "            ~was_done & done,\n", None),
    V("C03", "eq-mtsp-closing-leg-guard-logical-and", _MT, "            done & ~was_done,\n", "            torch.logical_and(done, ~was_done),\n", None),
]
_MCE = G_ + "mcp/env.py"
CORPUS += [
    V("C08", "mcp-covered-indicator-never-true", _MCE, "        covered_items = (chosen_items > 0).float()", "        covered_items = (chosen_items < 0).float()", "C08.d"),
    V("C08", "eq-mcp-covered-indicator-mirrored", _MCE, "        covered_items = (chosen_items > 0).float()", "        covered_items = (0 < chosen_items).float()", None),
]
CORPUS += [
    V("C10", "tanh-clip-never-applied", _DECO, "    if tanh_clipping > 0:\n", "    if tanh_clipping < 0:\n", "C10.a"),
    V("C10", "top-k-filter-never-applied", _DECO, "    if top_k > 0:\n        top_k = min(", "    if top_k < 0:\n        top_k = min(", "C10.a"),
    V("C10", "top-p-filter-enabled-at-zero", _DECO, "    if top_p > 0:\n        assert top_p", "    if top_p >= 0:\n        assert top_p", "C10.a"),
    V("C10", "mask-stage-inverted-flag", _DECO, "    if mask_logits:\n        assert mask is not None", "    if not mask_logits:\n        assert mask is not None", "C10"),
    V("C10", "eq-top-k-guard-mirrored", _DECO, "    if top_k > 0:\n        top_k = min(", "    if 0 < top_k:\n        top_k = min(", None),
]
CORPUS += [
    # F56 repaired (re-normalised after the fill): silent
    V("C10", "eq-f56-repaired-renormalised-after-the-fill", _PD_, '            log_p[~logit_mask] = float("-inf")\n', '            log_p[~logit_mask] = float("-inf")\n            log_p = torch.log_softmax(log_p, dim=1)\n', None),
]
CORPUS += [
    V("C02", "fjsp-flag-cleared-for-operations-still-running", _FJE, 'op_finished = td["job_in_process"] & (curr_ops_end <= td["time"][:, None])', 'op_finished = td["job_in_process"] & (curr_ops_end >= td["time"][:, None])', "C02"),
]
CORPUS += [
    V("C01", "mdcpdp-back-flag-above-the-depot-count", _MD, "        back_flag = (current_node < num_depot) & (", "        back_flag = (current_node > num_depot) & (", "C01.n"),
    V("C01", "eq-mdcpdp-back-flag-mirrored", _MD, "        back_flag = (current_node < num_depot) & (", "        back_flag = (num_depot > current_node) & (", None),
]
_OPG = R + "op/generator.py"
_CU = "rl4co/envs/common/utils.py"
CORPUS += [
    V("C18", "op-prize-type-dispatch-inverted", _OPG, '        if self.prize_type == "const":', '        if self.prize_type != "const":', "C18.l"),
    V("C18", "op-prize-type-second-branch-inverted", _OPG, '        elif self.prize_type == "unif":', '        elif self.prize_type != "unif":', "C18.l"),
    V("C18", "sampler-dispatch-inverted", _CU, 'distribution == "gaussian_mixture"', 'distribution != "gaussian_mixture"', "C18"),
    V("C18", "eq-op-prize-type-membership", _OPG, '        if self.prize_type == "const":', '        if self.prize_type in ("const",):', None),
]
CORPUS += [
    V("C18", "op-unif-prize-one-minus-draw", _OPG, "                1\n                + torch.randint(", "                1\n                - torch.randint(", "C18.v"),
    V("C18", "op-dist-prize-norm-of-the-sum", _OPG, "prize = (locs_with_depot[..., 0:1, :] - locs_with_depot[..., 1:, :]).norm(", "prize = (locs_with_depot[..., 0:1, :] + locs_with_depot[..., 1:, :]).norm(", "C18.v"),
    V("C18", "op-dist-prize-one-minus", _OPG, "                1 + (prize / prize.max(dim=-1, keepdim=True)[0] * 99).int()", "                1 - (prize / prize.max(dim=-1, keepdim=True)[0] * 99).int()", "C18.v"),
    V("C18", "eq-op-dist-prize-difference-mirrored", _OPG, "prize = (locs_with_depot[..., 0:1, :] - locs_with_depot[..., 1:, :]).norm(", "prize = (locs_with_depot[..., 1:, :] - locs_with_depot[..., 0:1, :]).norm(", None),
    V("C18", "eq-op-unif-prize-commuted", _OPG, "                1\n                + torch.randint(", "                torch.randint(", None) if False else
    V("C18", "op-unif-prize-range-200", _OPG, "                    0, 100, (*batch_size, self.num_loc)", "                    0, 200, (*batch_size, self.num_loc)", "C18.v"),
]
CORPUS += [
    V("C18", "mtvrp-backhaul-fraction-complemented", _MG, "        is_linehaul = torch.rand(*batch_size, num_loc) > self.backhaul_ratio", "        is_linehaul = torch.rand(*batch_size, num_loc) < self.backhaul_ratio", "C18.y"),
    V("C18", "mtvrp-backhaul-second-draw", _MG, "            backhaul_demand * ~is_linehaul\n", "            backhaul_demand * ~(torch.rand(*batch_size, num_loc) > self.backhaul_ratio)\n", "C18.k"),
    V("C18", "eq-mtvrp-backhaul-indicator-mirrored", _MG, "        is_linehaul = torch.rand(*batch_size, num_loc) > self.backhaul_ratio", "        is_linehaul = self.backhaul_ratio < torch.rand(*batch_size, num_loc)", None),
]
CORPUS += [
    V("C16", "pomo-augmentation-axis-dropped-outside-training-only", _PM, '        if phase == "train":\n            n_aug = 0\n', '        if phase != "train":\n            n_aug = 0\n', "C16.h"),
    V("C16", "eq-pomo-train-guard-mirrored", _PM, '        if phase == "train":\n            n_aug = 0\n', '        if "train" == phase:\n            n_aug = 0\n', None),
    V("C16", "eq-pomo-train-guard-negated-else", _PM, '        if phase == "train":\n            n_aug = 0\n        elif n_aug > 1:\n            td = self.augment(td)\n',
      '        if phase != "train":\n            if n_aug > 1:\n                td = self.augment(td)\n        else:\n            n_aug = 0\n', None),
]
