"""E5 -- layout algebra for flattened (replica, batch) axes.

A flattened axis is described by the ordered list of its factors, major -> minor (the minor
factor varies fastest).  Every site that merges or splits a replica axis with the batch axis
is mapped to such a list:

  einops pattern      "b s l -> (s b) l"          ->  merge  [s, b]
  _batchify_single    x.expand(r, *s).view(s0*r)  ->  merge  [r, b]
  _unbatchify_single  x.view(r, s0//r).permute(1,0) -> split [r, b] then (b, r)
  arange(k).repeat_interleave(B)                  ->  index i -> (i // B , i % B)  = [k, b]
  arange(B).repeat(k)                             ->  [k, b] with value = minor index
  x.split(B) + cat(dim=1)                         ->  split  [k, b]
  idx + k * B                                     ->  flat index of (k, b)

The invariant checked by C12/C13/C15/C07 is that the batch index is the minor factor
everywhere ("row r belongs to instance r mod B").
"""
from __future__ import annotations

import re
from typing import List, Optional, Tuple, Union

Axis = Union[str, Tuple[str, ...]]


class PatternError(Exception):
    pass


def _parse_side(side: str) -> List[Axis]:
    out: List[Axis] = []
    i = 0
    toks = re.findall(r"\(|\)|[A-Za-z_][A-Za-z_0-9]*|\.\.\.|\d+", side)
    group: Optional[List[str]] = None
    for t in toks:
        if t == "(":
            if group is not None:
                raise PatternError("nested group")
            group = []
        elif t == ")":
            if group is None:
                raise PatternError("unbalanced")
            out.append(tuple(group))
            group = None
        else:
            if group is not None:
                group.append(t)
            else:
                out.append(t)
    if group is not None:
        raise PatternError("unbalanced")
    return out


def parse_einops(pattern: str) -> Tuple[List[Axis], List[Axis]]:
    if "->" not in pattern:
        raise PatternError("no arrow")
    l, r = pattern.split("->")
    return _parse_side(l), _parse_side(r)


def groups(side: List[Axis]) -> List[Tuple[str, ...]]:
    return [a for a in side if isinstance(a, tuple) and len(a) > 1]


def leading(side: List[Axis]) -> Axis:
    return side[0] if side else ""


def merged_order(pattern: str) -> Optional[Tuple[str, ...]]:
    """For a pattern that merges or splits one group on the leading axis, the factor order
    (major -> minor) of that group."""
    l, r = parse_einops(pattern)
    for side in (r, l):
        g = leading(side)
        if isinstance(g, tuple) and len(g) > 1:
            return g
    for side in (r, l):
        gs = groups(side)
        if gs:
            return gs[0]
    return None
