"""E4 -- normal forms over the value graph.

* polynomial normal form over opaque atoms (+, -, *, unary -, / by anything as a `recip`
  atom, integer powers); value-transparent wrappers (`.float()`, `.to()`, `.clone()`,
  `.detach()`, shape-only ops) are looked through;
* comparison normal form  `P > 0` / `P >= 0` / `P == 0` / `P != 0`  (everything moved to the
  left; `<`/`<=` are rewritten, `~`/`not` of a comparison is pushed inside);
* boolean structure walk with polarity and the effective connective on the path from the
  root to every literal (`&`, `|`, `~`, `cat`, `where`, column stores, scatter of a constant).
"""
from __future__ import annotations

from fractions import Fraction
from typing import Dict, Iterable, List, Optional, Tuple

from .vg import S, mk, const, is_const, canon, show, cells_of, atoms

# value-transparent method calls (the numeric value of every element is unchanged)
TRANSPARENT_METHODS = {
    "float", "double", "to", "clone", "contiguous", "detach", "type_as", "cpu", "cuda", "half",
    "squeeze", "unsqueeze", "reshape", "view", "expand", "expand_as", "view_as", "flatten",
    "requires_grad_",
}
# casts of booleans / integers that keep the truth value
BOOL_TRANSPARENT = TRANSPARENT_METHODS | {"bool", "int", "long", "byte"}


def _index_is_shape_only(idx) -> bool:
    """x[..., None], x[:, None, :] -- indexing that only inserts axes / keeps everything."""
    if not isinstance(idx, S):
        return False
    if idx.op == "tuple":
        return all(_index_is_shape_only(a) for a in idx.args)
    if idx.op == "ellipsis":
        return True
    if is_const(idx) and idx.args[0] is None:
        return True
    if idx.op == "slice":
        return all(is_const(a) and a.args[0] is None for a in idx.args)
    return False


def strip(s: S, bool_ctx=False) -> S:
    """Remove value-transparent wrappers."""
    tm = BOOL_TRANSPARENT if bool_ctx else TRANSPARENT_METHODS
    while True:
        if s.op == "meth" and s.args[1] in tm:
            s = s.args[0]
        elif s.op == "nograd":
            s = s.args[0]
        elif s.op == "sub" and _index_is_shape_only(s.args[1]):
            s = s.args[0]
        else:
            return s


# ----------------------------------------------------------------------------- polynomials

Mono = Tuple[Tuple[int, int], ...]  # ((atom id, power), ...) sorted


class Poly:
    __slots__ = ("terms",)
    ATOMS: Dict[int, S] = {}

    def __init__(self, terms: Optional[Dict[Mono, Fraction]] = None):
        self.terms = {m: c for m, c in (terms or {}).items() if c != 0}

    @staticmethod
    def const(c) -> "Poly":
        return Poly({(): Fraction(c)})

    @staticmethod
    def atom(a: S) -> "Poly":
        Poly.ATOMS[a.id] = a
        return Poly({((a.id, 1),): Fraction(1)})

    def __add__(self, o):
        t = dict(self.terms)
        for m, c in o.terms.items():
            t[m] = t.get(m, 0) + c
        return Poly(t)

    def __neg__(self):
        return Poly({m: -c for m, c in self.terms.items()})

    def __sub__(self, o):
        return self + (-o)

    def __mul__(self, o):
        t: Dict[Mono, Fraction] = {}
        for m1, c1 in self.terms.items():
            for m2, c2 in o.terms.items():
                d = dict(m1)
                for a, p in m2:
                    d[a] = d.get(a, 0) + p
                m = tuple(sorted((a, p) for a, p in d.items() if p != 0))
                t[m] = t.get(m, 0) + c1 * c2
        return Poly(t)

    def scale(self, c):
        return Poly({m: v * Fraction(c) for m, v in self.terms.items()})

    def is_const(self):
        return all(m == () for m in self.terms)

    def const_term(self) -> Fraction:
        return self.terms.get((), Fraction(0))

    def key(self):
        return tuple(sorted((m, c) for m, c in self.terms.items()))

    def __eq__(self, o):
        return isinstance(o, Poly) and self.key() == o.key()

    def __hash__(self):
        return hash(self.key())

    def atoms(self) -> List[S]:
        ids = {a for m in self.terms for a, _ in m}
        return [Poly.ATOMS[i] for i in sorted(ids)]

    def monos(self):
        """[(coeff, [(atom S, power), ...])]"""
        return [(c, [(Poly.ATOMS[a], p) for a, p in m]) for m, c in sorted(self.terms.items())]

    def side_atoms(self, positive: bool) -> List[S]:
        out, seen = [], set()
        for m, c in self.terms.items():
            if (c > 0) == positive:
                for a, _ in m:
                    if a not in seen:
                        seen.add(a)
                        out.append(Poly.ATOMS[a])
        return out

    def to_sym(self) -> S:
        parts = []
        for m, c in sorted(self.terms.items()):
            parts.append(mk("term", str(c), *[mk("pow", Poly.ATOMS[a], p) for a, p in m]))
        return mk("poly", *parts)

    def show(self, depth=4) -> str:
        if not self.terms:
            return "0"
        out = []
        for m, c in sorted(self.terms.items(), key=lambda t: (len(t[0]), t[0])):
            fs = []
            for a, p in m:
                t = show(Poly.ATOMS[a], depth)
                fs.append(t if p == 1 else f"{t}^{p}")
            cs = str(c if c.denominator != 1 else c.numerator)
            if c.denominator != 1:
                cs = repr(float(c))
            if not fs:
                out.append(cs)
            elif c == 1:
                out.append("*".join(fs))
            elif c == -1:
                out.append("-" + "*".join(fs))
            else:
                out.append(cs + "*" + "*".join(fs))
        return " + ".join(out).replace("+ -", "- ")


def _num(v) -> Optional[Fraction]:
    if isinstance(v, bool):
        return Fraction(int(v))
    if isinstance(v, int):
        return Fraction(v)
    if isinstance(v, float):
        if v != v or v in (float("inf"), float("-inf")):
            return None
        return Fraction(repr(v))
    return None


_NORM: Dict[int, S] = {}
_POLY: Dict[int, Poly] = {}


def _reset():
    _NORM.clear()
    _POLY.clear()
    Poly.ATOMS.clear()


import sa.vg as _vg  # noqa: E402

_vg._RESET_HOOKS.append(_reset)


def poly(s: S) -> Poly:
    """Polynomial normal form of a value (atoms are normalised recursively)."""
    if s.id in _POLY:
        return _POLY[s.id]
    p = _poly(s)
    _POLY[s.id] = p
    return p


def _poly(s: S) -> Poly:
    s0 = s
    s = strip(s)
    if s is not s0:
        return poly(s)
    o, a = s.op, s.args
    if o == "const":
        n = _num(a[0])
        if n is not None:
            return Poly.const(n)
        return Poly.atom(s)
    if o == "poly":  # already normalised (idempotence)
        r = Poly()
        for t in a:
            m = Poly.const(Fraction(t.args[0]))
            for pw in t.args[1:]:
                for _ in range(pw.args[1]):
                    m = m * Poly.atom(pw.args[0])
            r = r + m
        return r
    if o == "+":
        return poly(a[0]) + poly(a[1])
    if o == "-":
        return poly(a[0]) - poly(a[1])
    if o == "*":
        return poly(a[0]) * poly(a[1])
    if o == "neg":
        return -poly(a[0])
    if o == "pos":
        return poly(a[0])
    if o == "/":
        den = poly(a[1])
        if den.is_const() and den.const_term() != 0:
            return poly(a[0]).scale(1 / den.const_term())
        return poly(a[0]) * Poly.atom(mk("recip", norm(a[1])))
    if o == "**" and is_const(a[1]) and isinstance(a[1].args[0], int) and 0 <= a[1].args[0] <= 4:
        r = Poly.const(1)
        b = poly(a[0])
        for _ in range(a[1].args[0]):
            r = r * b
        return r
    if o == "call" and isinstance(a[0], S) and a[0].op in ("ext", "global"):
        fn = a[0].args[0]
        if fn in ("torch.add",) and len(a) >= 3:
            return poly(a[1]) + poly(a[2])
        if fn in ("torch.sub",) and len(a) >= 3:
            return poly(a[1]) - poly(a[2])
        if fn in ("torch.mul",) and len(a) >= 3:
            return poly(a[1]) * poly(a[2])
        if fn in ("torch.neg",) and len(a) >= 2:
            return -poly(a[1])
    if o == "meth" and a[1] in ("add", "sub", "mul", "subtract", "multiply") and len(a) == 3:
        x, y = poly(a[0]), poly(a[2])
        return x + y if a[1] == "add" else (x - y if a[1] in ("sub", "subtract") else x * y)
    return Poly.atom(norm(s))


def norm(s):
    """Canonical form of an arbitrary value: arithmetic sub-trees are replaced by their
    polynomial normal form, comparisons by their comparison normal form, call-site tags are
    dropped, commutative boolean operators are sorted."""
    if not isinstance(s, S):
        if isinstance(s, tuple):
            return tuple(norm(x) for x in s)
        return s
    if s.id in _NORM:
        return _NORM[s.id]
    r = _norm(s)
    _NORM[s.id] = r
    _NORM.setdefault(r.id, r)
    return r


ARITH = {"+", "-", "*", "/", "neg", "**"}


def _norm(s: S) -> S:
    s1 = strip(s)
    if s1 is not s:
        return norm(s1)
    o = s.op
    if o in ARITH:
        p = poly(s)
        if len(p.terms) == 1:
            (m, c), = p.terms.items()
            if c == 1 and len(m) == 1 and m[0][1] == 1:
                return Poly.ATOMS[m[0][0]]
        return p.to_sym()
    c = cmpnf(s)
    if c is not None:
        p, op = c
        return mk("cmp", op, p.to_sym())
    if o in ("loopvar", "iter"):
        return s  # keep the loop identity (tag) so that loop bodies stay attached
    args = [norm(a) for a in s.args]
    if o == "meth" and len(args) == 3 and args[1] == "size" and isinstance(args[2], S) and args[2].op == "const" and isinstance(args[2].args[0], int):
        # x.size(k) and x.shape[k] are one quantity
        return mk("sub", mk("attr", args[0], "shape"), args[2])
    if o in ("&", "|", "and", "or", "^"):
        args = sorted(args, key=lambda x: x.id if isinstance(x, S) else -1)
    return mk(o, *args)


# ----------------------------------------------------------------------------- comparisons

CMP_OPS = {"<", "<=", ">", ">=", "==", "!="}


_MIRROR = {"<": ">", "<=": ">=", ">": "<", ">=": "<=", "==": "==", "!=": "!="}


def _cmp_raw(s: S):
    """-> (lhs, op, rhs) for comparison-like nodes (operators and torch.lt/le/gt/ge/eq/ne).  A literal on the left is moved to
    the right with the mirrored operator (`0 < x` is read as `x > 0`), so the idiom recognisers see one orientation."""
    r = _cmp_raw0(s)
    if r is not None:
        lhs, op, rhs = r
        if isinstance(lhs, S) and lhs.op == "const" and not (isinstance(rhs, S) and rhs.op == "const"):
            return rhs, _MIRROR[op], lhs
    return r


def _cmp_raw0(s: S):
    if s.op in CMP_OPS:
        return s.args[0], s.op, s.args[1]
    if s.op == "meth" and s.args[1] in ("lt", "le", "gt", "ge", "eq", "ne") and len(s.args) == 3:
        return s.args[0], {"lt": "<", "le": "<=", "gt": ">", "ge": ">=", "eq": "==", "ne": "!="}[s.args[1]], s.args[2]
    if s.op == "call" and isinstance(s.args[0], S) and s.args[0].op in ("ext", "global"):
        fn = s.args[0].args[0]
        m = {"torch.lt": "<", "torch.le": "<=", "torch.gt": ">", "torch.ge": ">=", "torch.eq": "==", "torch.ne": "!=",
             "torch.less": "<", "torch.greater": ">", "torch.less_equal": "<=", "torch.greater_equal": ">="}
        if fn in m and len(s.args) == 3:
            return s.args[1], m[fn], s.args[2]
    return None


def cmpnf(s: S, negate=False):
    """Comparison normal form (P, op) with op in {'>0','>=0','==0','!=0'} or None."""
    if s.op == "cmp":  # already normalised
        op0, d0 = s.args[0], poly(s.args[1])
        if not negate:
            return d0, op0
        if op0 == ">0":
            return -d0, ">=0"
        if op0 == ">=0":
            return -d0, ">0"
        return d0, ("!=0" if op0 == "==0" else "==0")
    r = _cmp_raw(s)
    if r is None:
        return None
    lhs, op, rhs = r
    if negate:
        op = {"<": ">=", "<=": ">", ">": "<=", ">=": "<", "==": "!=", "!=": "=="}[op]
    d = poly(lhs) - poly(rhs)
    if op == ">":
        return d, ">0"
    if op == ">=":
        return d, ">=0"
    if op == "<":
        return -d, ">0"
    if op == "<=":
        return -d, ">=0"
    # sign-normalise equalities
    ks = sorted(d.terms.items())
    if ks and ks[0][1] < 0:
        d = -d
    return d, ("==0" if op == "==" else "!=0")


# ----------------------------------------------------------------------------- boolean structure


class Leaf:
    """A literal of a boolean-valued expression with its context."""

    __slots__ = ("node", "sign", "path", "reduced", "part", "guards")

    def __init__(self, node, sign, path, reduced, part, guards):
        self.node = node        # S
        self.sign = sign        # +1 literal must be true for the root to be true (under conj), -1 negated, 0 unknown
        self.path = path        # tuple of (ancestor id, effective op 'and'|'or'|'sel', child index)
        self.reduced = reduced  # passed through any/all/sum reduction
        self.part = part        # column-part descriptors (cat index / store index), outermost first
        self.guards = guards    # python-level phi tests on the path

    @property
    def conj(self) -> bool:
        return all(p[1] == "and" for p in self.path)

    def cmp(self):
        """Admit-form comparison of this literal: (P, op) such that the literal contributes
        `P op` as a requirement for the root being true (sign applied)."""
        if self.sign == 0:
            return None
        return cmpnf(self.node, negate=(self.sign < 0))

    def __repr__(self):
        return f"Leaf({'+' if self.sign > 0 else '-' if self.sign < 0 else '?'} {show(self.node, 4)} conj={self.conj} red={self.reduced} part={self.part})"


BOOL_STRUCT_OPS = {"inv", "not", "&", "|", "and", "or", "<", "<=", ">", ">=", "==", "!=", "store", "phi", "ifexp"}


BOOL_LEAF_OPS = {"inv", "not", "&", "|", "and", "or", "<", "<=", ">", ">=", "==", "!="}


def _is_boolish(s: S, depth=0) -> bool:
    """Is the value boolean-structured (built from comparisons / connectives)?"""
    s = strip(s, bool_ctx=True)
    if depth > 40:
        return False
    if s.op in BOOL_LEAF_OPS:
        return True
    if s.op == "+":
        return _is_boolish(s.args[0], depth + 1) or _is_boolish(s.args[1], depth + 1)
    if s.op == "*":  # a product is a conjunction only when both factors are truth values
        return _is_boolish(s.args[0], depth + 1) and _is_boolish(s.args[1], depth + 1)
    if s.op in ("phi", "ifexp"):
        return _is_boolish(s.args[1], depth + 1) and _is_boolish(s.args[2], depth + 1)
    if s.op in ("store", "sub", "loop"):
        return _is_boolish(s.args[0], depth + 1)
    if s.op == "meth" and s.args[1] in ("any", "all", "logical_and", "logical_or", "logical_not", "gt", "lt", "ge", "le", "eq", "ne"):
        return True
    if s.op == "call" and isinstance(s.args[0], S) and s.args[0].op in ("ext", "global"):
        fn = s.args[0].args[0]
        if fn in ("torch.logical_and", "torch.logical_or", "torch.logical_not", "torch.any", "torch.all"):
            return True
        if fn in ("torch.cat", "torch.concat", "torch.stack") and len(s.args) >= 2:
            items = _seq_items(s.args[1])
            return items is not None and all(_is_boolish(i, depth + 1) for i in items)
    return False


def _fn(s: S) -> Optional[str]:
    if s.op == "call" and isinstance(s.args[0], S) and s.args[0].op in ("ext", "global", "func"):
        return s.args[0].args[0]
    return None


def _seq_items(s: S) -> Optional[List[S]]:
    if isinstance(s, S) and s.op in ("tuple", "list"):
        return list(s.args)
    return None


def boolwalk(root: S, bool_cells: Iterable[str] = ()) -> List[Leaf]:
    """Decompose a boolean-valued expression into literals with polarity and context.
    `bool_cells`: TD keys known to hold 0/1 indicator tensors (so `cell == 0` is a negation)."""
    out: List[Leaf] = []
    bool_cells = set(bool_cells)

    def eff(op, sign):
        # effective connective after pushing negations inwards
        if sign == 0:
            return "sel"
        if op == "and":
            return "and" if sign > 0 else "or"
        return "or" if sign > 0 else "and"

    def go(s: S, sign, path, reduced, part, guards, depth=0):
        if depth > 200:
            out.append(Leaf(s, 0, path, reduced, part, guards))
            return
        s = strip(s, bool_ctx=True)
        o, a = s.op, s.args
        d = depth + 1
        if o in ("inv", "not"):
            return go(a[0], -sign, path, reduced, part, guards, d)
        fn = _fn(s)
        if fn == "torch.logical_not":
            return go(a[1], -sign, path, reduced, part, guards, d)
        if o in ("&", "and") or fn == "torch.logical_and" or (o == "*" and _is_boolish(a[0]) and _is_boolish(a[1])) or (o == "meth" and a[1] in ("logical_and",)):
            kids = list(a) if o in ("&", "and", "*") else ([a[0], a[2]] if o == "meth" else list(a[1:3]))
            e = eff("and", sign)
            for i, k in enumerate(kids):
                go(k, sign, path + ((s.id, e, i),), reduced, part, guards, d)
            return
        if o in ("|", "or") or fn == "torch.logical_or" or (o == "meth" and a[1] in ("logical_or",)) or (o == "+" and (_is_boolish(a[0]) or _is_boolish(a[1]))):
            kids = list(a) if o in ("|", "or", "+") else ([a[0], a[2]] if o == "meth" else list(a[1:3]))
            e = eff("or", sign)
            for i, k in enumerate(kids):
                go(k, sign, path + ((s.id, e, i),), reduced, part, guards, d)
            return
        if o == "meth" and a[1] in ("add_", "add", "logical_or_", "bitwise_or", "bitwise_or_") and len(a) == 3:
            # accumulation of exclusion terms on a boolean mask: base | term
            e = eff("or", sign)
            go(a[0], sign, path + ((s.id, e, 0),), reduced, part, guards, d)
            go(a[2], sign, path + ((s.id, e, 1),), reduced, part, guards, d)
            return
        if o == "meth" and a[1] in ("mul_", "mul", "logical_and_", "bitwise_and", "bitwise_and_") and len(a) == 3:
            e = eff("and", sign)
            go(a[0], sign, path + ((s.id, e, 0),), reduced, part, guards, d)
            go(a[2], sign, path + ((s.id, e, 1),), reduced, part, guards, d)
            return
        if fn in ("torch.full", "torch.zeros", "torch.ones", "torch.full_like", "torch.zeros_like", "torch.ones_like"):
            out.append(Leaf(mk("constfill", fn, *[x for x in a[2:] if is_const(x)]), sign, path, reduced, part, guards))
            return
        if fn in ("einops.rearrange", "einops.reduce", "einops.repeat") and len(a) >= 2:
            red = reduced or fn == "einops.reduce"
            if fn == "einops.reduce":
                how = [x for x in a[3:] if is_const(x)]
                kind = how[0].args[0] if how else "?"
                e = eff("or" if kind in ("any", "max", "sum") else "and", sign)
                return go(a[1], sign, path + ((s.id, e, 0),), True, part, guards, d)
            return go(a[1], sign, path, red, part + (("rearrange", a[2].args[0] if is_const(a[2]) else "?"),), guards, d)
        if fn in ("torch.cat", "torch.concat", "torch.stack") and len(a) >= 2:
            items = _seq_items(a[1])
            if items is not None:
                for i, k in enumerate(items):
                    go(k, sign, path, reduced, part + (("cat", i, len(items)),), guards, d)
                return
        if o == "sub":
            return go(a[0], sign, path, reduced, part + (("idx", norm(a[1])),), guards, d)
        if o == "store":
            # old with columns `idx` replaced by val
            nidx = norm(a[1])
            if any(p[0] == "kept" and p[1] is nidx for p in part):
                # these columns are overwritten by an enclosing store with the same index: dead value
                return go(a[0], sign, path, reduced, part, guards, d)
            go(a[0], sign, path, reduced, part + (("kept", nidx),), guards, d)
            v = a[2]
            if is_const(v):
                out.append(Leaf(v, sign, path, reduced, part + (("set", norm(a[1])),), guards))
            else:
                go(v, sign, path, reduced, part + (("set", norm(a[1])),), guards, d)
            return
        if o in ("phi", "ifexp"):
            go(a[1], sign, path, reduced, part, guards + ((a[0], True),), d)
            go(a[2], sign, path, reduced, part, guards + ((a[0], False),), d)
            return
        if o == "loop":
            go(a[0], sign, path, reduced, part, guards + ((s, "init"),), d)
            go(a[1], sign, path, reduced, part, guards + ((s, "body"),), d)
            return
        if o == "loopvar":
            out.append(Leaf(s, sign, path, reduced, part, guards))
            return
        r = _cmp_raw(s)
        if r is not None:
            lhs, op, rhs = r
            L = strip(lhs, bool_ctx=True)
            # (B == 0) / (B == False) with B boolean-structured: negation
            if op in ("==", "!=") and (is_const(rhs, 0) or is_const(rhs, False) or is_const(rhs, 1) or is_const(rhs, True)):
                truthy = bool(rhs.args[0])
                if _is_boolish(L) or (L.op in ("cell0",) and L.args[1] in bool_cells) or (L.op == "sub" and strip(L.args[0], True).op == "cell0" and strip(L.args[0], True).args[1] in bool_cells):
                    flip = (op == "==") != truthy
                    return go(lhs, -sign if flip else sign, path, reduced, part, guards, d)
            # exists / count > 0 over a reduction of a boolean structure
            if op in (">", "!=", ">=") and (is_const(rhs, 0) or (op == ">=" and is_const(rhs, 1))):
                if L.op == "meth" and L.args[1] in ("sum", "any", "count_nonzero") and _is_boolish(L.args[0]):
                    e = eff("or", sign)
                    return go(L.args[0], sign, path + ((s.id, e, 0),), True, part, guards, d)
                if _is_boolish(L) and op in (">", "!="):
                    return go(lhs, sign, path, reduced, part, guards, d)
            out.append(Leaf(s, sign, path, reduced, part, guards))
            return
        if o == "meth" and a[1] in ("any", "all") and len(a) >= 2:
            e = eff("or" if a[1] == "any" else "and", sign)
            return go(a[0], sign, path + ((s.id, e, 0),), True, part, guards, d)
        if fn in ("torch.any", "torch.all") and len(a) >= 2:
            e = eff("or" if fn.endswith("any") else "and", sign)
            return go(a[1], sign, path + ((s.id, e, 0),), True, part, guards, d)
        if o == "meth" and a[1] in ("masked_fill", "masked_fill_") and len(a) == 4 and is_const(a[3]) and bool(a[3].args[0]):
            base_v = kleene(a[0], lambda n_: None)
            if base_v is False:  # zeros.masked_fill(cond, 1)  ==  cond
                return go(a[2], sign, path, reduced, part, guards, d)
        if o == "meth" and a[1] in ("scatter", "scatter_", "index_fill", "index_fill_", "masked_fill", "masked_fill_") and len(a) >= 4:
            # base.scatter(dim, idx, const): base with selected entries forced to const
            val = a[-1]
            if isinstance(val, S) and val.op == "kw":
                val = val.args[1]
            base = a[0]
            sel = [x for x in a[2:-1]]
            if is_const(val) and isinstance(val.args[0], (int, bool, float)):
                forced = bool(val.args[0])
                # root = base AND not(sel)  (forced False)   /   base OR sel (forced True)
                e = eff("and" if not forced else "or", sign)
                go(base, sign, path + ((s.id, e, 0),), reduced, part, guards, d)
                selnode = mk("selected", *[norm(x) for x in sel if isinstance(x, S)])
                out.append(Leaf(selnode, (-sign if not forced else sign), path + ((s.id, e, 1),), reduced, part, guards))
                return
        if o == "meth" and a[1] in ("scatter", "scatter_") and len(a) >= 5:
            # base.scatter(dim, idx, values): selected entries replaced by `values`, the rest kept
            v = a[-1]
            if isinstance(v, S) and v.op == "kw":
                v = v.args[1]
            go(a[0], sign, path + ((s.id, "sel", 0),), reduced, part, guards, d)
            if isinstance(v, S):
                go(v, sign, path + ((s.id, "sel", 1),), reduced, part, guards, d)
            return
        if fn == "torch.where" and len(a) == 4:
            for i, k in enumerate(a[1:]):
                go(k, 0, path + ((s.id, "sel", i),), reduced, part, guards, d)
            return
        out.append(Leaf(s, sign, path, reduced, part, guards))

    go(root, +1, (), False, (), ())
    return out


def lca_op(l1: Leaf, l2: Leaf) -> Optional[str]:
    """Effective connective at the lowest common boolean ancestor of two literals."""
    op = None
    for p1, p2 in zip(l1.path, l2.path):
        if p1[0] != p2[0]:
            break
        if p1[2] != p2[2]:
            return p1[1]
        op = p1[1]
    return None


def sided_cells(p: Poly, td_name: Optional[str] = None):
    """Cells on the positive-coefficient side and on the negative-coefficient side of P."""
    pos, neg = set(), set()
    for c, fs in p.monos():
        tgt = pos if c > 0 else neg
        for a, _ in fs:
            tgt |= cells_of(a, td_name)
    return pos, neg


# ----------------------------------------------------------------------------- three-valued evaluation


def _connective(s: S):
    """-> ('and'|'or', kids) for boolean connective nodes, else None."""
    o, a = s.op, s.args
    fn = _fn(s)
    if o in ("&", "and") or (o == "*" and _is_boolish(a[0]) and _is_boolish(a[1])):
        return "and", list(a)
    if fn == "torch.logical_and":
        return "and", list(a[1:3])
    if o in ("|", "or") or (o == "+" and (_is_boolish(a[0]) or _is_boolish(a[1]))):
        return "or", list(a)
    if fn == "torch.logical_or":
        return "or", list(a[1:3])
    if o == "meth" and len(a) == 3:
        if a[1] in ("logical_and", "logical_and_", "mul", "mul_", "bitwise_and"):
            return "and", [a[0], a[2]]
        if a[1] in ("logical_or", "logical_or_", "add", "add_", "bitwise_or"):
            return "or", [a[0], a[2]]
    return None


def kleene(s: S, assume, sign=+1, depth=0):
    """Three-valued truth of a boolean tensor expression: True = every entry true, False =
    every entry false, None = unknown.  `assume(node)` may fix the value of designated nodes."""
    if depth > 120:
        return None
    s = strip(s, bool_ctx=True)

    def ret(v):
        return v if (v is None or sign > 0) else (not v)

    v = assume(s)
    if v is not None:
        return ret(v)
    o, a = s.op, s.args
    d = depth + 1
    if o == "const" and isinstance(a[0], (bool, int, float)):
        return ret(bool(a[0]))
    if o in ("inv", "not"):
        return kleene(a[0], assume, -sign, d)
    fn = _fn(s)
    if fn == "torch.logical_not":
        return kleene(a[1], assume, -sign, d)
    if fn in ("torch.zeros", "torch.zeros_like"):
        return ret(False)
    if fn in ("torch.ones", "torch.ones_like"):
        return ret(True)
    if fn in ("torch.full", "torch.full_like") and len(a) >= 3:
        fv = [x for x in a[2:] if is_const(x) and isinstance(x.args[0], (bool, int, float))]
        if fv:
            return ret(bool(fv[-1].args[0]))
    c = _connective(s)
    if c is not None:
        kind, kids = c
        vals = [kleene(k, assume, +1, d) for k in kids]
        if kind == "and":
            r = False if any(x is False for x in vals) else (True if all(x is True for x in vals) else None)
        else:
            r = True if any(x is True for x in vals) else (False if all(x is False for x in vals) else None)
        return ret(r)
    if fn in ("torch.cat", "torch.concat", "torch.stack") and len(a) >= 2:
        items = _seq_items(a[1])
        if items:
            vals = [kleene(k, assume, +1, d) for k in items]
            if all(x is True for x in vals):
                return ret(True)
            if all(x is False for x in vals):
                return ret(False)
        return None
    if o == "meth" and a[1] in ("masked_fill", "masked_fill_") and len(a) == 4 and is_const(a[3]):
        basev = kleene(a[0], assume, +1, d)
        fillv = bool(a[3].args[0])
        if basev is not None and basev != fillv:
            c = kleene(a[2], assume, +1, d)
            return ret(None if c is None else (c if fillv else (not c)))
        if basev is not None:
            return ret(basev)
        return None
    if o == "sub":
        return kleene(a[0], assume, sign, d)
    if o == "store":
        x, y = kleene(a[0], assume, +1, d), kleene(a[2], assume, +1, d)
        return ret(x) if (x is not None and x == y) else None
    if o in ("phi", "ifexp"):
        x, y = kleene(a[1], assume, +1, d), kleene(a[2], assume, +1, d)
        return ret(x) if (x is not None and x == y) else None
    if fn == "torch.where" and len(a) == 4:
        x, y = kleene(a[2], assume, +1, d), kleene(a[3], assume, +1, d)
        return ret(x) if (x is not None and x == y) else None
    r = _cmp_raw(s)
    if r is not None:
        lhs, op, rhs = r
        if op in ("==", "!=") and (is_const(rhs, 0) or is_const(rhs, False) or is_const(rhs, 1) or is_const(rhs, True)) and _is_boolish(strip(lhs, True)):
            flip = (op == "==") != bool(rhs.args[0])
            x = kleene(lhs, assume, +1, d)
            return ret(None if x is None else (not x if flip else x))
        if op in (">", "!=") and is_const(rhs, 0) and _is_boolish(strip(lhs, True)):
            return kleene(lhs, assume, sign, d)
    return None


def row_nonempty(s: S, assume, sign=+1, residual=None, depth=0):
    """True when it is structurally certain that every row of the mask `s` (negated when
    sign<0) has at least one true entry, under `assume`.  `residual(node)` marks filter
    literals that are assumed true by a recorded instance-validity argument."""
    if depth > 120:
        return False
    s = strip(s, bool_ctx=True)
    o, a = s.op, s.args
    d = depth + 1
    if o in ("inv", "not"):
        return row_nonempty(a[0], assume, -sign, residual, d)
    fn = _fn(s)
    if fn in ("torch.cat", "torch.concat") and len(a) >= 2:
        items = _seq_items(a[1])
        if items:
            return any(row_nonempty(k, assume, sign, residual, d) for k in items)
    if o == "store":
        if row_nonempty(a[2], assume, sign, residual, d) or kleene(a[2], assume, sign) is True:
            return True
        return False
    if o == "meth" and a[1] in ("scatter", "scatter_") and len(a) >= 5:
        v = a[-1]
        if isinstance(v, S) and v.op == "kw":
            v = v.args[1]
        if isinstance(v, S) and kleene(v, assume, sign) is True:
            return True
        return False
    r = _cmp_raw(s)
    if r is not None:
        lhs, op, rhs = r
        if op in (">", "!=") and is_const(rhs, 0) and _is_boolish(strip(lhs, True)):
            return row_nonempty(lhs, assume, sign, residual, d)
    c = _connective(s)
    if c is not None:
        kind, kids = c
        eff = kind if sign > 0 else ("or" if kind == "and" else "and")
        if eff == "or":
            return any(row_nonempty(k, assume, sign, residual, d) for k in kids)
        # effective AND: one structural conjunct provides the open column, all others must be true there
        for i, k in enumerate(kids):
            if row_nonempty(k, assume, sign, residual, d):
                rest = [x for j, x in enumerate(kids) if j != i]
                if all((kleene(x, assume, sign) is True) or (residual is not None and residual(x, sign)) for x in rest):
                    return True
        return False
    return kleene(s, assume, sign) is True


# ----------------------------------------------------------------------------- polarity (monotonicity) analysis

MONO_INC_METH = {"gather", "sum", "mean", "max", "min", "amax", "amin", "cumsum", "clamp", "clip", "relu", "values", "squeeze", "unsqueeze", "reshape", "view",
                 "expand", "expand_as", "float", "int", "long", "to", "clone", "contiguous", "masked_fill", "scatter", "scatter_", "transpose", "permute"}
MONO_INC_FN = {"torch.max", "torch.min", "torch.clamp", "torch.maximum", "torch.minimum", "torch.sum", "torch.cat", "torch.stack"}
DIST_FN = {"rl4co.utils.ops:get_distance", "rl4co.utils.ops:get_tour_length"}


def polarity(s: S, sign: int = +1, out: Optional[dict] = None, depth: int = 0) -> dict:
    """For every TD cell / parameter the value depends on *arithmetically*: the set of signs with
    which it enters (+1: the value does not decrease when the cell increases, -1: does not
    increase), assuming the other factors of each product are non-negative (indicator factors,
    distances, demands).  Distances / norms are treated as opaque non-negative quantities
    ('|dist|'); comparisons (indicator factors) are not descended into."""
    if out is None:
        out = {}
    if depth > 60 or not isinstance(s, S):
        return out
    s = strip(s)
    o, a = s.op, s.args
    d = depth + 1

    def rec(x, sg):
        polarity(x, sg, out, d)

    if o in ("cell0", "get0"):
        out.setdefault(a[1], set()).add(sign)
        return out
    if o == "param":
        out.setdefault("param:" + a[0], set()).add(sign)
        return out
    if o in ("const", "selfattr", "global", "ext", "cmp") or o in CMP_OPS:
        return out
    if o in ARITH or o == "poly":
        p = poly(s)
        for c, fs in p.monos():
            sg = sign if c > 0 else -sign
            for at, _ in fs:
                if at.op in ("cmp",) or at.op in CMP_OPS:
                    continue
                rec(at, sg)
        return out
    if o == "recip":
        rec(a[0], -sign)
        return out
    if o in ("inv", "not"):
        # a boolean (0/1) factor: ~x = 1 - x falls when x rises
        rec(a[0], -sign)
        return out
    if o in ("&", "and", "|", "or"):
        for x in a:
            if isinstance(x, S):
                rec(x, sign)
        return out
    if o in ("phi", "ifexp"):
        rec(a[1], sign)
        rec(a[2], sign)
        return out
    if o in ("loop", "store"):
        rec(a[0], sign)
        rec(a[-1] if o == "store" else a[1], sign)
        return out
    if o == "loopvar":
        rec(a[1], sign)
        b = _vg.LOOP_BODY.get(s.id)
        return out
    if o == "sub":
        rec(a[0], sign)
        return out
    fn = _fn(s)
    if fn in DIST_FN or (o == "meth" and a[1] == "norm"):
        out.setdefault("|dist|", set()).add(sign)
        return out
    if fn is not None and fn.endswith(":gather_by_index"):
        src = [x for x in a[1:] if isinstance(x, S) and x.op == "kw" and x.args[0] == "src"]
        rec(src[0].args[1] if src else a[1], sign)
        return out
    if fn == "torch.where" and len(a) == 4:
        rec(a[2], sign)
        rec(a[3], sign)
        return out
    if fn in MONO_INC_FN:
        for x in a[1:]:
            if isinstance(x, S) and x.op not in ("kw", "const"):
                if x.op in ("tuple", "list"):
                    for y in x.args:
                        rec(y, sign)
                else:
                    rec(x, sign)
        return out
    if o == "meth" and a[1] in ("scatter_add", "scatter_add_") and len(a) >= 5:
        rec(a[0], sign)
        rec(a[4], sign)
        return out
    if o == "meth" and a[1] in MONO_INC_METH:
        rec(a[0], sign)
        if a[1] in ("masked_fill", "scatter", "scatter_") and len(a) >= 4 and isinstance(a[-1], S):
            rec(a[-1], sign)
        return out
    if o == "meth" and a[1] in ("long", "bool"):
        return out
    # unknown function: dependence without a known direction
    for c in _vg.cells_of(s):
        out.setdefault(c, set()).add(0)
    return out


def bool_signs(s, name: str, sign: int = +1, out: Optional[set] = None, depth: int = 0) -> set:
    """Signs with which the boolean tensor parameter `name` enters the boolean value `s`
    (+1: making more entries of the parameter True can only turn `s` from False to True).
    `not` / `~` flip; any / all / gather / index / shape-only wrappers keep; `&`, `|` keep both
    operands; a comparison or arithmetic makes the sign unknown (0).  Index operands of gather /
    subscripts are not descended into (they select, they do not carry the truth value)."""
    if out is None:
        out = set()
    if depth > 40 or not isinstance(s, S):
        return out
    o, a = s.op, s.args
    d = depth + 1
    if o == "param":
        if a[0] == name:
            out.add(sign)
        return out
    if o in ("not", "inv"):
        return bool_signs(a[0], name, -sign, out, d)
    if o in ("and", "or", "&", "|"):
        for x in a:
            bool_signs(x, name, sign, out, d)
        return out
    if o in ("phi", "ifexp"):
        bool_signs(a[1], name, sign, out, d)
        bool_signs(a[2], name, sign, out, d)
        return out
    if o == "attr" and a[1] in ("data", "T"):
        return bool_signs(a[0], name, sign, out, d)
    if o == "meth":
        if a[1] in ("any", "all", "gather", "squeeze", "unsqueeze", "clone", "detach", "bool", "view", "reshape", "flatten", "expand", "contiguous", "cpu", "to", "item"):
            return bool_signs(a[0], name, sign, out, d)
        if a[1] in ("logical_not",):
            return bool_signs(a[0], name, -sign, out, d)
    if o == "sub":
        return bool_signs(a[0], name, sign, out, d)
    fn = _fn(s)
    if fn in ("torch.any", "torch.all", "torch.gather", "any", "all", "bool"):
        return bool_signs(a[1], name, sign, out, d)
    if fn in ("torch.logical_not",):
        return bool_signs(a[1], name, -sign, out, d)
    if fn is not None and fn.endswith(":gather_by_index"):
        return bool_signs(a[1], name, sign, out, d)
    # anything else mentioning the parameter: unknown sign
    if name in _vg.params_of(s):
        out.add(0)
    return out


def dim_of(a):
    """(tensor, k) when `a` is tensor.shape[k] or tensor.size(k) with a constant k, else None"""
    if isinstance(a, S) and a.op == "sub" and isinstance(a.args[0], S) and a.args[0].op == "attr" and a.args[0].args[1] == "shape" and isinstance(a.args[1], S) and a.args[1].op == "const":
        return a.args[0].args[0], a.args[1].args[0]
    if isinstance(a, S) and a.op == "meth" and a.args[1] == "size" and len(a.args) == 3 and isinstance(a.args[2], S) and a.args[2].op == "const":
        return a.args[0], a.args[2].args[0]
    # tensor.size()[k]  (also what tuple unpacking `b, n, d = tensor.size()` produces)
    if isinstance(a, S) and a.op == "sub" and isinstance(a.args[0], S) and a.args[0].op == "meth" and a.args[0].args[1] == "size" and len(a.args[0].args) == 2 \
            and isinstance(a.args[1], S) and a.args[1].op == "const" and isinstance(a.args[1].args[0], int):
        return a.args[0].args[0], a.args[1].args[0]
    return None


def axis_arg(n):
    """The axis operand of a reduction / shape call in either spelling:
    x.m(k), x.m(dim=k), torch.f(x, k), torch.f(x, dim=k).  None when no axis is named."""
    if not isinstance(n, S) or n.op not in ("meth", "call"):
        return None
    rest = n.args[2:]
    for x in rest:
        if isinstance(x, S) and x.op == "kw" and x.args[0] in ("dim", "axis"):
            return x.args[1]
    for x in rest:
        if not (isinstance(x, S) and x.op == "kw"):
            return x
    return None


def axis_is(n, k) -> bool:
    a = axis_arg(n)
    return isinstance(a, S) and a.op == "const" and a.args[0] == k and not isinstance(a.args[0], bool)
