"""Reasoned exceptions of the non-interference rule (C04, C14).

Key: (qualified function that contains the construct, kind, normalised source text of the
construct as printed by ast.unparse).  Each entry was read in the source; the reason says why
the batch-global construct cannot make one instance's outcome depend on its batch-mates.
Anything not listed (and not proven row-uniform by the rule itself) is a violation.
"""

EXCEPTIONS = {
    # ---- regrouped flattenings
    ("SVRPEnv._get_reward", "flatten", "torch.nonzero(actions == 0)"):
        "regrouped: the Python loop over the depot visits carries its own row index (each[0]) and resets its per-row state when the row changes; every finished row contains a depot visit",
    ("SVRPEnv.check_solution_validity", "flatten", "torch.nonzero(actions == 0)"):
        "regrouped: same row-index-carrying loop as in _get_reward",
    ("FLPEnv._step", "flatten", "chosen.nonzero(as_tuple=True)"):
        "regrouped by view(batch_size, -1): every row has the same number of chosen facilities (= the row-uniform step counter i + 1)",
    ("FLPEnv._get_reward", "flatten", "chosen.nonzero(as_tuple=True)"):
        "regrouped by view(batch_size, -1): every row holds exactly to_choose facilities at the end (documented precondition: equal to_choose within a batch)",
    ("MCPEnv._step", "flatten", "chosen_membership.nonzero()"):
        "regrouped: nonzero() returns (batch, set, item) triples and the scatter uses the batch index column",
    ("MCPEnv._get_reward", "flatten", "chosen_membership.nonzero()"):
        "regrouped: scatter on the batch_indices column",
    ("JSSPEnv._translate_action", "flatten", "gather_by_index(td['ops_ma_adj'], op.unsqueeze(1), dim=2).nonzero()"):
        "regrouped: in JSSP every operation is eligible on exactly one machine, so nonzero() yields exactly one hit per row, in row order",
    # ---- guarded control: the batch-global predicate only decides whether row-masked work is executed at all
    ("FJSPEnv._step", "reduce-all", "no_op.any()"):
        "guarded control: `if no_op.any(): _transit_to_next_time(no_op, td)` -- the callee updates rows through torch.where(no_op, ...) / [op_finished] masks only",
    ("FJSPEnv._step", "reduce-all", "step_complete.any()"):
        "guarded control: `while step_complete.any()`: the body updates rows through torch.where(step_complete, ...) only",
    ("FFSPEnv._step", "reduce-all", "td['done'].all()"):
        "guarded control: `if td['done'].all()` skips the machine search when every row is done / writes the final reward for all rows from per-row schedules",
    ("FFSPEnv._move_to_next_machine", "reduce-all", "ready.all()"):
        "guarded control: `while ~ready.all()` with the body restricted to idx = idx[~ready]",
    # ---- rank-mismatched broadcast with an operand that is row-uniform by an episode invariant (not visible to the constant-fill rule)
    ("MDCPDPEnv._step", "rank-broadcast", "action_mask[..., :num_depot].gather(-1, current_depot) | done"):
        "latent shape slip, no cross-row effect: `done` ([B]) is or-ed with a [B, 1] column, which broadcasts to [B, B] and lets scatter_ read `own | done[0]`; "
        "MDCPDP episodes have a fixed length (every mask-confined step visits exactly one still-available node, so count_nonzero(available) falls by one per step "
        "in every row) and all rows of a batch finish at the same step: done[0] == done[i] at all times (240 random mask-confined rollouts: never a mixed done vector, "
        "batched masks identical to single-instance masks -- findings/F23_mdcpdp_done_flag_broadcast_NOT_A_DEFECT.py passes)",
    # ---- shape-only use: the value only sizes a padded view; padding is masked by pad_mask
    ("FJSPEnv._decode_graph_structure", "reduce-all", "n_ops_per_batch.max()"):
        "shape-only: maximum number of operations in the batch is used as the padded width; padded columns are masked by pad_mask",
}

# functions whose every reduction is over a single instance (explicit per-row Python loop)
PER_ROW_FUNCTIONS = {
    "DPPEnv._get_reward": "per-row loop `for td_single, action in zip(td, actions)`: all reductions are over one instance's tensors",
    "DPPEnv._decap_simulator": "called per instance from the per-row loop of _get_reward",
    "DPPEnv._decap_placement": "called per instance",
    "DPPEnv._decap_model": "called per instance",
    "DPPEnv._initial_impedance": "called per instance",
    "MDPPEnv._get_reward": "per-row loop `for td_single, action in zip(td, actions)`",
    "MDPPEnv._single_env_reward": "called per instance from the per-row loop of _get_reward",
}
