"""Reference rows for the scheduling environments (admit form, see tables/routing.py)."""
from ..envs import Lit

S = "rl4co/envs/scheduling/"
ENVS = {
    "FJSPEnv": S + "fjsp/env.py",
    "JSSPEnv": S + "jssp/env.py",
}
BOOL_CELLS = {"job_done", "job_in_process", "done", "op_scheduled", "action_mask", "pad_mask"}

# literals of get_action_mask (job x machine part)
AVAIL = [
    Lit("job-not-done", "cell", key="job_done", sign=-1, conj=False),
    Lit("job-not-in-process", "cell", key="job_in_process", sign=-1, conj=False),
    Lit("machine-idle", "cmp", big={"time"}, small={"busy_until"}, strict=False, conj=False, const=0,
        why="a machine released exactly now is free (busy_until == time)"),
    Lit("machine-eligible", "eq", cells={"proc_times", "next_op"}, op="!=0", conj=False,
        why="processing time 0 encodes 'not eligible'"),
    Lit("wait-when-done", "cell", key="done", sign=+1, conj=False, why="padding action stays open for finished instances"),
]
