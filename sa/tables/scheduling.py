"""Reference rows for the scheduling environments (admit form, see tables/routing.py)."""
from ..envs import Lit

S = "rl4co/envs/scheduling/"
ENVS = {
    "FJSPEnv": S + "fjsp/env.py",
    "JSSPEnv": S + "jssp/env.py",
}
BOOL_CELLS = {"job_done", "job_in_process", "done", "op_scheduled", "action_mask", "pad_mask"}

# literals of get_action_mask (job x machine part)
AVAIL = [
    Lit("job-not-done", "cell", key="job_done", sign=-1, conj=False),
    Lit("job-not-in-process", "cell", key="job_in_process", sign=-1, conj=False),
    Lit("machine-idle", "cmp", big={"time"}, small={"busy_until"}, strict=False, conj=False, const=0,
        why="a machine released exactly now is free (busy_until == time)"),
    Lit("machine-eligible", "eq", cells={"proc_times", "next_op"}, op="!=0", conj=False,
        why="processing time 0 encodes 'not eligible'"),
    Lit("wait-when-done", "cell", key="done", sign=+1, conj=False, alt=True, why="padding action stays open for finished instances"),
]

# FFSP: literals of the action_mask value written by _update_step_state (wait action = last column)
FFSP = [
    Lit("job-in-current-stage", "eq", cells={"job_location", "sub_time_idx"}, op="==0", why="a job is offered only on a machine of its current stage"),
    Lit("job-not-waiting", "eq", cells={"job_wait_step"}, op="==0", why="a job whose previous stage is still running is not offered"),
    Lit("wait-if-job-in-previous-stage", "cmp", big={"sub_time_idx"}, small={"job_location"}, strict=True, conj=False, alt=True, const=0,
        why="waiting is offered while some job still sits in an earlier stage"),
    Lit("wait-if-job-waiting-in-stage", "cmp", big={"job_wait_step"}, small=set(), strict=True, conj=False, alt=True, const=0,
        why="waiting is offered while a job of this stage is still being processed in the preceding stage"),
    Lit("wait-when-done", "cell", key="done", sign=+1, conj=False, alt=True, why="finished instances can always take the wait action"),
]
