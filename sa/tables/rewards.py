"""C03 -- reference objective of every environment, as a sum of signed terms.

Each alternative of `_get_reward` (one per Python-level mode) must consist of exactly the
listed terms: sign, the TD cells it must read, whether it depends on the action sequence,
the cells it must NOT read, and a named structural predicate (see rules/C03.py).
Written from the objective definitions in the property statement.
"""


class Term:
    def __init__(self, sign, cells=(), actions=False, forbid=(), pred=None, attrs=(), why=""):
        self.sign, self.cells, self.actions, self.forbid, self.pred, self.attrs, self.why = sign, set(cells), actions, set(forbid), pred, set(attrs), why


T = Term
_tour_depot = [T(-1, {"locs"}, True, pred="closed-tour-from-depot", why="negative closed-tour length starting and ending at the depot")]

# env -> list of (mode selector, terms).  Selector: None = the only/default alternative,
# a string = the constant that the alternative's guard compares a self attribute with.
REWARD = {
    "TSPEnv": [(None, [T(-1, {"locs"}, True, pred="closed-tour", why="negative closed-tour length")])],
    "ATSPEnv": [(None, [T(-1, {"cost_matrix"}, True, pred="atsp-orientation", why="sum of matrix[a_t, a_(t+1)] incl. the closing arc")])],
    "CVRPEnv": [(None, _tour_depot)],
    "CVRPTWEnv": [(None, _tour_depot)],
    "SDVRPEnv": [(None, _tour_depot)],
    "PDPEnv": [(None, _tour_depot)],
    "SVRPEnv": [(None, [T(-1, {"locs"}, True, attrs={"tech_costs"}, pred="weighted-legs-from-depot", why="skill-cost weighted length")])],
    "OPEnv": [(None, [T(+1, {"prize"}, True, pred="sum-last", why="collected prize")])],
    "PCTSPEnv": [(None, [
        T(-1, {"locs"}, True, pred="closed-tour-from-depot"),
        T(+1, {"penalty"}, True, pred="sum-last", why="penalties of visited nodes are saved"),
        T(-1, {"penalty"}, False, pred="sum-last", why="all penalties"),
    ])],
    "MTSPEnv": [
        ("minmax", [T(+1, {"reward"}, False, pred="cell", why="-max subtour length accumulated in _step")]),
        ("sum", [T(-1, {"locs"}, True, pred="closed-tour")]),
    ],
    "MDCPDPEnv": [
        ("minmax", [T(-1, {"current_length"}, False, pred="max-last", why="longest per-depot route")]),
        ("minsum", [T(-1, {"current_length"}, False, pred="sumfn-last", why="sum of the per-depot routes")]),
        ("lateness", [T(-1, {"current_length"}, False, why="(1 - w) * total length"),
                      T(+1, {"current_length", "lateness_weight"}, False),
                      T(-1, {"arrivetime_record", "lateness_weight"}, False, why="w * lateness (arrival times of the delivery nodes)")]),
    ],
    "MTVRPEnv": [(None, [T(-1, {"locs", "open_route"}, True, pred="mtvrp-open-route", why="open routes are not charged for the return leg")])],
    "SMTWTPEnv": [(None, [T(-1, {"job_due_time", "job_weight", "job_process_time"}, True, pred="weighted-tardiness")])],
    "FJSPEnv": [
        ("stepwise", [T(+1, {"reward"}, False, pred="cell")]),
        (None, [T(-1, {"finish_times", "pad_mask"}, False, pred="max-finish", why="makespan = latest completion over real operations")]),
    ],
    "FFSPEnv": [(None, [T(+1, {"reward"}, False, pred="cell")])],
    "FLPEnv": [(None, [T(-1, {"orig_distances", "chosen"}, False, forbid={"distances"}, pred="min-then-sum")])],
    "MCPEnv": [(None, [T(+1, {"orig_weights", "orig_membership", "chosen"}, False, forbid={"weights", "membership"}, pred="sum-last")])],
}
REWARD["SPCTSPEnv"] = REWARD["PCTSPEnv"]
REWARD["JSSPEnv"] = REWARD["FJSPEnv"]

# alternatives that are recognised and skipped, with the reason
TRIVIAL = "all tours consist of the single depot visit (actions.size(-1) == 1): reward 0"
