"""Reference rows for the routing environments.

Written from the problem definitions in the property statements (C01/C02/C05/C06), in each
environment's state vocabulary (TensorDict keys are the environments' public observation
API).  These tables are the oracle; the repository source is what is checked against them.
All comparison literals are in *admit form*: `big - small >= 0` (or `> 0` when `strict`).
"""
from ..envs import Lit, tail_vs_head

R = "rl4co/envs/routing/"

# class name -> (file, mask family)
ENVS = {
    "TSPEnv": (R + "tsp/env.py", "incremental"),
    "ATSPEnv": (R + "atsp/env.py", "incremental"),
    "CVRPEnv": (R + "cvrp/env.py", "recompute"),
    "CVRPTWEnv": (R + "cvrptw/env.py", "recompute"),
    "SDVRPEnv": (R + "sdvrp/env.py", "recompute"),
    "SVRPEnv": (R + "svrp/env.py", "recompute"),
    "OPEnv": (R + "op/env.py", "recompute"),
    "PCTSPEnv": (R + "pctsp/env.py", "recompute"),
    "SPCTSPEnv": (R + "spctsp/env.py", "recompute"),
    "PDPEnv": (R + "pdp/env.py", "incremental"),
    "MTSPEnv": (R + "mtsp/env.py", "incremental"),
    "MDCPDPEnv": (R + "mdcpdp/env.py", "incremental"),
    "MTVRPEnv": (R + "mtvrp/env.py", "recompute"),
}

# cells that hold 0/1 indicator tensors (so `cell == 0` is a negation)
BOOL_CELLS = {"visited", "available", "to_deliver", "action_mask", "open_route", "done"}

_cvrp = [
    Lit("unvisited", "cell", key="visited", sign=-1, why="customers are visited exactly once"),
    Lit("capacity", "cmp", big={"vehicle_capacity"}, small={"demand", "used_capacity"}, strict=False, const=0,
        why="load never above capacity; a load exactly filling the vehicle is allowed"),
    Lit("depot-after-depot", "eq", cells={"current_node"}, op="!=0", conj=False, alt=True, optional=True, why="documented pruning: only depot->depot moves are pruned while customers are servable"),
]

MASK = {
    "CVRPEnv": _cvrp,
    "CVRPTWEnv": _cvrp + [
        Lit("time-window", "cmp", big={"time_windows"}, small={"current_time", "locs", "current_node"}, strict=False, const=0,
            why="service may start up to and including the end of the window"),
    ],
    "SDVRPEnv": [
        Lit("demand-left", "eq", cells={"demand_with_depot"}, op="!=0", why="only customers with remaining demand"),
        Lit("room-left", "cmp", big={"vehicle_capacity"}, small={"used_capacity"}, strict=True, const=0,
            why="a full vehicle cannot deliver anything"),
        Lit("depot-after-depot", "eq", cells={"current_node"}, op="!=0", conj=False, alt=True, optional=True),
    ],
    "SVRPEnv": [
        Lit("unvisited", "cell", key="visited", sign=-1),
        Lit("skill", "cmp", big={"techs", "current_tech"}, small={"skills"}, strict=False, const=0,
            why="technician skill greater than or equal to the required skill"),
        Lit("depot-after-depot", "eq", cells={"current_node"}, op="!=0", conj=False, alt=True, optional=True),
        Lit("last-technician", "eq", cells={"current_tech"}, op="!=0", conj=False,
            why="the last technician must not return while customers remain: there is nobody left to send out"),
    ],
    "OPEnv": [
        Lit("unvisited", "cell", key="visited", sign=-1),
        Lit("length", "cmp", big={"max_length"}, small={"tour_length", "locs", "current_node"}, strict=False, const=0,
            why="tour length incl. return within the limit (max_length already has the return leg and the documented 1e-6 margin subtracted in _reset)"),
    ],
    "PCTSPEnv": [
        Lit("unvisited", "cell", key="visited", sign=-1),
        Lit("min-prize", "cmp", big={"cur_total_prize"}, small={"prize_required"}, strict=False, conj=False, const=0, alt=True,
            why="the depot opens exactly when the collected prize reaches the instance's requirement td['prize_required']"),
    ],
    "MTVRPEnv": [
        Lit("unvisited", "cell", key="visited", sign=-1),
        Lit("tw-customer", "cmp", big={"time_windows"}, small={"current_time", "locs", "current_node", "speed"}, strict=False, const=0,
            why="closed time window [e_i, l_i]: arriving exactly at l_i is feasible"),
        Lit("tw-depot-return", "cmp", big={"time_windows"}, small={"current_time", "locs", "current_node", "speed", "service_time", "open_route"},
            strict=False, const=0, why="closed routes must be able to return by the depot deadline (inclusive)"),
        Lit("distance-limit", "cmp", big={"distance_limit"}, small={"current_route_length", "locs", "current_node", "open_route"}, strict=False, const=0,
            why="route length (incl. return if closed) within the limit, equality allowed"),
        Lit("cap-linehaul", "cmp", big={"vehicle_capacity"}, small={"demand_linehaul", "used_capacity_linehaul"}, strict=False, conj=False, const=0,
            conj_with="is-linehaul"),
        Lit("cap-backhaul", "cmp", big={"vehicle_capacity"}, small={"demand_backhaul", "used_capacity_backhaul"}, strict=False, conj=False, const=0,
            conj_with="is-backhaul"),
        Lit("is-linehaul", "cmp", big={"demand_linehaul"}, small=set(), strict=True, conj=False, const=0),
        Lit("linehauls-missing", "cmp", big={"demand_linehaul", "visited"}, small=set(), strict=True, conj=False, const=0, conj_with="is-linehaul",
            why="a linehaul is offered only while unserved linehaul demand exists (strictly positive remaining demand)"),
        Lit("is-backhaul", "cmp", big={"demand_backhaul"}, small=set(), strict=True, conj=False, const=0),
        Lit("no-linehaul-after-backhaul", "cmp", big=set(), small={"demand_backhaul", "current_node"}, strict=False, conj=False, const=0,
            conj_with="is-linehaul", why="linehauls before backhauls: not carrying backhaul when delivering"),
        Lit("depot-after-depot", "eq", cells={"current_node"}, op="!=0", conj=False, alt=True, optional=True),
    ],
    # (sign overrides for MTVRP are attached below the table)
    # incremental family: literals of the `action_mask` value written by `_step`
    "TSPEnv": [
        Lit("still-available", "cell", key="action_mask", sign=+1, why="mask only shrinks"),
        Lit("chosen-removed", "sel", cells={"action"}, sign=-1, why="the chosen node is closed"),
    ],
    "PDPEnv": [
        Lit("still-available", "cell", key="available", sign=+1),
        Lit("chosen-removed", "sel", cells={"action"}, sign=-1),
        Lit("deliverable", "cell", key="to_deliver", sign=+1, conj=False, why="delivery offered only after its pickup"),
        Lit("delivery-unlocked", "sel", cells={"action"}, sign=+1, conj=False),
    ],
    "MTSPEnv": [
        Lit("still-available", "cell", key="action_mask", sign=+1),
        Lit("chosen-removed", "sel", cells={"action"}, sign=-1),
        Lit("agents-left", "cmp", big={"num_agents"}, small={"agent_idx"}, strict=True, conj=False, const=-1,
            why="the depot is offered only while another agent remains"),
    ],
    "MDCPDPEnv": [
        Lit("still-available", "cell", key="available", sign=+1, conj=False),
        Lit("chosen-removed", "sel", cells={"action"}, sign=-1, conj=False),
        Lit("deliverable", "cell", key="to_deliver", sign=+1, conj=False),
        Lit("carry-capacity", "cmp", big={"capacity"}, small={"current_carry"}, strict=True, conj=False, const=0,
            why="no pickup when the integer carry has reached the capacity"),
        Lit("no-depot-while-carrying", "cmp", big=set(), small={"current_carry"}, strict=False, conj=False, const=0),
    ],
}
_ret = Lit("not-returned-yet", "cell", key="visited", sign=-1, why="once the tour has returned to the depot (visited[0]) the episode is over: nothing but padding is offered")
_ret.single = True
MASK["OPEnv"].append(_ret)
MASK["PCTSPEnv"].append(_ret)
MASK["SPCTSPEnv"] = MASK["PCTSPEnv"]
MASK["ATSPEnv"] = MASK["TSPEnv"]

# C01.c -- state updates: key -> cells the new value must depend on (by value)
UPDATE = {
    "TSPEnv": {"action_mask": {"action_mask", "action"}, "current_node": {"action"}},
    "ATSPEnv": {"action_mask": {"action_mask", "action"}, "current_node": {"action"}},
    "CVRPEnv": {"used_capacity": {"used_capacity", "demand", "action"}, "visited": {"visited", "action"}, "current_node": {"action"}},
    "CVRPTWEnv": {"used_capacity": {"used_capacity", "demand", "action"}, "visited": {"visited", "action"}, "current_node": {"action"},
                  "current_time": {"current_time", "distances", "time_windows", "durations", "action"}},
    "SDVRPEnv": {"used_capacity": {"used_capacity", "demand_with_depot", "vehicle_capacity", "action"},
                 "demand_with_depot": {"demand_with_depot", "vehicle_capacity", "used_capacity", "action"}, "current_node": {"action"}},
    "SVRPEnv": {"current_tech": {"current_tech", "action"}, "visited": {"visited", "action"}, "current_node": {"action"}},
    "OPEnv": {"tour_length": {"tour_length", "locs", "current_node", "action"}, "visited": {"visited", "action"}, "current_node": {"action"}},
    "PCTSPEnv": {"cur_total_prize": {"cur_total_prize", "real_prize", "action"}, "visited": {"visited", "action"}, "current_node": {"action"}},
    "PDPEnv": {"available": {"available", "action"}, "to_deliver": {"to_deliver", "action"}, "current_node": {"action"}},
    "MTSPEnv": {"agent_idx": {"agent_idx", "action"}, "action_mask": {"action_mask", "action", "agent_idx", "num_agents"}, "current_node": {"action"}},
    "MDCPDPEnv": {"available": {"available", "action"}, "to_deliver": {"to_deliver", "action"}, "current_carry": {"current_carry", "action"},
                  "current_depot": {"current_depot", "action"}, "current_node": {"action"}},
    "MTVRPEnv": {"current_time": {"current_time", "locs", "current_node", "action", "speed", "time_windows", "service_time"},
                 "current_route_length": {"current_route_length", "locs", "current_node", "action"},
                 "used_capacity_linehaul": {"used_capacity_linehaul", "demand_linehaul", "action"},
                 "used_capacity_backhaul": {"used_capacity_backhaul", "demand_backhaul", "action"},
                 "visited": {"visited", "action"}, "current_node": {"action"}},
}
UPDATE["SPCTSPEnv"] = UPDATE["PCTSPEnv"]

# monotone indicator cells: key -> 'up' (entries only switch on) | 'down' (only switch off)
MONOTONE = {
    "TSPEnv": {"action_mask": "down"}, "ATSPEnv": {"action_mask": "down"},
    "CVRPEnv": {"visited": "up"}, "CVRPTWEnv": {"visited": "up"}, "SVRPEnv": {"visited": "up"},
    "OPEnv": {"visited": "up"}, "PCTSPEnv": {"visited": "up"}, "SPCTSPEnv": {"visited": "up"}, "MTVRPEnv": {"visited": "up"},
    "PDPEnv": {"available": "down", "to_deliver": "up"}, "MDCPDPEnv": {"available": "down", "to_deliver": "up"},
}

# C01.e -- per-route accumulators that restart at the depot
def _signs(env, name, table=None, **kw):
    for lit in (table if table is not None else MASK)[env]:
        if lit.name == name:
            lit.signs.update({k: set(v) for k, v in kw.items()})
            return
    raise KeyError((env, name))


# the speed divides the travel time (faster -> more slack); an open route drops the return leg (more slack); the depot-return literal
# compares the depot's closing time (+) with max(arrival, customer window start) (-); remaining linehaul demand falls as nodes get visited
_signs("MTVRPEnv", "tw-customer", speed={+1})
_signs("MTVRPEnv", "tw-depot-return", speed={+1}, open_route={+1}, time_windows={+1, -1})
_signs("MTVRPEnv", "distance-limit", open_route={+1})
_signs("MTVRPEnv", "linehauls-missing", visited={-1})

ACCUMULATORS = {
    "CVRPEnv": ["used_capacity"], "CVRPTWEnv": ["used_capacity", "current_time"], "SDVRPEnv": ["used_capacity"],
    "MTVRPEnv": ["current_time", "current_route_length", "used_capacity_linehaul", "used_capacity_backhaul"],
}

# ------------------------------------------------------------------------------------------
# C06 -- reference rows for check_solution_validity (admit form of the assert conditions).
# `params_*` are function parameters (the action sequence) on the two sides.
TOL = 1e-3  # a checker tolerance must sit on the lenient side and be at most this large

_once = Lit("customers-once", "eq", cells=set(), op="==0", why="sorted actions equal 1..n (each customer exactly once)")
_once.params = {"actions"}
_perm = Lit("permutation", "eq", cells=set(), op="==0", why="sorted actions equal 0..n-1")
_perm.params = {"actions"}

def _legs(env, name, k, table=None):
    for l in (table or MASK)[env]:
        if l.name == name:
            l.legs = k


CHECK = {
    "TSPEnv": [_perm],
    "ATSPEnv": [_perm],
    "CVRPEnv": [
        _once,
        Lit("capacity", "cmp", big={"vehicle_capacity"}, small={"demand"}, params_small={"actions"}, strict=False, const=0,
            why="running load never above capacity (tolerance on the lenient side)"),
    ],
    "SDVRPEnv": [
        Lit("all-demand-served", "eq", cells={"demand", "vehicle_capacity"}, op="==0", why="all demand delivered with capacity-limited deliveries"),
    ],
    "SVRPEnv": [
        _once,
        Lit("skill", "cmp", big={"techs"}, small={"skills"}, params_small={"actions"}, strict=False, const=0),
    ],
    "OPEnv": [
        Lit("no-duplicates", "cmp", params_big={"actions"}, params_small={"actions"}, strict=True, conj=False, const=0,
            why="sorted actions strictly increasing (or depot)"),
        Lit("length", "cmp", big={"max_length", "locs"}, small={"locs"}, params_small={"actions"}, strict=False, const=0,
            why="tour length within the limit (max_length was reduced by the return leg and 1e-6 in _reset; both are added back)"),
    ],
    "PCTSPEnv": [
        Lit("no-duplicates", "cmp", params_big={"actions"}, params_small={"actions"}, strict=True, conj=False, const=0),
        Lit("min-prize", "cmp", big={"real_prize"}, params_big={"actions"}, small={"prize_required"}, strict=False, conj=False, const=0,
            why="collected prize reaches the instance's requirement td['prize_required'] (or everything was visited)"),
    ],
    "PDPEnv": [
        _perm,
        Lit("pickup-before-delivery", "cmp", params_big={"actions"}, params_small={"actions"}, strict=True, const=0),
    ],
    "MTVRPEnv": [
        _once,
        Lit("distance-limit", "cmp", big={"distance_limit"}, small={"locs", "open_route"}, params_small={"actions"}, strict=False, const=0),
        Lit("time-window", "cmp", big={"time_windows"}, small={"locs", "time_windows", "service_time", "speed"}, params_small={"actions"},
            strict=False, const=0, why="the clock advances by distance / speed (as in _step and the mask) plus service time"),
        Lit("cap-linehaul", "cmp", big={"vehicle_capacity"}, small={"demand_linehaul"}, params_small={"actions"}, strict=False, const=0),
        Lit("cap-backhaul", "cmp", big={"vehicle_capacity"}, small={"demand_backhaul"}, params_small={"actions"}, strict=False, const=0),
    ],
    "TSPkoptEnv": [Lit("permutation", "eq", cells={"rec_best"}, op="==0"),
                   Lit("single-tour", "cmp", big={"rec_best"}, small=set(), strict=True, const=0, optional=True,
                       why="every node is reached by following the successor list from node 0 (visit stamp > 0)")],
    "PDPRuinRepairEnv": [
        Lit("permutation", "eq", cells={"rec_best"}, op="==0"),
        Lit("single-tour", "cmp", big={"rec_best"}, small=set(), strict=True, const=0, optional=True,
            why="every node is reached by following the successor list from the depot (visit stamp > 0)"),
        Lit("pickup-before-delivery", "cmp", big={"rec_best"}, small={"rec_best"}, strict=True, const=0),
    ],
}
for _n in ("PDPEnv", "PDPRuinRepairEnv"):
    for _l in CHECK[_n]:
        if _l.name == "pickup-before-delivery":
            _l.side_check = tail_vs_head
            _l.why = "position of every pickup (nodes 1..n/2) strictly before its delivery (nodes n/2+1..n)"
CHECK["CVRPTWEnv"] = CHECK["CVRPEnv"] + [
    Lit("time-window", "cmp", big={"time_windows"}, small={"locs", "time_windows", "durations"}, params_small={"actions"}, strict=False, const=0,
        why="service starts within the window; clock = max(arrival, window start) + duration, reset at the depot"),
]
CHECK["SPCTSPEnv"] = CHECK["PCTSPEnv"]

# sign overrides for checker literals: window starts (-) and ends (+) of the same key; the speed divides; an open route drops the return
# leg; OP's max_length was reduced by the return leg in _reset and the checker adds that distance back (distances on both sides)
_signs("CVRPTWEnv", "time-window", table=CHECK, time_windows={+1, -1})
_signs("MTVRPEnv", "time-window", table=CHECK, time_windows={+1, -1}, speed={+1})
_signs("MTVRPEnv", "distance-limit", table=CHECK, open_route={+1})
_signs("OPEnv", "length", table=CHECK, **{"|dist|": {+1, -1}})

CHECK_ENVS = dict(ENVS)
CHECK_ENVS.pop("MTSPEnv")
CHECK_ENVS.pop("MDCPDPEnv")
CHECK_ENVS["TSPkoptEnv"] = (R + "tsp/env.py", "improvement")
CHECK_ENVS["PDPRuinRepairEnv"] = (R + "pdp/env.py", "improvement")

# C06.c -- sibling pairs (mask literal, checker literal) implementing the same constraint
SIBLINGS = {
    "CVRPEnv": [("capacity", "capacity")],
    "CVRPTWEnv": [("capacity", "capacity"), ("time-window", "time-window")],
    "SVRPEnv": [("skill", "skill")],
    "OPEnv": [("length", "length")],
    "PCTSPEnv": [("min-prize", "min-prize")],
    "SPCTSPEnv": [("min-prize", "min-prize")],
    "MTVRPEnv": [("tw-customer", "time-window"), ("distance-limit", "distance-limit"), ("cap-linehaul", "cap-linehaul"), ("cap-backhaul", "cap-backhaul")],
}
# instance-data cells (not episode state): a sibling pair must depend on the same ones
INSTANCE_CELLS = {"locs", "time_windows", "durations", "service_time", "speed", "demand", "demand_linehaul", "demand_backhaul", "vehicle_capacity",
                  "distance_limit", "open_route", "skills", "techs", "max_length", "real_prize", "prize_required"}

# ------------------------------------------------------------------------------------------
# C02 -- padding column / completion tables (all envs, not only routing)
S_ = "rl4co/envs/scheduling/"
G_ = "rl4co/envs/graph/"
E_ = "rl4co/envs/eda/"
ALL_ENVS = dict((k, v[0]) for k, v in ENVS.items())
ALL_ENVS.update({
    "FJSPEnv": S_ + "fjsp/env.py", "JSSPEnv": S_ + "jssp/env.py", "FFSPEnv": S_ + "ffsp/env.py", "SMTWTPEnv": S_ + "smtwtp/env.py",
    "FLPEnv": G_ + "flp/env.py", "MCPEnv": G_ + "mcp/env.py", "DPPEnv": E_ + "dpp/env.py", "MDPPEnv": E_ + "mdpp/env.py",
})

# how the padding action (depot / no-op) is guaranteed to stay open:
#  'no-customer-open' : under "no non-padding column is open" the padding column is open
#  'done'             : under done=True some column is open (value of `done` as stored by _step / read by the mask)
#  'always'           : the padding column is unconditionally open
#  'all-visited'      : under "no unvisited customer exists" the padding column is open
PADDING = {
    "CVRPEnv": ("mask", "no-customer-open", ()),
    "CVRPTWEnv": ("mask", "no-customer-open", ("time-window",)),
    "SDVRPEnv": ("mask", "no-customer-open", ()),
    "SVRPEnv": ("mask", "no-customer-open", ()),
    "MTVRPEnv": ("mask", "no-customer-open", ()),
    "OPEnv": ("mask", "always", ()),
    "PCTSPEnv": ("mask", "all-visited", ()),
    "SPCTSPEnv": ("mask", "all-visited", ()),
    "MTSPEnv": ("step", "done", ()),
    "MDCPDPEnv": ("step", "done", ()),
    "FJSPEnv": ("mask", "done", ()),
    "JSSPEnv": ("mask", "done", ()),
}
PADDING_WHY = {
    "CVRPTWEnv": "the time-window filter also applies to the depot column; at the depot current_time is reset to 0 (C01.e), so the depot "
                 "is blocked by it only on instances whose depot window is violated by the instance data itself (generator precondition)",
}

# completion computed from the *updated* value of this key (set-completion envs)
DONE_FROM = {
    "TSPEnv": "action_mask", "ATSPEnv": "action_mask", "PDPEnv": "available", "MTSPEnv": "action_mask", "MDCPDPEnv": "available",
    "CVRPEnv": "visited", "CVRPTWEnv": "visited", "SVRPEnv": "visited", "MTVRPEnv": "visited", "SDVRPEnv": "demand_with_depot",
    "SMTWTPEnv": "action_mask", "FFSPEnv": "job_location", "FJSPEnv": "job_done", "JSSPEnv": "job_done",
}
# completion = "returned to the depot after the first move": depends on action and on the pre-increment counter
DONE_RETURN = {"OPEnv": "i", "PCTSPEnv": "i", "SPCTSPEnv": "i"}
# completion = quota reached on the pre-increment counter (shared with C08)
DONE_QUOTA = {"FLPEnv": ("i", {"to_choose"}), "MCPEnv": ("i", {"n_sets_to_choose"}), "DPPEnv": ("i", set()), "MDPPEnv": ("i", set())}

# ------------------------------------------------------------------------------------------
# C01.h -- direction of the state updates (monotonicity signature): +1 the new value grows with
# the cell, -1 it shrinks, both = enters on both sides (e.g. through min(demand, cap - used)).
# '|dist|' stands for a travelled distance (get_distance / norm), an opaque non-negative quantity.
P, N, PN = {1}, {-1}, {-1, 1}
UPDATE_SIGN = {
    "CVRPEnv": {"used_capacity": {"used_capacity": P, "demand": P}},
    "CVRPTWEnv": {"used_capacity": {"used_capacity": P, "demand": P},
                  "current_time": {"current_time": P, "distances": P, "time_windows": P, "durations": P}},
    "SDVRPEnv": {"used_capacity": {"used_capacity": PN, "demand_with_depot": P, "vehicle_capacity": P},
                 "demand_with_depot": {"demand_with_depot": PN, "used_capacity": P, "vehicle_capacity": N}},
    "SVRPEnv": {"current_tech": {"current_tech": P}},
    "OPEnv": {"tour_length": {"tour_length": P, "|dist|": P}, "current_total_prize": {"current_total_prize": P, "prize": P}},
    "PCTSPEnv": {"cur_total_prize": {"cur_total_prize": P, "real_prize": P}},
    "MTSPEnv": {"current_length": {"current_length": P, "|dist|": P}, "agent_idx": {"agent_idx": P}},
    "MDCPDPEnv": {"current_length": {"current_length": P, "|dist|": P}, "current_carry": {"current_carry": P}},
    "MTVRPEnv": {"current_time": {"current_time": P, "|dist|": P, "speed": N, "time_windows": P, "service_time": P},
                 "current_route_length": {"current_route_length": P, "|dist|": P},
                 "used_capacity_linehaul": {"used_capacity_linehaul": P, "demand_linehaul": P},
                 "used_capacity_backhaul": {"used_capacity_backhaul": P, "demand_backhaul": P}},
}
UPDATE_SIGN["SPCTSPEnv"] = UPDATE_SIGN["PCTSPEnv"]

# ------------------------------------------------------------------------------------------
# C06.g -- instance-data sanity assertions a checker may make (admit form).  Any other
# conjunctive assertion must instantiate a constraint of the env's CHECK row.
SANITY = [
    Lit("distances-nonneg", "cmp", big={"locs"}, small=set(), strict=False, const=0),
    Lit("time-windows-nonneg", "cmp", big={"time_windows"}, small=set(), strict=False, const=0),
    Lit("durations-nonneg", "cmp", big={"durations"}, small=set(), strict=False, const=0),
    Lit("service-time-nonneg", "cmp", big={"service_time"}, small=set(), strict=False, const=0),
    Lit("distance-limit-nonneg", "cmp", big={"distance_limit"}, small=set(), strict=False, const=0),
    Lit("window-ordered", "cmp", big={"time_windows"}, small={"time_windows"}, strict=True, const=0),
    Lit("can-return-to-depot", "cmp", big={"time_windows"}, small={"time_windows", "locs"}, strict=False, const=0),
]
SANITY[-1].extra_small = {"durations", "service_time", "speed"}


# number of travelled legs in a length constraint (the return leg of OP is already inside max_length, see _reset)
_legs("OPEnv", "length", 1)
