"""Reference rows for the routing environments.

Written from the problem definitions in the property statements (C01/C02/C05/C06), in each
environment's state vocabulary (TensorDict keys are the environments' public observation
API).  These tables are the oracle; the repository source is what is checked against them.
All comparison literals are in *admit form*: `big - small >= 0` (or `> 0` when `strict`).
"""
from ..envs import Lit

R = "rl4co/envs/routing/"

# class name -> (file, mask family)
ENVS = {
    "TSPEnv": (R + "tsp/env.py", "incremental"),
    "ATSPEnv": (R + "atsp/env.py", "incremental"),
    "CVRPEnv": (R + "cvrp/env.py", "recompute"),
    "CVRPTWEnv": (R + "cvrptw/env.py", "recompute"),
    "SDVRPEnv": (R + "sdvrp/env.py", "recompute"),
    "SVRPEnv": (R + "svrp/env.py", "recompute"),
    "OPEnv": (R + "op/env.py", "recompute"),
    "PCTSPEnv": (R + "pctsp/env.py", "recompute"),
    "SPCTSPEnv": (R + "spctsp/env.py", "recompute"),
    "PDPEnv": (R + "pdp/env.py", "incremental"),
    "MTSPEnv": (R + "mtsp/env.py", "incremental"),
    "MDCPDPEnv": (R + "mdcpdp/env.py", "incremental"),
    "MTVRPEnv": (R + "mtvrp/env.py", "recompute"),
}

# cells that hold 0/1 indicator tensors (so `cell == 0` is a negation)
BOOL_CELLS = {"visited", "available", "to_deliver", "action_mask", "open_route", "done"}

_cvrp = [
    Lit("unvisited", "cell", key="visited", sign=-1, why="customers are visited exactly once"),
    Lit("capacity", "cmp", big={"vehicle_capacity"}, small={"demand", "used_capacity"}, strict=False, const=0,
        why="load never above capacity; a load exactly filling the vehicle is allowed"),
    Lit("depot-after-depot", "eq", cells={"current_node"}, conj=False, why="documented pruning: no depot->depot while customers are servable"),
]

MASK = {
    "CVRPEnv": _cvrp,
    "CVRPTWEnv": _cvrp + [
        Lit("time-window", "cmp", big={"time_windows"}, small={"current_time", "locs", "current_node"}, strict=False, const=0,
            why="service may start up to and including the end of the window"),
    ],
    "SDVRPEnv": [
        Lit("demand-left", "eq", cells={"demand_with_depot"}, op="!=0", why="only customers with remaining demand"),
        Lit("room-left", "cmp", big={"vehicle_capacity"}, small={"used_capacity"}, strict=True, const=0,
            why="a full vehicle cannot deliver anything"),
        Lit("depot-after-depot", "eq", cells={"current_node"}, conj=False),
    ],
    "SVRPEnv": [
        Lit("unvisited", "cell", key="visited", sign=-1),
        Lit("skill", "cmp", big={"techs", "current_tech"}, small={"skills"}, strict=False, const=0,
            why="technician skill greater than or equal to the required skill"),
        Lit("depot-after-depot", "eq", cells={"current_node"}, conj=False),
        Lit("last-technician", "eq", cells={"current_tech"}, conj=False),
    ],
    "OPEnv": [
        Lit("unvisited", "cell", key="visited", sign=-1),
        Lit("length", "cmp", big={"max_length"}, small={"tour_length", "locs", "current_node"}, strict=False, const=0,
            why="tour length incl. return within the limit (max_length already has the return leg and the documented 1e-6 margin subtracted in _reset)"),
    ],
    "PCTSPEnv": [
        Lit("unvisited", "cell", key="visited", sign=-1),
        Lit("min-prize", "cmp", big={"cur_total_prize"}, small=set(), strict=False, conj=False, const=-1,
            why="the depot opens exactly when the collected prize reaches the requirement (1 after normalisation)"),
    ],
    "MTVRPEnv": [
        Lit("unvisited", "cell", key="visited", sign=-1),
        Lit("tw-customer", "cmp", big={"time_windows"}, small={"current_time", "locs", "current_node", "speed"}, strict=False, const=0,
            why="closed time window [e_i, l_i]: arriving exactly at l_i is feasible"),
        Lit("tw-depot-return", "cmp", big={"time_windows"}, small={"current_time", "locs", "current_node", "speed", "service_time", "open_route"},
            strict=False, const=0, why="closed routes must be able to return by the depot deadline (inclusive)"),
        Lit("distance-limit", "cmp", big={"distance_limit"}, small={"current_route_length", "locs", "current_node", "open_route"}, strict=False, const=0,
            why="route length (incl. return if closed) within the limit, equality allowed"),
        Lit("cap-linehaul", "cmp", big={"vehicle_capacity"}, small={"demand_linehaul", "used_capacity_linehaul"}, strict=False, conj=False, const=0,
            conj_with="is-linehaul"),
        Lit("cap-backhaul", "cmp", big={"vehicle_capacity"}, small={"demand_backhaul", "used_capacity_backhaul"}, strict=False, conj=False, const=0,
            conj_with="is-backhaul"),
        Lit("is-linehaul", "cmp", big={"demand_linehaul"}, small=set(), strict=True, conj=False, const=0),
        Lit("is-backhaul", "cmp", big={"demand_backhaul"}, small=set(), strict=True, conj=False, const=0),
        Lit("no-linehaul-after-backhaul", "cmp", big=set(), small={"demand_backhaul", "current_node"}, strict=False, conj=False, const=0,
            conj_with="is-linehaul", why="linehauls before backhauls: not carrying backhaul when delivering"),
        Lit("depot-after-depot", "eq", cells={"current_node"}, conj=False),
    ],
    # incremental family: literals of the `action_mask` value written by `_step`
    "TSPEnv": [
        Lit("still-available", "cell", key="action_mask", sign=+1, why="mask only shrinks"),
        Lit("chosen-removed", "sel", cells={"action"}, sign=-1, why="the chosen node is closed"),
    ],
    "PDPEnv": [
        Lit("still-available", "cell", key="available", sign=+1),
        Lit("chosen-removed", "sel", cells={"action"}, sign=-1),
        Lit("deliverable", "cell", key="to_deliver", sign=+1, conj=False, why="delivery offered only after its pickup"),
        Lit("delivery-unlocked", "sel", cells={"action"}, sign=+1, conj=False),
    ],
    "MTSPEnv": [
        Lit("still-available", "cell", key="action_mask", sign=+1),
        Lit("chosen-removed", "sel", cells={"action"}, sign=-1),
        Lit("agents-left", "cmp", big={"num_agents"}, small={"agent_idx"}, strict=True, conj=False, const=-1,
            why="the depot is offered only while another agent remains"),
    ],
    "MDCPDPEnv": [
        Lit("still-available", "cell", key="available", sign=+1, conj=False),
        Lit("chosen-removed", "sel", cells={"action"}, sign=-1, conj=False),
        Lit("deliverable", "cell", key="to_deliver", sign=+1, conj=False),
        Lit("carry-capacity", "cmp", big={"capacity"}, small={"current_carry"}, strict=True, conj=False, const=0,
            why="no pickup when the integer carry has reached the capacity"),
        Lit("no-depot-while-carrying", "cmp", big=set(), small={"current_carry"}, strict=False, conj=False, const=0),
    ],
}
MASK["SPCTSPEnv"] = MASK["PCTSPEnv"]
MASK["ATSPEnv"] = MASK["TSPEnv"]

# C01.c -- state updates: key -> cells the new value must depend on (by value)
UPDATE = {
    "TSPEnv": {"action_mask": {"action_mask", "action"}, "current_node": {"action"}},
    "ATSPEnv": {"action_mask": {"action_mask", "action"}, "current_node": {"action"}},
    "CVRPEnv": {"used_capacity": {"used_capacity", "demand", "action"}, "visited": {"visited", "action"}, "current_node": {"action"}},
    "CVRPTWEnv": {"used_capacity": {"used_capacity", "demand", "action"}, "visited": {"visited", "action"}, "current_node": {"action"},
                  "current_time": {"current_time", "distances", "time_windows", "durations", "action"}},
    "SDVRPEnv": {"used_capacity": {"used_capacity", "demand_with_depot", "vehicle_capacity", "action"},
                 "demand_with_depot": {"demand_with_depot", "vehicle_capacity", "used_capacity", "action"}, "current_node": {"action"}},
    "SVRPEnv": {"current_tech": {"current_tech", "action"}, "visited": {"visited", "action"}, "current_node": {"action"}},
    "OPEnv": {"tour_length": {"tour_length", "locs", "current_node", "action"}, "visited": {"visited", "action"}, "current_node": {"action"}},
    "PCTSPEnv": {"cur_total_prize": {"cur_total_prize", "real_prize", "action"}, "visited": {"visited", "action"}, "current_node": {"action"}},
    "PDPEnv": {"available": {"available", "action"}, "to_deliver": {"to_deliver", "action"}, "current_node": {"action"}},
    "MTSPEnv": {"agent_idx": {"agent_idx", "action"}, "action_mask": {"action_mask", "action", "agent_idx", "num_agents"}, "current_node": {"action"}},
    "MDCPDPEnv": {"available": {"available", "action"}, "to_deliver": {"to_deliver", "action"}, "current_carry": {"current_carry", "action"},
                  "current_depot": {"current_depot", "action", "available"}, "current_node": {"action"}},
    "MTVRPEnv": {"current_time": {"current_time", "locs", "current_node", "action", "speed", "time_windows", "service_time"},
                 "current_route_length": {"current_route_length", "locs", "current_node", "action"},
                 "used_capacity_linehaul": {"used_capacity_linehaul", "demand_linehaul", "action"},
                 "used_capacity_backhaul": {"used_capacity_backhaul", "demand_backhaul", "action"},
                 "visited": {"visited", "action"}, "current_node": {"action"}},
}
UPDATE["SPCTSPEnv"] = UPDATE["PCTSPEnv"]

# monotone indicator cells: key -> 'up' (entries only switch on) | 'down' (only switch off)
MONOTONE = {
    "TSPEnv": {"action_mask": "down"}, "ATSPEnv": {"action_mask": "down"},
    "CVRPEnv": {"visited": "up"}, "CVRPTWEnv": {"visited": "up"}, "SVRPEnv": {"visited": "up"},
    "OPEnv": {"visited": "up"}, "PCTSPEnv": {"visited": "up"}, "SPCTSPEnv": {"visited": "up"}, "MTVRPEnv": {"visited": "up"},
    "PDPEnv": {"available": "down", "to_deliver": "up"}, "MDCPDPEnv": {"available": "down", "to_deliver": "up"},
}

# C01.e -- per-route accumulators that restart at the depot
ACCUMULATORS = {
    "CVRPEnv": ["used_capacity"], "CVRPTWEnv": ["used_capacity", "current_time"], "SDVRPEnv": ["used_capacity"],
    "MTVRPEnv": ["current_time", "current_route_length", "used_capacity_linehaul", "used_capacity_backhaul"],
}
