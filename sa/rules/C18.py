"""C18 -- generators emit well-formed instances: *construction and key clauses only*.

Value ranges and solvability of sampled instances quantify over random draws and are NOT
decided.  Decided:

C18.a  every configuration path can construct its instance: attribute resolution over the
       Generator hierarchy (MRO fully in-repo, no setattr) -- every `self.x` read in a generator
       method is assigned in some __init__/method of the class or a base, or is a class
       attribute / method / property
C18.b  every distribution name documented for get_sampler has a branch that returns a sampler
C18.c  key agreement: every key the env's _reset reads from the incoming TensorDict is produced by
       the default generator's _generate on every path (otherwise reset raises KeyError for
       generated instances)
"""
from __future__ import annotations

import ast
from fractions import Fraction
import re

from .. import nf, vg
from ..core import Ctx
from ..envs import EnvA, generator_slot, generator_class
from ..model import AnalysisError
from ..tables import routing as T

FLOOR = 160
EXPLANATION = (
    "Static attribute resolution over all Generator subclasses of rl4co/envs (C3 MRO in-repo; assignments in any method of the "
    "class or its bases, class attributes, methods, properties define an attribute; every self.<attr> load in a generator method "
    "must resolve), branch coverage of the documented get_sampler distribution names, and def-use agreement between the keys "
    "produced by each env's default generator (_generate value graph, all return paths) and the keys its _reset reads from the "
    "incoming TensorDict. Decides that every configuration path can build an instance with the keys reset needs. Value ranges "
    "(bounds, ordered windows, triangle inequality, eligibility) are decided only where a structural argument exists (bound lineage for the CVRPTW windows and the FJSP processing times, "
    "loop exhaustiveness for the ATSP closure, units for MTVRP); solvability in general is a statement about sampled values: NOT decided."
)
RULE = "one obligation per (generator class, attribute read) group, per documented distribution, per env key set"
UT = "rl4co/envs/common/utils.py"


def defined_attrs(repo, cls):
    out = set()
    dyn = False
    for c in repo.mro(cls):
        if isinstance(c, str):
            continue
        out |= set(c.methods) | set(c.class_attrs)
        for m in c.methods.values():
            for n in ast.walk(m.node):
                if isinstance(n, ast.Attribute) and isinstance(n.value, ast.Name) and n.value.id == "self" and isinstance(n.ctx, (ast.Store, ast.Del)):
                    out.add(n.attr)
                if isinstance(n, ast.Call) and isinstance(n.func, ast.Name) and n.func.id == "setattr":
                    dyn = True
                if isinstance(n, ast.Attribute) and isinstance(n.value, ast.Name) and n.value.id == "self" and n.attr == "__dict__":
                    dyn = True
    return out, dyn


def reads(cls):
    out = []
    for m in cls.methods.values():
        for n in ast.walk(m.node):
            if isinstance(n, ast.Attribute) and isinstance(n.value, ast.Name) and n.value.id == "self" and isinstance(n.ctx, ast.Load):
                out.append((n.attr, m, n.lineno))
    return out


def option_dispatch_by_equality(ctx: Ctx):
    """C18.l a documented string option (`prize_type`, `depot_mode`, `variant_preset`, the distribution name of get_sampler ...)
    selects its branch by EQUALITY: in every if / elif chain of the generator modules in which one subject is compared with string
    (or distribution-class) constants in two or more tests, each test is `==` / `in` / `is` -- one `!=` in such a chain sends
    every other value of the option into that branch (`prize_type != "const"` gives constant prizes for "unif" and "dist") while
    the value itself falls through to the next one.  A lone guard `if x != "a": raise` is not a chain and is not looked at."""
    mods = [mi for mi in sorted(ctx.repo.modules.values(), key=lambda m: m.relpath)
            if mi.relpath.startswith("rl4co/envs/") and (mi.relpath.endswith("generator.py") or mi.relpath.endswith("common/utils.py") or mi.relpath.endswith("common/distribution_utils.py"))]
    n_chain = 0

    def tests_of(ifnode):
        out, cur = [], ifnode
        while True:
            out.append(cur.test)
            if len(cur.orelse) == 1 and isinstance(cur.orelse[0], ast.If):
                cur = cur.orelse[0]
            else:
                return out

    for mi in mods:
        inner = set()
        for node in ast.walk(mi.tree):
            if not isinstance(node, ast.If) or id(node) in inner:
                continue
            tests = tests_of(node)
            cur = node
            while len(cur.orelse) == 1 and isinstance(cur.orelse[0], ast.If):
                cur = cur.orelse[0]
                inner.add(id(cur))
            cmps = {}
            for t in tests:
                for c in ast.walk(t):
                    if isinstance(c, ast.Compare) and len(c.ops) == 1 and isinstance(c.ops[0], (ast.Eq, ast.NotEq, ast.In, ast.NotIn, ast.Is, ast.IsNot)):
                        rhs, lhs = c.comparators[0], c.left
                        if isinstance(c.ops[0], (ast.Eq, ast.NotEq, ast.Is, ast.IsNot)) and ((isinstance(lhs, ast.Constant) and isinstance(lhs.value, str)) or (isinstance(lhs, ast.Name) and lhs.id[:1].isupper())) \
                                and not isinstance(rhs, ast.Constant):
                            rhs, lhs = lhs, rhs          # mirrored spelling: "const" == self.prize_type
                        const = (isinstance(rhs, ast.Constant) and isinstance(rhs.value, str)) or (isinstance(rhs, ast.Name) and rhs.id[:1].isupper()) or \
                            (isinstance(rhs, (ast.List, ast.Tuple, ast.Set)) and rhs.elts and all(isinstance(e, ast.Constant) and isinstance(e.value, str) for e in rhs.elts))
                        if const:
                            cmps.setdefault(ast.unparse(lhs), []).append(c)
            for subj, cs in cmps.items():
                if len(cs) < 2:
                    continue
                n_chain += 1
                bad = [c for c in cs if isinstance(c.ops[0], (ast.NotEq, ast.NotIn, ast.IsNot))]
                ctx.ob("C18.l", f"{mi.relpath}:{node.lineno}:{subj}:dispatch-by-equality", not bad, f"{mi.relpath}:{node.lineno}",
                       f"{len(cs)} tests of `{subj}` against constants, all by equality / membership" if not bad else
                       f"`{ast.unparse(bad[0])}` inside a dispatch chain over `{subj}`: every other value of the option takes this branch, the named one falls through",
                       construct=f"{mi.relpath}:{subj}:dispatch")
    if n_chain < 4:
        raise AnalysisError(f"C18.l: only {n_chain} option-dispatch chains found in the generator modules (6 confirmed by hand)")


def op_prizes(ctx: Ctx):
    """C18.v OP prizes lie in (0, 1] with the documented constructions (Fischetti et al. / Kool et al.): `const` all ones, `unif`
    (1 + U{0..99}) / 100, `dist` (1 + int(99 * d_i / max_j d_j)) / 100 with d the distance of the customer FROM THE DEPOT.  Decided on
    polynomial normal forms of the three alternatives of the stored `prize`: constant term 1/100, one further atom with
    coefficient 1/100 which is the integer draw / the truncated scaled distance; the distance is the norm of a DIFFERENCE of the
    depot and the customer coordinates.  (`1 - ...` puts prizes at or below zero; a norm of the sum is not a distance.)"""
    from fractions import Fraction
    from ..envs import EnvA, generator_slot
    from ..tables import routing as TR_
    env = EnvA(ctx.repo, TR_.ENVS["OPEnv"][0], "OPEnv")
    g, gsl = generator_slot(ctx.repo, env.cls)
    ctx.fn(gsl.fi)
    pz = gsl.fr.ret.cells.get("prize")
    if pz is None:
        raise AnalysisError("OPGenerator._generate: no `prize` entry")

    def alts(v):
        v0 = nf.strip(v)
        if v0.op in ("phi", "ifexp"):
            return alts(v0.args[1]) + alts(v0.args[2])
        return [v0]
    av = alts(pz)
    if len(av) != 3:
        raise AnalysisError(f"OPGenerator._generate: {len(av)} alternatives of `prize` (3 documented prize types)")
    seen = set()
    for v in av:
        p_ = nf.poly(v)
        terms = dict(p_.terms)
        c0 = terms.pop((), Fraction(0))
        kind, ok, why = "?", False, p_.show(3)[:120]
        if len(terms) == 1:
            (mono, cf), = terms.items()
            raw = nf.Poly.ATOMS[mono[0][0]] if len(mono) == 1 and mono[0][1] == 1 else None
            trunc = raw is not None and raw.op == "meth" and raw.args[1] in ("int", "long", "floor")
            atom = raw if trunc else (nf.strip(raw, True) if raw is not None else None)
            f_ = nf._fn(atom) if atom is not None else None
            if atom is not None and not trunc and f_ == "torch.ones" and c0 == 0 and cf == 1:
                kind, ok = "const", True
            elif atom is not None and not trunc and f_ == "torch.randint" and c0 == Fraction(1, 100) and cf == Fraction(1, 100):
                lohi = [a for a in atom.args[1:3]]
                kind, ok = "unif", len(lohi) == 2 and vg.is_const(lohi[0], 0) and vg.is_const(lohi[1], 100)
                why += f"; integer draw from [0, 100): {ok}"
            elif trunc and c0 == Fraction(1, 100) and cf == Fraction(1, 100):
                inner = nf.poly(atom.args[0])
                # 99 * d / max(d): one monomial, coefficient 99, a norm in the numerator and its max in the denominator
                norms = [n for n in vg.walk(atom.args[0]) if (n.op == "meth" and n.args[1] == "norm") or (nf._fn(n) or "") in ("torch.norm", "torch.linalg.norm")]
                diff_ok = False
                for n in norms:
                    src = nf.poly(n.args[0] if n.op == "meth" else n.args[1])
                    cfs = sorted(c for m_, c in src.terms.items() if m_)
                    diff_ok = diff_ok or (len(cfs) == 2 and cfs[0] == -1 and cfs[1] == 1 and src.const_term() == 0)
                has_max = any(n.op == "meth" and n.args[1] in ("max", "amax") for n in vg.walk(atom.args[0]))
                coef99 = len(inner.terms) == 1 and list(inner.terms.values())[0] == 99
                kind, ok = "dist", bool(norms) and diff_ok and has_max and coef99
                why += f"; truncated 99 * d / max d: coefficient {coef99}, max {has_max}, d = norm of (depot - customer): {diff_ok}"
        seen.add(kind)
        ctx.ob("C18.v", f"OPGenerator._generate:prize:{kind}", ok, gsl.fi.loc, f"prize = {why}" + ("" if ok else " -- not the documented construction: prizes leave (0, 1] or no longer follow the stated distribution"),
               construct=f"OPGenerator._generate:prize-form:{kind}")
    if seen != {"const", "unif", "dist"} and "?" not in seen:
        raise AnalysisError(f"OPGenerator._generate: prize alternatives recognised as {sorted(seen)}")


def mtvrp_backhaul_fraction(ctx: Ctx):
    """C18.y `backhaul_ratio` is documented as the fraction of BACKHAUL customers: the indicator multiplied into the backhaul demands
    is `U <= backhaul_ratio` (probability ratio) and the one multiplied into the linehaul demands its complement `U > backhaul_ratio`,
    U one and the same uniform draw -- so every customer is exactly one of the two.  Read off the stored `demand_backhaul` /
    `demand_linehaul` values; `~(U > r)` and `U <= r` are one literal after normalisation."""
    from ..envs import EnvA, generator_slot
    from ..tables import routing as TR_
    env = EnvA(ctx.repo, TR_.ENVS["MTVRPEnv"][0], "MTVRPEnv")
    g, gsl = generator_slot(ctx.repo, env.cls)
    ctx.fn(gsl.fi)
    r = nf.poly(vg.mk("selfattr", "backhaul_ratio"))
    draws = {}
    for key, want_op, sign in (("demand_backhaul", ">=0", +1), ("demand_linehaul", ">0", -1)):
        v = gsl.fr.ret.cells.get(key)
        if v is None:
            raise AnalysisError(f"MTVRPGenerator._generate: no `{key}` entry")
        lits, consumed = [], set()
        nodes = list(vg.walk(v))
        for x in nodes:
            if x.op in ("inv", "not") and isinstance(x.args[0], vg.S):
                c = nf.cmpnf(nf.strip(x.args[0], True))
                if c is not None and any(a.op == "selfattr" and a.args[0] == "backhaul_ratio" for a in c[0].atoms()):
                    lits.append(nf.cmpnf(nf.strip(x.args[0], True), negate=True))
                    consumed.add(nf.strip(x.args[0], True).id)
        for x in nodes:
            if x.id in consumed or x.op in ("inv", "not"):
                continue
            c = nf.cmpnf(x) if x.op in ("cmp", ">", "<", ">=", "<=") or nf._cmp_raw(x) is not None else None
            if c is not None and any(a.op == "selfattr" and a.args[0] == "backhaul_ratio" for a in c[0].atoms()):
                lits.append(c)
        ok, why = bool(lits), "no indicator built from backhaul_ratio"
        for P_, op_ in lits:
            # backhaul: r - U >= 0 ; linehaul: U - r > 0
            U_ = (r - P_) if sign > 0 else (P_ + r)
            ats = U_.atoms()
            isdraw = len(ats) == 1 and U_ == nf.Poly.atom(ats[0]) and nf._fn(nf.strip(ats[0], True)) in ("torch.rand", "torch.rand_like")
            ok = ok and op_ == want_op and isdraw
            if isdraw:
                draws.setdefault(key, set()).add(nf.strip(ats[0], True).id)
            why = f"{key} is kept where {P_.show(2)} {op_} (expected {'backhaul_ratio - U >= 0' if sign > 0 else 'U - backhaul_ratio > 0'}, U a torch.rand draw: {isdraw})"
        ctx.ob("C18.y", f"MTVRPGenerator:{key}:fraction", ok, gsl.fi.loc, why + ("" if ok else " -- the documented fraction of backhaul customers is not the one generated"),
               construct=f"MTVRPGenerator.generate_demands:{key}:indicator")
    same = draws.get("demand_backhaul") and draws.get("demand_backhaul") == draws.get("demand_linehaul")
    ctx.ob("C18.y", "MTVRPGenerator:linehaul-xor-backhaul", bool(same), gsl.fi.loc,
           "both indicators are built from one and the same uniform draw: every customer is exactly one of linehaul / backhaul" if same else
           "the two indicators use different draws: a customer can be both or neither", construct="MTVRPGenerator.generate_demands:one-draw")


def run(ctx: Ctx):
    option_dispatch_by_equality(ctx)
    op_prizes(ctx)
    mtvrp_backhaul_fraction(ctx)
    base = ctx.repo.get_class(UT, "Generator")
    gens = [c for c in ctx.repo.subclasses(base) if c.module.name.startswith("rl4co.envs")]
    if len(gens) < 18:
        raise AnalysisError(f"only {len(gens)} Generator subclasses found")
    for g in sorted(gens, key=lambda c: c.fq):
        ctx.repo.note(g.module)
        if not ctx.repo.mro_fully_in_repo(g):
            ctx.note(f"{g.name}: MRO not fully in-repo, attribute resolution skipped")
            continue
        defs, dyn = defined_attrs(ctx.repo, g)
        if dyn:
            ctx.note(f"{g.name}: dynamic attribute definition (setattr/__dict__), skipped")
            continue
        missing = {}
        for attr, m, ln in reads(g):
            if attr.startswith("__") or attr in defs:
                continue
            # guarded by hasattr / getattr default?
            missing.setdefault(attr, []).append((m, ln))
        for m in g.methods.values():
            ctx.fn(m)
        if missing:
            for attr, where in sorted(missing.items()):
                m, ln = where[0]
                ctx.ob("C18.a", f"{g.name}.{m.name}:self.{attr}", False, f"{g.module.relpath}:{ln}",
                       f"`self.{attr}` is read in {g.name}.{m.name} but no class in its MRO ({[c.name for c in ctx.repo.mro(g) if not isinstance(c, str)]}) ever assigns it: "
                       f"the configuration path that reaches this line raises AttributeError instead of producing an instance",
                       construct=f"{g.name}.{m.name}:undefined-attr:{attr}")
        else:
            ctx.ob("C18.a", f"{g.name}:attributes-resolve", True, g.module.relpath, f"{len(set(a for a, _, _ in reads(g)))} distinct self attributes read, all defined")
    # ---------------- get_sampler
    fi = ctx.repo.get_function(UT, "get_sampler")
    ctx.fn(fi)
    doc = ast.get_docstring(fi.node) or ""
    m = re.search(r"supporting\s+([^)]*)\)", doc.replace("\n", " "))
    names = [x.strip().strip(",").replace("and ", "") for x in (m.group(1).split(",") if m else [])]
    names = [n for n in (x.strip() for x in names) if n]
    if len(names) < 3:
        raise AnalysisError("get_sampler: documented distribution names not found in the docstring")
    branch_consts = set()
    for n in ast.walk(fi.node):
        if isinstance(n, ast.If):
            for c in ast.walk(n.test):
                if isinstance(c, ast.Constant) and isinstance(c.value, str):
                    if any(isinstance(b, ast.Return) for b in n.body):
                        branch_consts.add(c.value)
    for nm in names:
        ctx.ob("C18.b", f"get_sampler:{nm}", nm in branch_consts, fi.loc, f"documented distribution '{nm}' has a returning branch: {nm in branch_consts}", construct=f"get_sampler:branch:{nm}")
    # every sampler a generator builds from its documented range / distribution parameters is actually drawn from
    n_samplers = 0
    for g in sorted(gens, key=lambda c: c.fq):
        if not ctx.repo.mro_fully_in_repo(g):
            continue
        built = {}
        for c in ctx.repo.mro(g):
            if isinstance(c, str):
                continue
            ini = c.methods.get("__init__")
            if ini is None:
                continue
            for n in ast.walk(ini.node):
                if isinstance(n, ast.Assign) and len(n.targets) == 1 and isinstance(n.targets[0], ast.Attribute) and isinstance(n.targets[0].value, ast.Name) \
                        and n.targets[0].value.id == "self" and isinstance(n.value, ast.Call) and getattr(n.value.func, "id", "") == "get_sampler":
                    built.setdefault(n.targets[0].attr, (c, n.lineno))
        if not built:
            continue
        used = set()
        for c in ctx.repo.mro(g):
            if isinstance(c, str):
                continue
            for m in c.methods.values():
                if m.name == "__init__":
                    continue
                for n in ast.walk(m.node):
                    if isinstance(n, ast.Attribute) and isinstance(n.ctx, ast.Load) and isinstance(n.value, ast.Name) and n.value.id == "self":
                        used.add(n.attr)
        for attr, (c, ln) in sorted(built.items()):
            n_samplers += 1
            ok = attr in used
            ctx.ob("C18.b", f"{g.name}:self.{attr}:drawn-from", ok, f"{c.module.relpath}:{ln}",
                   f"self.{attr} (built from the documented range / distribution parameters) is sampled by a generating method" if ok else
                   f"self.{attr} is built by get_sampler(...) from the constructor's range / distribution parameters but no method of {g.name} ever reads it: "
                   "those documented parameters are silently ignored", construct=f"{g.name}:dead-sampler:{attr}")
    if n_samplers < 15:
        raise AnalysisError(f"only {n_samplers} get_sampler(...) attributes found in the generators")
    # constant samplers stay inside [low, high]: 'center' is the midpoint, 'corner' one of the bounds (AST: Uniform(low=e, high=e))
    lo_n, hi_n = fi.params()[2], fi.params()[3]
    seen_const = set()
    for n in ast.walk(fi.node):
        if not (isinstance(n, ast.If) and isinstance(n.test, ast.Compare) and len(n.test.comparators) == 1 and isinstance(n.test.ops[0], ast.Eq)):
            continue
        sides = [x.value for x in (n.test.left, n.test.comparators[0]) if isinstance(x, ast.Constant)]
        if len(sides) != 1 or sides[0] not in ("center", "corner"):
            continue
        which = sides[0]
        seen_const.add(which)
        from ..model import returned_exprs
        rets = [v for v in returned_exprs(fi.node, within=n.body) if isinstance(v, ast.Call)]
        ok, got = False, "?"
        if len(rets) == 1 and getattr(rets[0].func, "id", "") == "Uniform":
            kws = {k.arg: k.value for k in rets[0].keywords}
            a_, b_ = kws.get("low", rets[0].args[0] if rets[0].args else None), kws.get("high", rets[0].args[1] if len(rets[0].args) > 1 else None)
            if a_ is not None and b_ is not None and ast.dump(a_) == ast.dump(b_):
                got = ast.unparse(a_)
                # value as a polynomial in (low, high)
                try:
                    pv = _poly_of_expr(a_, lo_n, hi_n)
                except Exception:
                    pv = None
                if pv is not None:
                    if which == "center":
                        ok = pv == {lo_n: 0.5, hi_n: 0.5}
                    else:
                        ok = pv in ({lo_n: 1.0}, {hi_n: 1.0})
        ctx.ob("C18.b", f"get_sampler:{which}:inside-bounds", ok, fi.loc,
               f"'{which}' samples the constant {got}: " + ("the midpoint (low + high) / 2" if which == "center" else "one of the two bounds") + f" -- {ok}",
               construct=f"get_sampler:{which}:value")
    if seen_const != {"center", "corner"}:
        raise AnalysisError(f"get_sampler: constant-sampler branches not found ({sorted(seen_const)})")
    # ---------------- key agreement
    for cname, path in T.ALL_ENVS.items():
        env = EnvA(ctx.repo, path, cname)
        g, gsl = generator_slot(ctx.repo, env.cls)
        if gsl is None or gsl.td is None:
            ctx.note(f"{cname}: generator _generate not resolved to a TensorDict")
            continue
        ctx.fn(gsl.fi)
        if gsl.problems():
            raise AnalysisError(f"{g.name}._generate: unhandled constructs {gsl.problems()[:3]}")
        produced = set(k for k, v in gsl.td.cells.items())
        open_td = not gsl.td.closed
        rs = env.slot("_reset")
        ctx.fn(rs.fi)
        intd = None
        for t in rs.it.tds:
            if t.name == "td" and t.parent is None and not t.closed and getattr(t, "cloned_from", None) is None:
                intd = t
                break
        if intd is None:
            continue
        uids = {intd.uid} | {t.uid for t in rs.it.tds if getattr(t, "cloned_from", None) is intd}
        need = set()
        for uid, key, val, node in rs.fr.reads:
            if uid in uids and isinstance(val, vg.S) and val.op == "cell0" and key != "*":
                need.add(key)
        miss = need - produced
        ok = not miss or open_td
        ctx.ob("C18.c", f"{cname}:reset-keys<=generated-keys", ok, rs.where,
               f"_reset reads {sorted(need)}; {g.name}._generate produces {sorted(produced)}" + (f"; MISSING {sorted(miss)}" if miss else ""),
               construct=f"{cname}:generated-keys:{','.join(sorted(miss))}")
        ctx.sample({"env": cname, "generator": g.name, "generated_keys": sorted(produced), "reset_reads": sorted(need)})
    env_generator_attrs(ctx)


def env_generator_attrs(ctx: Ctx):
    """C18.d: every `self.generator.<attr>` (and `generator.<attr>` in _make_spec(generator)) an env
    reads is defined by its default generator class."""
    for cname, path in T.ALL_ENVS.items():
        env = EnvA(ctx.repo, path, cname)
        g = generator_class(ctx.repo, env.cls)
        if g is None or not ctx.repo.mro_fully_in_repo(g):
            continue
        defs, dyn = defined_attrs(ctx.repo, g)
        if dyn:
            continue
        missing = {}
        for c in ctx.repo.mro(env.cls):
            if isinstance(c, str) or c.name == "RL4COEnvBase":
                continue
            for m in c.methods.values():
                if ctx.repo.resolve_method(env.cls, m.name) is not m:
                    continue  # overridden
                for n in ast.walk(m.node):
                    if isinstance(n, ast.Attribute) and isinstance(n.ctx, ast.Load) and isinstance(n.value, ast.Attribute) and isinstance(n.value.value, ast.Name) \
                            and n.value.value.id == "self" and n.value.attr == "generator":
                        if n.attr not in defs:
                            # guarded by hasattr(self.generator, "x")?
                            src = ast.unparse(m.node)
                            if f"hasattr(self.generator, '{n.attr}')" in src:
                                continue
                            missing.setdefault(n.attr, (m, n.lineno))
        if missing:
            for attr, (m, ln) in sorted(missing.items()):
                ctx.ob("C18.d", f"{cname}.{m.name}:self.generator.{attr}", False, f"{m.module.relpath}:{ln}",
                       f"{cname} reads self.generator.{attr} but its default generator {g.name} never defines it", construct=f"{cname}:generator-attr:{attr}")
        else:
            ctx.ob("C18.d", f"{cname}:generator-attributes", True, path, f"all self.generator.<attr> reads are defined by {g.name}")
    atsp_triangle(ctx)
    integer_demands(ctx)
    mtvrp_integer_demands(ctx)
    cvrptw_windows(ctx)
    fjsp_eligibility(ctx)
    jssp_processing_times(ctx)
    shape_counts(ctx)
    job_op_ranges(ctx)
    mtvrp_demand_classes(ctx)
    mtvrp_preset_order(ctx)
    clustered_samplers(ctx)
    gaussian_mixture_centred_by_its_bounding_box(ctx)
    _base = ctx.repo.get_class(UT, "Generator")
    sampler_range_once(ctx, [c for c in ctx.repo.subclasses(_base) if c.module.name.startswith("rl4co.envs")])
    paired_count_even(ctx)
    feasibility_guards(ctx)
    mcp_membership_width(ctx)
    mtvrp_horizon_guard(ctx)
    mtvrp_windows_ordered(ctx)
    customer_rows_on_every_path(ctx)
    _gbase = ctx.repo.get_class(UT, "Generator")
    writes_reach_the_tensor(ctx, [c for c in ctx.repo.subclasses(_gbase) if c.module.name.startswith("rl4co.envs")])
    mtvrp_scaling_under_one_condition(ctx)
    # C18.f: MTVRP generator -- time windows / service times are times, built from distances through the speed
    from .. import units
    menv = EnvA(ctx.repo, T.ALL_ENVS["MTVRPEnv"], "MTVRPEnv")
    g_, gsl_ = generator_slot(ctx.repo, menv.cls)
    if gsl_ is None:
        raise AnalysisError("MTVRPGenerator._generate not analysable")
    ctx.fn(gsl_.fi)
    units.obligations(ctx, "C18.f", "MTVRPGenerator._generate", gsl_.it, gsl_.fr, gsl_.where, 15, declared_out=units.MTVRP_CELLS)


def writes_reach_the_tensor(ctx: Ctx, gens):
    """C18.t an indexed assignment in a generator writes into the tensor it names.  `a[i][j] = v` evaluates `a[i]` first: with a
    basic index (ints, slices) that is a view and the write lands in `a`; with an ADVANCED index (a boolean mask, an index
    tensor -- recognised as a comparison, an inversion or another subscript expression inside the index) it is a COPY, and the
    assignment silently changes nothing (a feature flag that was meant to be switched on stays off).  Every Subscript store /
    augmented store in the generator modules and rl4co/envs/common/utils.py."""
    mods = {g.module.relpath: g.module for g in gens}
    mods[UT] = ctx.repo.module_by_path(UT)
    n = 0
    for rel, mi in sorted(mods.items()):
        for st in ast.walk(mi.tree):
            tgs = st.targets if isinstance(st, ast.Assign) else ([st.target] if isinstance(st, ast.AugAssign) else [])
            for t in tgs:
                if not isinstance(t, ast.Subscript):
                    continue
                n += 1
                if not isinstance(t.value, ast.Subscript):
                    continue
                inner = t.value.slice
                parts = inner.elts if isinstance(inner, ast.Tuple) else [inner]
                def _tensor_valued(x):
                    # a comparison, an inversion, or a subscript that itself takes a slice (a sub-tensor); `idx[i]` may be a plain int
                    if isinstance(x, ast.Compare) or (isinstance(x, ast.UnaryOp) and isinstance(x.op, ast.Invert)):
                        return True
                    if isinstance(x, ast.Subscript):
                        sl_ = x.slice.elts if isinstance(x.slice, ast.Tuple) else [x.slice]
                        return any(isinstance(y, ast.Slice) for y in sl_)
                    return False
                adv = [ast.unparse(x)[:40] for x in parts if _tensor_valued(x)]
                if adv:
                    ctx.ob("C18.t", f"{rel}:{st.lineno}:write-reaches-the-tensor", False, f"{rel}:{st.lineno}",
                           f"`{ast.unparse(t)[:70]} = ...`: the inner index {adv[0]} is an advanced index, `{ast.unparse(t.value)[:50]}` is a copy and the assignment is lost",
                           construct=f"{rel}:chained-index-write:{ast.unparse(t.value.value)[:30]}")
    ctx.ob("C18.t", "generators:indexed-writes", True, UT, f"{n} indexed assignments in {len(mods)} generator modules read; none writes through an advanced-indexed temporary")
    if n < 20:
        raise AnalysisError(f"indexed assignments in generator modules lost: {n} < 20")


def mtvrp_scaling_under_one_condition(ctx: Ctx):
    """C18.u MTVRP: demands are divided by the capacity and the capacity by itself under ONE condition (`scale_demand`): a
    capacity normalised to 1 next to raw demands 1..9 makes every customer infeasible; raw capacity next to normalised demands
    removes the constraint.  The in-place divisions of demand_linehaul / demand_backhaul / vehicle_capacity in `_generate` sit
    under identical chains of enclosing conditions."""
    env = EnvA(ctx.repo, T.ALL_ENVS["MTVRPEnv"], "MTVRPEnv")
    g, gsl = generator_slot(ctx.repo, env.cls)
    fi = gsl.fi
    ctx.fn(fi)
    chains = {}

    # the capacity is the name divided by itself in place; the demands are the names divided by it (local names are not relied on)
    selfdiv = [st.target.id for st in ast.walk(fi.node) if isinstance(st, ast.AugAssign) and isinstance(st.op, ast.Div) and isinstance(st.target, ast.Name)
               and isinstance(st.value, ast.Name) and st.value.id == st.target.id]
    if len(set(selfdiv)) != 1:
        raise AnalysisError(f"MTVRPGenerator._generate: the in-place normalisation of the capacity (`c /= c`) was not found ({selfdiv})")
    cap = selfdiv[0]

    def go(body, conds):
        for st in body:
            if isinstance(st, ast.AugAssign) and isinstance(st.op, ast.Div) and isinstance(st.target, ast.Name) and isinstance(st.value, ast.Name) and st.value.id == cap:
                chains.setdefault("capacity" if st.target.id == cap else f"demand:{len([k for k in chains if k.startswith('demand')]) if st.target.id not in names_ else names_[st.target.id]}", []).append(tuple(conds))
                names_.setdefault(st.target.id, len(names_))
            if isinstance(st, ast.If):
                go(st.body, conds + [ast.unparse(st.test)])
                go(st.orelse, conds + ["not " + ast.unparse(st.test)])
            elif isinstance(st, (ast.For, ast.While, ast.With, ast.Try)):
                go(getattr(st, "body", []), conds)
    names_ = {}
    go(fi.node.body, [])
    if "capacity" not in chains or len(chains) < 3:
        raise AnalysisError(f"MTVRPGenerator._generate: in-place rescaling statements not found ({sorted(chains)})")
    vals = {k: sorted(set(v)) for k, v in chains.items()}
    ok = len({tuple(v) for v in vals.values()}) == 1 and all(len(v) == 1 and v[0] for v in vals.values())
    ctx.ob("C18.u", "MTVRPGenerator._generate:rescaling-under-one-condition", ok, fi.loc,
           f"conditions of the in-place divisions: { {k: [' and '.join(c) or 'unconditional' for c in v] for k, v in vals.items()} }", construct="MTVRPGenerator._generate:rescaling-conditions")


def gaussian_mixture_centred_by_its_bounding_box(ctx: Ctx):
    """C18.x Gaussian_Mixture._batch_normalize_and_center: after the instance has been scaled so that its widest axis spans
    exactly [0, 1] (c = (x - min) / widest range, every coordinate in [0, 1]), it is centred by its BOUNDING BOX: the value
    returned is  c + (1 - max_over_nodes(c)) / 2  (normal form  c + 1/2 - 1/2 * max(c, dim=1)), which keeps every coordinate in
    [max_c / 2 ... ] within [0, 1].  Centring the MEAN at 1/2 instead pushes the points of a skewed instance outside the unit
    square (the widest axis already uses the whole unit)."""
    cls = ctx.repo.get_class("rl4co/envs/common/distribution_utils.py", "Gaussian_Mixture")
    fi = cls.methods.get("_batch_normalize_and_center")
    if fi is None:
        raise AnalysisError("Gaussian_Mixture._batch_normalize_and_center not found")
    ctx.fn(fi)
    it = vg.Interp(ctx.repo, cls, inline_policy=lambda f, a: False)
    fr = it.run_function(fi)
    r = nf.strip(fr.ret) if isinstance(fr.ret, vg.S) else None
    ok, why = False, "returned value is not `c + shift`"
    if r is not None and r.op == "+" and len(r.args) == 2:
        for c_, sh in (r.args, r.args[::-1]):
            if not (isinstance(c_, vg.S) and isinstance(sh, vg.S)):
                continue
            ps = nf.poly(sh)
            ats = ps.atoms()
            if len(ats) != 1:
                continue
            m = nf.strip(ats[0])
            inner = m
            while inner.op in ("attr", "sub") and isinstance(inner.args[0], vg.S):
                inner = nf.strip(inner.args[0])
            is_max = inner.op == "meth" and inner.args[1] in ("max", "amax") and nf.axis_is(inner, 1) and nf.norm(inner.args[0]).id == nf.norm(c_).id
            half = ps == nf.Poly.const(Fraction(1, 2)) - nf.Poly.const(Fraction(1, 2)) * nf.Poly.atom(ats[0])
            if is_max:
                ok = bool(half)
                why = f"shift = {ps.show(3)[:80]}: half the slack of the bounding box along the node axis -- {ok}"
    ctx.ob("C18.x", "Gaussian_Mixture._batch_normalize_and_center:centred-by-the-bounding-box", ok, fi.loc, why, construct="Gaussian_Mixture._batch_normalize_and_center:centring")


def jssp_processing_times(ctx: Ctx):
    """C18.w JSSP durations lie in the documented range [min_processing_time, max_processing_time]: the draw that feeds
    `proc_times` is `torch.randint(min_processing_time, max_processing_time + 1, ...)` (bounds compared in normal form), or --
    for any other construction -- both bounds are provable by bound lineage (sa/bounds.py).  `floor(rand * max) + min` agrees
    with the range only for min = 1 and reaches max + min - 1 otherwise."""
    from .. import bounds
    g = ctx.repo.get_class("rl4co/envs/scheduling/jssp/generator.py", "JSSPGenerator")
    fi = g.methods.get("_simulate_processing_times")
    if fi is None:
        raise AnalysisError("JSSPGenerator._simulate_processing_times not found")
    ctx.fn(fi)
    it = vg.Interp(ctx.repo, g, inline_policy=lambda f, a: False)
    fr = it.run_function(fi)
    ret = fr.ret if isinstance(fr.ret, vg.S) else None
    if ret is None:
        raise AnalysisError("JSSPGenerator._simulate_processing_times: return not resolved")
    MIN, MAX = vg.mk("selfattr", "min_processing_time"), vg.mk("selfattr", "max_processing_time")
    # the duration factor of `durations * eligibility indicator`: the factor that does not come from the one-hot machine assignment
    r0 = nf.strip(ret)
    while r0.op == "meth" and r0.args[1] in ("to", "float", "long", "int", "contiguous", "clone"):
        r0 = nf.strip(r0.args[0])
    factors = list(r0.args) if r0.op == "*" else [r0]
    dur = [f_ for f_ in factors if isinstance(f_, vg.S) and not any((nf._fn(x) or "").endswith("one_hot") for x in vg.walk(f_))]
    if len(dur) != 1:
        raise AnalysisError(f"JSSPGenerator._simulate_processing_times: duration factor not identified ({len(dur)} candidates)")
    ret = dur[0]
    draws = [n for n in vg.walk(ret) if nf._fn(n) == "torch.randint"]
    if draws:
        lo, hi = bounds.Prover._randint(draws[0])
        ok = lo is not None and hi is not None and nf.poly(lo) == nf.poly(MIN) and (nf.poly(hi) - nf.Poly.const(1) == nf.poly(MAX) or nf.poly(hi) == nf.poly(MAX)) and len(draws) == 1
        why = f"durations = randint({vg.show(lo, 2) if lo is not None else '?'}, {vg.show(hi, 2) if hi is not None else '?'}): inside [min, max] -- {ok}"
    else:
        def slack(u, a):
            if a is None and isinstance(u, vg.S) and u.op == "selfattr" and u.args[0] in ("min_processing_time", "max_processing_time"):
                return "processing-time bounds are non-negative"
            if isinstance(a, vg.S) and u is MAX and a is MIN:
                return "min_processing_time <= max_processing_time (configuration)"
            return None
        P1, P2 = bounds.Prover(slack), bounds.Prover(slack)
        ok = P2.le(ret, MAX)
        why = "no randint draw; upper bound max_processing_time by bound lineage: " + ("proved" if ok else "NOT provable (" + "; ".join(P2.trace[-1:]) + ")")
    ctx.ob("C18.w", "JSSPGenerator:processing-times-in-range", bool(ok), fi.loc, why, construct="JSSPGenerator._simulate_processing_times:range")


def job_span_forms(end, start):
    """-> (ok_end, cumsum node or None, pe, ok_start, why_start): end = cumsum(n_ops, 1) - 1 ; start = cat((zeros, end[:, :-1] + 1), 1)"""
    pe = nf.poly(end)
    cums = [a for a in pe.atoms() if (a.op == "meth" and a.args[1] == "cumsum") or nf._fn(a) == "torch.cumsum"]
    ok_end = len(cums) == 1 and pe == nf.Poly.atom(cums[0]) - nf.Poly.const(1) and nf.axis_is(cums[0], 1)
    st = nf.strip(start)
    ok_st, why = False, "start_op_per_job is not cat((zeros, end[:, :-1] + 1), 1)"
    if nf._fn(st) in ("torch.cat", "torch.concat") and nf.axis_is(st, 1):
        items = nf._seq_items(st.args[1])
        if items and len(items) == 2:
            z = nf.strip(items[0])
            zero = nf._fn(z) in ("torch.zeros", "torch.zeros_like")
            p1 = nf.poly(items[1])
            subs = [a for a in p1.atoms() if a.op == "sub"]
            shifted = False
            if len(subs) == 1 and p1 == nf.Poly.atom(subs[0]) + nf.Poly.const(1):
                sb = subs[0]
                idx = sb.args[1].args if sb.args[1].op == "tuple" else (sb.args[1],)
                last = idx[-1]
                drop_last = last.op == "slice" and vg.is_none(last.args[0]) and vg.is_const(last.args[1], -1) and vg.is_none(last.args[2]) and len(idx) == 2
                shifted = drop_last and nf.poly(sb.args[0]) == pe
            ok_st = zero and shifted
            why = f"start = cat((zeros: {zero}, end[:, :-1] + 1: {shifted}), 1)"
    return ok_end, (cums[0] if cums else None), pe, ok_st, why


def job_op_ranges(ctx: Ctx):
    """C18.k FJSP / JSSP: the operations of job j are the index range [start_j, end_j] with
    end = cumsum(n_ops) - 1, start_0 = 0, start_j = end_{j-1} + 1 and n_ops = randint(min_ops, max_ops + 1): consecutive,
    non-overlapping, covering exactly the sampled number of operations."""
    for cname in ("FJSPEnv", "JSSPEnv"):
        env = EnvA(ctx.repo, T.ALL_ENVS[cname], cname)
        g, gsl = generator_slot(ctx.repo, env.cls)
        if gsl is None or not isinstance(gsl.fr.ret, vg.TD):
            raise AnalysisError(f"{cname}: generator not analysable")
        ctx.fn(gsl.fi)
        end, start = gsl.fr.ret.cells.get("end_op_per_job"), gsl.fr.ret.cells.get("start_op_per_job")
        if end is None or start is None:
            raise AnalysisError(f"{cname}: start/end_op_per_job not generated")
        pe = nf.poly(end)
        cums = [a for a in pe.atoms() if (a.op == "meth" and a.args[1] == "cumsum") or nf._fn(a) == "torch.cumsum"]
        ok_end = len(cums) == 1 and pe == nf.Poly.atom(cums[0]) - nf.Poly.const(1) and nf.axis_is(cums[0], 1)
        n_ops = nf.strip(cums[0].args[0] if cums[0].op == "meth" else cums[0].args[1]) if cums else None
        ok_n = False
        if n_ops is not None and nf._fn(n_ops) == "torch.randint":
            from ..bounds import Prover
            lo, hi = Prover._randint(n_ops)
            ok_n = lo is not None and hi is not None and nf.poly(lo) == nf.poly(vg.mk("selfattr", "min_ops_per_job")) and nf.poly(hi) - nf.Poly.const(1) == nf.poly(vg.mk("selfattr", "max_ops_per_job"))
        ctx.ob("C18.k", f"{g.name}:end_op = cumsum(n_ops) - 1", ok_end and ok_n, gsl.where,
               f"end_op_per_job = {pe.show(2)} along the job axis: {ok_end}; n_ops = randint(min_ops_per_job, max_ops_per_job + 1): {ok_n}", construct=f"{g.name}._generate:end-op")
        st = nf.strip(start)
        ok_st, why = False, "start_op_per_job is not cat((zeros, end[:, :-1] + 1), 1)"
        if nf._fn(st) in ("torch.cat", "torch.concat") and nf.axis_is(st, 1):
            items = nf._seq_items(st.args[1])
            if items and len(items) == 2:
                z = nf.strip(items[0])
                zero = nf._fn(z) in ("torch.zeros", "torch.zeros_like")
                p1 = nf.poly(items[1])
                subs = [a for a in p1.atoms() if a.op == "sub"]
                shifted = False
                if len(subs) == 1 and p1 == nf.Poly.atom(subs[0]) + nf.Poly.const(1):
                    sb = subs[0]
                    idx = sb.args[1].args if sb.args[1].op == "tuple" else (sb.args[1],)
                    last = idx[-1]
                    drop_last = last.op == "slice" and vg.is_none(last.args[0]) and vg.is_const(last.args[1], -1) and vg.is_none(last.args[2]) and len(idx) == 2
                    shifted = drop_last and nf.poly(sb.args[0]) == pe
                ok_st = zero and shifted
                why = f"start = cat((zeros: {zero}, end[:, :-1] + 1: {shifted}), 1)"
        ctx.ob("C18.k", f"{g.name}:start_op = previous end + 1", ok_st, gsl.where, why, construct=f"{g.name}._generate:start-op")


def mtvrp_demand_classes(ctx: Ctx):
    """C18.k MTVRP: every customer is a linehaul or a backhaul, never both: the two demand vectors are masked by one indicator
    and its negation; the documented unscaled capacity is a copy taken before the in-place rescaling."""
    env = EnvA(ctx.repo, T.ALL_ENVS["MTVRPEnv"], "MTVRPEnv")
    g, gsl = generator_slot(ctx.repo, env.cls)
    if gsl is None or not isinstance(gsl.fr.ret, vg.TD):
        raise AnalysisError("MTVRPGenerator._generate not analysable")
    cells = gsl.fr.ret.cells

    def mask_of(v):
        """the boolean factor of the customer block of a demand vector, with its polarity"""
        out = []
        for n in vg.walk(v):
            if n.op == "*" and len(n.args) == 2:
                for x in n.args:
                    lv = nf.boolwalk(x, set())
                    if len(lv) == 1 and lv[0].cmp() is not None and any(nf._fn(a) in ("torch.rand", "torch.rand_like") for a in lv[0].cmp()[0].atoms()):
                        out.append(lv[0])
        return out
    ml, mb = mask_of(cells.get("demand_linehaul")), mask_of(cells.get("demand_backhaul"))
    ok, why = False, f"class indicators not found ({len(ml)}, {len(mb)})"
    if ml and mb:
        a, b = ml[0], mb[0]
        same_draw = a.node is b.node
        ok = same_draw and a.sign == -b.sign and a.sign != 0
        why = f"linehaul demand * [{'+' if a.sign > 0 else '-'}]({vg.show(a.node, 3)}), backhaul demand * [{'+' if b.sign > 0 else '-'}](same draw: {same_draw}): complementary: {ok}"
    ctx.ob("C18.k", "MTVRPGenerator:linehaul-xor-backhaul", ok, gsl.where, why, construct="MTVRPGenerator.generate_demands:complementary-classes")
    co = cells.get("capacity_original")
    okc = co is not None and not any(n.op in ("/", "*") for n in vg.walk(co)) and nf._fn(nf.strip(co)) in ("torch.full", "torch.full_like")
    ctx.ob("C18.k", "MTVRPGenerator:capacity_original-unscaled", okc, gsl.where,
           f"capacity_original = {vg.show(co, 3) if co is not None else None}: the plain constructor value (a copy taken before `vehicle_capacity /= vehicle_capacity`)",
           construct="MTVRPGenerator._generate:capacity-original")


def mtvrp_preset_order(ctx: Ctx):
    """C18.m MTVRP variant presets are dictionaries that `subsample_problems` reads BY POSITION
    (`list(self.variant_probs.values())`, column k of keep_mask -> the k-th `_default_<feature>` call).  Every preset (and the
    dictionary built from prob_open / prob_time_window / prob_limit / prob_backhaul) must list its keys in the order the
    consumer assumes; a reordered entry silently generates another variant than its name says."""
    path = "rl4co/envs/routing/mtvrp/generator.py"
    mi = ctx.repo.module_by_path(path)
    FEATURE = {"_default_open": "O", "_default_time_window": "TW", "_default_distance_limit": "L", "_default_backhaul": "B"}
    order = {}
    sub = None
    for n in ast.walk(mi.tree):
        if isinstance(n, ast.FunctionDef) and n.name == "subsample_problems":
            sub = n
    if sub is None:
        raise AnalysisError("MTVRPGenerator.subsample_problems not found")
    for c in ast.walk(sub):
        if isinstance(c, ast.Call) and isinstance(c.func, ast.Attribute) and c.func.attr in FEATURE and len(c.args) == 2:
            for x in ast.walk(c.args[1]):
                if isinstance(x, ast.Subscript) and isinstance(x.slice, ast.Tuple) and len(x.slice.elts) == 2 and isinstance(x.slice.elts[1], ast.Constant):
                    order[x.slice.elts[1].value] = FEATURE[c.func.attr]
    want = [order.get(k) for k in range(4)]
    if None in want or len(set(want)) != 4:
        raise AnalysisError(f"MTVRPGenerator.subsample_problems: positional consumer not understood ({order})")
    positional = any(isinstance(c, ast.Call) and getattr(c.func, "id", "") == "list" and c.args and isinstance(c.args[0], ast.Call)
                     and isinstance(c.args[0].func, ast.Attribute) and c.args[0].func.attr == "values" for c in ast.walk(sub))
    dicts = []
    for n in mi.tree.body:
        if isinstance(n, ast.Assign) and any(isinstance(t, ast.Name) and t.id == "VARIANT_GENERATION_PRESETS" for t in n.targets) and isinstance(n.value, ast.Dict):
            for k, v in zip(n.value.keys, n.value.values):
                if isinstance(v, ast.Dict) and isinstance(k, ast.Constant):
                    dicts.append((f"preset {k.value!r}", v))
    for n in ast.walk(mi.tree):
        if isinstance(n, ast.Assign) and any(isinstance(t, ast.Name) and t.id == "variant_probs" for t in n.targets) and isinstance(n.value, ast.Dict):
            dicts.append(("prob_* arguments", n.value))
    if len(dicts) < 10:
        raise AnalysisError(f"only {len(dicts)} variant-probability dictionaries found (floor 10)")
    bad = []
    for name, dnode in dicts:
        keys = [k.value if isinstance(k, ast.Constant) else None for k in dnode.keys]
        if keys[:4] != want:
            bad.append(f"{name}: keys {keys} (read as {want})")
    ok = not bad or not positional
    ctx.ob("C18.m", "MTVRPGenerator:variant-presets:key-order", ok, f"{path}:{sub.lineno}",
           f"{len(dicts)} probability dictionaries list their keys in the order {want} in which subsample_problems reads them by position" if ok else "; ".join(bad[:3]),
           construct="MTVRPGenerator:variant-presets:key-order")


def clustered_samplers(ctx: Ctx):
    """C18.m the clustered / mixed location samplers return coordinates confined to the unit square: the value they RETURN has
    passed through clamp(0, 1) (in place, or by using the result); a `coords.clamp(0, 1)` whose result is discarded confines
    nothing."""
    path = "rl4co/envs/common/distribution_utils.py"
    for cname in ("Cluster", "Mixed"):
        cls = ctx.repo.get_class(path, cname)
        fi = cls.methods.get("sample")
        if fi is None:
            raise AnalysisError(f"{cname}.sample not found")
        ctx.fn(fi)
        it = vg.Interp(ctx.repo, cls)
        fr = it.run_function(fi)
        r = fr.ret
        clamps = []
        if isinstance(r, vg.S):
            for n in vg.walk(r):
                if n.op == "meth" and n.args[1] in ("clamp", "clamp_", "clip", "clip_"):
                    clamps.append(n)
                elif nf._fn(n) in ("torch.clamp", "torch.clip"):
                    clamps.append(n)
        outer = nf.strip(r) if isinstance(r, vg.S) else None
        is_outer = outer is not None and any(outer is c for c in clamps)
        lohi = False
        if is_outer:
            from ..bounds import Prover
            x, lo, hi = Prover._clamp(outer)
            lohi = lo is not None and hi is not None and vg.is_const(lo, 0) and vg.is_const(hi, 1)
        ctx.ob("C18.m", f"{cname}.sample:confined-to-unit-square", bool(is_outer and lohi), fi.loc,
               "the returned coordinates are the result of clamp(0, 1)" if is_outer and lohi else
               f"the returned value {vg.show(r, 3)[:100] if isinstance(r, vg.S) else r} is not the result of a clamp to [0, 1] (a clamp whose result is discarded does not confine anything)",
               construct=f"{cname}.sample:clamp")


def shape_counts(ctx: Ctx):
    """C18.j counts that an env reads off a tensor's shape (`n = td[key].shape[-1]`) are resolved through `_reset` and the
    generator's `_generate` to the size the generator gives that axis.  An axis that the generator builds with the literal
    size 1 (`size=(*batch_size, 1)`) cannot carry a count: the env's `n` is then the constant 1 whatever the instance is,
    while the node layout it is compared with comes from the generator's configuration."""
    from .. import symshape
    # engine control: a literal construction must resolve
    probe = vg.mk("call", vg.mk("ext", "torch.randint"), vg.const(0), vg.const(5),
                  vg.mk("kw", "size", vg.mk("tuple", vg.mk("starred", vg.mk("param", "batch_size")), vg.const(1))))
    if symshape.SymShape([{}, {}]).dim(probe, -1) != nf.Poly.const(1):
        raise AnalysisError("symbolic shape engine: control construction randint(size=(*batch_size, 1)) does not resolve to 1")
    n_reads = n_res = 0
    for cname, path in T.ALL_ENVS.items():
        env = EnvA(ctx.repo, path, cname)
        g, gsl = generator_slot(ctx.repo, env.cls)
        rs = env.slot("_reset")
        if gsl is None or not isinstance(gsl.fr.ret, vg.TD) or rs is None or rs.td is None:
            continue
        SS = symshape.SymShape([rs.td.cells, gsl.fr.ret.cells])
        for meth in ("_step", "get_action_mask", "_get_reward", "check_solution_validity"):
            seen = set()
            try:
                sl = env.slot(meth)
            except AnalysisError:
                sl = None
            if sl is None:
                continue
            roots = []
            if sl.td is not None:
                roots += [v for v in sl.td.cells.values() if isinstance(v, vg.S)]
            if isinstance(sl.fr.ret, vg.S):
                roots.append(sl.fr.ret)
            for e in sl.it.events:
                if e.kind == "assert":
                    roots.append(e.data if isinstance(e.data, vg.S) else e.data[0])
            for r in roots:
                for n in vg.walk(r):
                    d = nf.dim_of(n)
                    if d is None or n.id in seen:
                        continue
                    seen.add(n.id)
                    base, k = d
                    if not isinstance(k, int) or k >= 0 or not vg.cells_of(base):
                        continue
                    n_reads += 1
                    v = SS.dim(base, k)
                    if v is None:
                        continue
                    n_res += 1
                    key = "+".join(sorted(vg.cells_of(base)))
                    ok = v != nf.Poly.const(1)
                    ctx.ob("C18.j", f"{cname}.{meth}:count-from-shape:{key}[{k}]", ok, sl.where,
                           f"{vg.show(n, 3)} resolves to {v.show(3)}" + ("" if ok else
                           f": the generator builds this axis with the literal size 1, so the count the env derives from it is 1 for every instance and configuration "
                           f"(via {'; '.join(SS.trace[-2:])})"), construct=f"{cname}.{meth}:shape-count:{key}[{k}]")
    ctx.extra["shape_counts"] = {"reads": n_reads, "resolved": n_res}
    if n_res < 8:
        raise AnalysisError(f"symbolic shape resolution covers only {n_res} of {n_reads} shape reads (floor 8)")


def _ctor_default(cls_node, name):
    """default value (python constant) of constructor parameter `name`, or (None, annotation)"""
    for n in cls_node.body:
        if isinstance(n, ast.FunctionDef) and n.name == "__init__":
            args = n.args.args
            defaults = [None] * (len(args) - len(n.args.defaults)) + list(n.args.defaults)
            for a, d in zip(args, defaults):
                if a.arg == name:
                    ann = ast.unparse(a.annotation) if a.annotation is not None else None
                    return (d.value if isinstance(d, ast.Constant) else None), ann
    return None, None


def fjsp_eligibility(ctx: Ctx):
    """C18.i FJSP: every real operation is eligible on between min_eligible and max_eligible machines (at least one), with a
    processing time inside [min_processing_time, max_processing_time] there and 0 elsewhere:
      proc_times = T * E;  E = shuffle_along_machines(arange(1 .. num_mas) <= n_eligible[..., None]);
      n_eligible = randint(min_eligible, max_eligible + 1) with padded operations set to 0;
      T by bound lineage in both sampling modes, incl. positivity of the modulus used to shift the residue."""
    from .. import bounds
    env = EnvA(ctx.repo, T.ALL_ENVS["FJSPEnv"], "FJSPEnv")
    g, gsl = generator_slot(ctx.repo, env.cls)
    if gsl is None or not isinstance(gsl.fr.ret, vg.TD) or gsl.problems():
        raise AnalysisError("FJSPGenerator._generate not analysable")
    ctx.fn(gsl.fi)
    where = gsl.where
    pt = nf.strip(gsl.fr.ret.cells.get("proc_times"))
    if pt is None or pt.op != "*" or len(pt.args) != 2:
        raise AnalysisError("FJSPGenerator: proc_times is not times * eligibility")

    def shape_only(z):
        return (z.op == "attr" and z.args[1] == "shape") or (z.op == "meth" and z.args[1] == "size") or (z.op == "kw" and z.args[0] == "size")

    def has_cmp(n):
        return any(nf._cmp_raw(x) is not None for x in vg.walk(n, stop=shape_only) if not shape_only(x))

    Tm, E = pt.args
    if has_cmp(Tm) and not has_cmp(E):
        Tm, E = E, Tm
    if not has_cmp(E) or has_cmp(Tm):
        raise AnalysisError("FJSPGenerator: cannot tell the eligibility factor from the processing-time factor")
    # ---- eligibility indicator
    cmps = [x for x in vg.walk(E, stop=lambda z: shape_only(z) or z.op == "store") if nf._cmp_raw(x) is not None and not shape_only(x) and x.op != "store"]
    n_el = None
    ok_cnt, why_cnt = False, f"expected one comparison arange(...) <= n_eligible, found {len(cmps)}"
    if len({c.id for c in cmps}) == 1:
        l, op, r = nf._cmp_raw(cmps[0])
        # orient: counter OP n_eligible
        def is_arange(x):
            return any(nf._fn(y) == "torch.arange" for y in vg.walk(x, stop=lambda z: z.op == "store"))
        if is_arange(r) and not is_arange(l):
            l, r = r, l
            op = {"<": ">", "<=": ">=", ">": "<", ">=": "<=", "==": "==", "!=": "!="}[op]
        ar = [y for y in vg.walk(l, stop=lambda z: z.op == "store") if nf._fn(y) == "torch.arange"]
        if len(ar) == 1 and op in ("<=", "<"):
            a = ar[0]
            pos = [x for x in a.args[1:] if not (isinstance(x, vg.S) and x.op == "kw")]
            start, end = (pos[0], pos[1]) if len(pos) >= 2 else (vg.mk("const", 0), pos[0])
            first = nf.poly(start)
            length = nf.poly(end) - nf.poly(start)
            want_first = 1 if op == "<=" else 0
            ok_cnt = first == nf.Poly.const(want_first) and length == nf.poly(vg.mk("selfattr", "num_mas"))
            why_cnt = (f"indicator `{vg.show(start)}..{vg.show(end)} {op} n_eligible`: the row of an operation holds exactly n_eligible ones "
                       f"iff the counter starts at {want_first} and has num_mas entries: {ok_cnt}")
            n_el = r
        else:
            why_cnt = f"eligibility comparison `{vg.show(cmps[0], 3)}` is not counter <= n_eligible"
    ctx.ob("C18.i", "FJSPGenerator:eligible-count", ok_cnt, where, why_cnt, construct="FJSPGenerator._simulate_processing_times:eligible-count")
    # shuffle: a permutation along the machine axis (the counter's axis)
    gathers = [x for x in vg.walk(E) if x.op == "meth" and x.args[1] == "gather"]
    ok_sh, why_sh = False, "the unshuffled indicator is not permuted by gather(axis, rand.argsort())"
    if len(gathers) == 1:
        gt = gathers[0]
        ax = nf.axis_arg(gt)
        idx = [x for x in gt.args[2:] if isinstance(x, vg.S) and x.op != "kw" and x is not ax]
        idx = idx[0] if idx else None
        srt = nf.strip(idx) if idx is not None else None
        if srt is not None and srt.op == "meth" and srt.args[1] == "argsort":
            sax = nf.axis_arg(srt)
            sax_v = sax.args[0] if isinstance(sax, vg.S) and sax.op == "const" else (-1 if sax is None else None)
            gax_v = ax.args[0] if isinstance(ax, vg.S) and ax.op == "const" else None
            rnd = nf.strip(srt.args[0])
            random_keys = nf._fn(rnd) in ("torch.rand_like", "torch.rand", "torch.randn_like")
            same_shape = nf._fn(rnd) != "torch.rand_like" or nf.strip(rnd.args[1]) is nf.strip(gt.args[0])
            ok_sh = gax_v in (2, -1) and sax_v in (2, -1) and random_keys and same_shape
            why_sh = f"gather(axis {gax_v}, argsort(axis {sax_v}) of random keys of the same shape): a permutation of each operation's machine row keeps its number of ones: {ok_sh}"
    ctx.ob("C18.i", "FJSPGenerator:shuffle-is-a-row-permutation", ok_sh, where, why_sh, construct="FJSPGenerator._simulate_processing_times:shuffle")
    # n_eligible = randint(min_el, max_el + 1) with padded ops zeroed
    ok_ne, why_ne = False, "n_eligible not identified"
    if n_el is not None:
        st = nf.strip(n_el)
        base = st.args[0] if st.op == "store" else st
        zero_pad = st.op == "store" and vg.is_const(st.args[2], 0) and any(x.op == "meth" and x.args[1] == "ge" or nf._cmp_raw(x) is not None for x in vg.walk(st.args[1]))
        if nf._fn(nf.strip(base)) == "torch.randint":
            lo, hi = bounds.Prover._randint(nf.strip(base))
            ok_lo = lo is not None and nf.poly(lo) == nf.poly(vg.mk("selfattr", "min_eligible_ma_per_op"))
            ok_hi = hi is not None and nf.poly(hi) - nf.Poly.const(1) == nf.poly(vg.mk("selfattr", "max_eligible_ma_per_op"))
            dflt, ann = _ctor_default(g.node, "min_eligible_ma_per_op")
            ok_ne = ok_lo and ok_hi and zero_pad and isinstance(dflt, int) and dflt >= 1
            why_ne = (f"n_eligible = randint(min_eligible: {ok_lo}, max_eligible + 1: {ok_hi}), padded operations zeroed: {zero_pad}, "
                      f"default min_eligible_ma_per_op = {dflt} >= 1")
    ctx.ob("C18.i", "FJSPGenerator:n-eligible-range", ok_ne, where, why_ne, construct="FJSPGenerator._generate:n-eligible")
    # ---- processing times by lineage
    MIN, MAX = vg.mk("selfattr", "min_processing_time"), vg.mk("selfattr", "max_processing_time")
    dmin, amin = _ctor_default(g.node, "min_processing_time")
    dmax, amax = _ctor_default(g.node, "max_processing_time")
    mods = [n for n in vg.walk(Tm) if n.op == "%"]
    mod_ids = {nf.strip(m.args[1]).id for m in mods}
    mod_ok = {}

    def slack(u, a):
        if a is None and isinstance(u, vg.S) and u.op == "selfattr" and u.args[0] in ("min_processing_time", "max_processing_time"):
            return "min_processing_time, max_processing_time >= 0 (defaults %s, %s)" % (dmin, dmax) if isinstance(dmin, int) and dmin >= 0 else None
        if a == "int" and isinstance(u, vg.S) and u.op == "selfattr":
            return "processing-time bounds are integers (constructor annotation int)" if amin == "int" and amax == "int" else None
        if a is None and isinstance(u, vg.S) and u.id in mod_ids:
            return "modulus positive (proved separately below)" if mod_ok.get(u.id) else None
        if isinstance(a, vg.S) and u is MAX and a is MIN:
            return "min_processing_time <= max_processing_time (configuration)"
        return None

    for m in mods:
        mm = nf.strip(m.args[1])
        good = False
        if mm.op == "-" and len(mm.args) == 2:
            Pm = bounds.Prover(slack)
            good = Pm.ge(vg.mk("-", mm.args[0], vg.mk("const", 1)), mm.args[1])
            for a in Pm.assumptions:
                ctx.assume("FJSPGenerator: " + a)
        mod_ok[mm.id] = good
        ctx.ob("C18.i", "FJSPGenerator:residue-modulus-positive", good, where,
               f"`x % (high - low) + low`: high - low >= 1 because min(max, round(1.2 m)) >= m >= max(min, round(0.8 m)) for the sampled mean m in [min, max): {good}",
               construct="FJSPGenerator._simulate_processing_times:modulus")
    P1 = bounds.Prover(slack)
    ok_ge = P1.ge(Tm, MIN)
    ctx.ob("C18.i", "FJSPGenerator:proc-time >= min_processing_time", ok_ge, where,
           "both sampling modes bounded below by min_processing_time (> 0: an eligible pair never gets the 'not eligible' value 0)" if ok_ge else "lower bound lost: " + "; ".join(P1.trace[-2:]),
           construct="FJSPGenerator._simulate_processing_times:lower-bound")
    P2 = bounds.Prover(slack)
    ok_le = P2.le(Tm, MAX)
    ctx.ob("C18.i", "FJSPGenerator:proc-time <= max_processing_time", ok_le, where,
           "both sampling modes bounded above by max_processing_time" if ok_le else "upper bound lost: " + "; ".join(P2.trace[-2:]),
           construct="FJSPGenerator._simulate_processing_times:upper-bound")
    ok_pos = isinstance(dmin, int) and dmin >= 1
    ctx.ob("C18.i", "FJSPGenerator:min_processing_time default >= 1", ok_pos, where, f"default {dmin}", construct="FJSPGenerator.__init__:min_processing_time")
    for a in dict.fromkeys(P1.assumptions + P2.assumptions):
        ctx.assume("FJSPGenerator: " + a)


def cvrptw_windows(ctx: Ctx):
    """C18.h CVRPTW time windows by bound lineage (sa/bounds.py): for every customer and every draw,
         window start >= int(dist(depot, i))                 (followed through min/max, truncation, masked repairs)
         window end   <= max_time - dist - duration          (the vehicle can still return before the depot closes)
         start, end integer valued and `assert start < end`  => end >= int(dist) + 1 > dist: the window is still open when a
                                                                vehicle that drives straight from the depot arrives.
       Rests on the documented precondition max_time >= 2 dist + duration (recorded as assumption)."""
    from .. import bounds
    env = EnvA(ctx.repo, T.ALL_ENVS["CVRPTWEnv"], "CVRPTWEnv")
    g, gsl = generator_slot(ctx.repo, env.cls)
    if gsl is None or not isinstance(gsl.fr.ret, vg.TD):
        raise AnalysisError("CVRPTWGenerator._generate not analysable")
    ctx.fn(gsl.fi)
    tw = gsl.fr.ret.cells.get("time_windows")
    if tw is None or nf._fn(nf.strip(tw)) != "torch.stack":
        raise AnalysisError("CVRPTWGenerator: time_windows is not stack((start, end), -1)")
    items = nf._seq_items(nf.strip(tw).args[1])
    if not items or len(items) != 2:
        raise AnalysisError("CVRPTWGenerator: time_windows is not a (start, end) pair")
    lo, hi = items
    # D: distance from the depot with a leading zero for the depot itself
    Ds = [n for n in vg.walk(lo) if nf._fn(n) in ("torch.cat", "torch.concat") and any(nf._fn(x) == "rl4co.utils.ops:get_distance" for x in vg.walk(n))]
    Ds = [n for n in Ds if not any(m is not n and m in Ds for m in vg.walk(n))] or Ds
    if len(Ds) != 1:
        raise AnalysisError(f"CVRPTWGenerator: depot distance vector not identified ({len(Ds)} candidates)")
    D = Ds[0]
    # U: the upper end of the sampling interval, u in `(u - D) * rand`
    Us = []
    for n in vg.walk(hi):
        if n.op == "*" and len(n.args) == 2:
            for x, t in (n.args, n.args[::-1]):
                if nf._fn(nf.strip(t)) in bounds.UNIT_CALLS and x.op == "-" and x.args[1] is D and x.args[0] not in Us:
                    Us.append(x.args[0])
    if len(Us) != 1:
        raise AnalysisError(f"CVRPTWGenerator: sampling interval D + (U - D) * rand not identified ({len(Us)} candidates)")
    U = Us[0]
    resid = nf.poly(U) - (nf.poly(vg.mk("selfattr", "max_time")) - nf.poly(D))
    dur_atoms = [a for a in resid.atoms()]
    is_return_bound = all(nf._fn(a) in ("torch.zeros", "torch.zeros_like") for a in dur_atoms) and all(c == -1 for m, c in resid.terms.items() if m) and resid.const_term() == 0
    ctx.ob("C18.h", "CVRPTWGenerator:upper-bound = max_time - dist - duration", is_return_bound, gsl.where,
           f"sampling interval ends at {nf.poly(U).show(2)}", construct="CVRPTWGenerator._generate:upper-bound")
    PRE = ("max_time >= 2 * dist(depot, i) + duration_i for every customer (the generator's documented precondition: "
           "'make sure the relation between max_loc and max_time allows for feasible solutions')")

    def slack(u, a):
        return PRE if (u is U and a is D) else None

    P = bounds.Prover(slack)
    ok_lo = P.ge(lo, vg.mk("meth", D, "int"))
    ctx.ob("C18.h", "CVRPTWGenerator:window-start >= int(dist)", ok_lo, gsl.where,
           "every version of the window start (draws, min/max, depot reset, degenerate-window repair) is bounded below by int(dist(depot, i))"
           if ok_lo else "lower bound lost: " + "; ".join(P.trace[:2]), construct="CVRPTWGenerator._generate:window-start-lower-bound")
    P2 = bounds.Prover(slack)
    ok_hi = P2.le(hi, U)
    ctx.ob("C18.h", "CVRPTWGenerator:window-end <= max_time - dist - duration", ok_hi, gsl.where,
           "every version of the window end is bounded above by the return-in-time bound" if ok_hi else "upper bound lost: " + "; ".join(P2.trace[:2]),
           construct="CVRPTWGenerator._generate:window-end-upper-bound")
    P3 = bounds.Prover(slack)
    integral = P3.integral(lo) and P3.integral(hi)
    strict = False
    for e in gsl.it.events:
        if e.kind != "assert":
            continue
        for n in vg.walk(e.data if isinstance(e.data, vg.S) else e.data[0]):
            c = nf._cmp_raw(n)
            if c is None:
                continue
            l, op, r = c
            if op == "<" and nf.strip(l) is nf.strip(lo) and nf.strip(r) is nf.strip(hi):
                strict = True
            if op == ">" and nf.strip(l) is nf.strip(hi) and nf.strip(r) is nf.strip(lo):
                strict = True
    direct = False
    if not (integral and strict and ok_lo):
        direct = bounds.Prover(slack).ge(hi, D)      # or simply: end >= dist by lineage
    ctx.ob("C18.h", "CVRPTWGenerator:window-open-on-arrival", (integral and strict and ok_lo) or direct, gsl.where,
           "end >= dist by lineage" if direct else
           f"start/end integer valued: {integral}; strict `start < end` asserted on the emitted tensors: {strict}; with start >= int(dist) this gives end >= int(dist) + 1 > dist",
           construct="CVRPTWGenerator._generate:window-open-on-arrival")
    # a rescaling of the times must be applied to the coordinates too (change of units)
    facs = {f.id: f for f in P.factors + P2.factors + P3.factors}
    if facs:
        okf = True
        for key in ("locs", "depot"):
            v = gsl.fr.ret.cells.get(key)
            okf = okf and v is not None and any(n.op == "/" and len(n.args) == 2 and isinstance(n.args[1], vg.S) and n.args[1].id in facs for n in vg.walk(v))
        ctx.ob("C18.h", "CVRPTWGenerator:times-and-coordinates-share-the-scale", okf, gsl.where,
               f"time windows are divided by {[vg.show(f) for f in facs.values()]}; locs and depot must be divided by the same factor", construct="CVRPTWGenerator._generate:scale")
    for a in dict.fromkeys(P.assumptions + P2.assumptions):
        ctx.assume("CVRPTWGenerator: " + a)


def _poly_of_expr(e, lo, hi):
    """linear form {name: coefficient} of an arithmetic AST expression over the two names (None if not linear in them)"""
    if isinstance(e, ast.Name) and e.id in (lo, hi):
        return {e.id: 1.0}
    if isinstance(e, ast.Constant) and isinstance(e.value, (int, float)):
        return {"1": float(e.value)}
    if isinstance(e, ast.BinOp):
        a, b = _poly_of_expr(e.left, lo, hi), _poly_of_expr(e.right, lo, hi)
        if a is None or b is None:
            return None
        if isinstance(e.op, (ast.Add, ast.Sub)):
            sg = 1.0 if isinstance(e.op, ast.Add) else -1.0
            out = dict(a)
            for k, v in b.items():
                out[k] = out.get(k, 0.0) + sg * v
            return {k: v for k, v in out.items() if abs(v) > 1e-12}
        if isinstance(e.op, (ast.Mult, ast.Div)):
            if set(b) <= {"1"} and b:
                c = b["1"]
                return {k: (v * c if isinstance(e.op, ast.Mult) else v / c) for k, v in a.items()}
            if isinstance(e.op, ast.Mult) and set(a) <= {"1"} and a:
                return {k: v * a["1"] for k, v in b.items()}
        return None
    if isinstance(e, ast.UnaryOp) and isinstance(e.op, ast.USub):
        a = _poly_of_expr(e.operand, lo, hi)
        return None if a is None else {k: -v for k, v in a.items()}
    return None


def integer_demands(ctx: Ctx):
    """C18.g: customer demands are integers in [min_demand, max_demand] divided by the capacity: a real draw from
    [min - 1, max - 1) is truncated and shifted by + 1 (so 0 is impossible and max is attainable only through the shift).
    Decides the formula (sampling bounds and shift agree); that max_demand <= capacity is a configuration value, not decided."""
    g = ctx.repo.get_class("rl4co/envs/routing/cvrp/generator.py", "CVRPGenerator")
    ini, gen = g.methods["__init__"], g.methods["_generate"]
    ctx.fn(ini)
    ctx.fn(gen)
    calls = [n.value for n in ast.walk(ini.node) if isinstance(n, ast.Assign) and len(n.targets) == 1 and isinstance(n.targets[0], ast.Attribute) and n.targets[0].attr == "demand_sampler"
             and isinstance(n.value, ast.Call) and getattr(n.value.func, "id", "") == "get_sampler"]
    b_ok = False
    shift = None
    if len(calls) == 1 and len(calls[0].args) >= 4:
        lo = _poly_of_expr(calls[0].args[2], "min_demand", "max_demand")
        hi = _poly_of_expr(calls[0].args[3], "min_demand", "max_demand")
        if lo is not None and hi is not None and set(lo) <= {"min_demand", "1"} and set(hi) <= {"max_demand", "1"} and lo.get("min_demand") == 1.0 and hi.get("max_demand") == 1.0:
            if lo.get("1", 0.0) == hi.get("1", 0.0):
                shift = -lo.get("1", 0.0)
                b_ok = True
    it = vg.Interp(ctx.repo, g, inline_policy=lambda f, a: False)
    fr = it.run_function(gen)
    dm = fr.ret.cells.get("demand") if isinstance(fr.ret, vg.TD) else None
    f_ok, why = False, "demand is not (int(sample) + shift) / capacity"
    if isinstance(dm, vg.S):
        p = nf.poly(dm)
        recs = [a for a in p.atoms() if a.op == "recip" and nf.strip(a.args[0]).op == "selfattr" and nf.strip(a.args[0]).args[0] == "capacity"]
        if len(recs) == 1:
            rest = [(c, [f for f in fs if f[0] is not recs[0]]) for c, fs in p.monos() if any(f[0] is recs[0] for f in fs)]
            if len(rest) == len(p.monos()) == 2:
                consts = [c for c, fs in rest if not fs]
                ints = [fs[0][0] for c, fs in rest if c == 1 and len(fs) == 1 and fs[0][0].op == "meth" and fs[0][0].args[1] == "int"]
                if len(consts) == 1 and len(ints) == 1:
                    smp = nf.strip(ints[0].args[0])
                    from_sampler = smp.op == "meth" and smp.args[1] == "sample" and nf.strip(smp.args[0]).op == "selfattr" and nf.strip(smp.args[0]).args[0] == "demand_sampler"
                    f_ok = from_sampler and shift is not None and float(consts[0]) == shift
                    why = f"demand = (int(demand_sampler.sample()) + {float(consts[0]):g}) / capacity; the sampler is built on [min_demand - {shift}, max_demand - {shift}): integers min..max after the shift: {f_ok}"
    ctx.ob("C18.g", "CVRPGenerator:integer-demand-range", b_ok and f_ok, gen.loc, why, construct="CVRPGenerator:demand-range")
    ctx.assume("C18.g: torch's .int() truncates towards zero and the demand sampler draws from the half-open interval [low, high)")


def mtvrp_integer_demands(ctx: Ctx):
    """C18.g MTVRP linehaul / backhaul demands use the same construction as CVRP, spelled inline: a real draw from
    [min_X - k, max_X - k) truncated by .int() and shifted by + k.  The three k must agree (otherwise the documented integer
    range min_X .. max_X is shifted or 0 becomes possible) and lower / upper bound must belong to the same quantity."""
    g = ctx.repo.get_class("rl4co/envs/routing/mtvrp/generator.py", "MTVRPGenerator")
    fi = g.methods.get("generate_demands")
    if fi is None:
        raise AnalysisError("MTVRPGenerator.generate_demands not found")
    ctx.fn(fi)
    par = _parents(fi.node)
    draws = [c for c in ast.walk(fi.node) if isinstance(c, ast.Call) and isinstance(c.func, ast.Attribute) and c.func.attr == "uniform_" and len(c.args) == 2]
    if len(draws) < 2:
        raise AnalysisError(f"MTVRPGenerator.generate_demands: expected two uniform_ draws, found {len(draws)}")

    def bound(e):
        """self.<attr> - k  ->  (attr, k)"""
        if isinstance(e, ast.BinOp) and isinstance(e.op, (ast.Sub, ast.Add)) and isinstance(e.right, ast.Constant) and isinstance(e.left, ast.Attribute) \
                and isinstance(e.left.value, ast.Name) and e.left.value.id == "self":
            return e.left.attr, (e.right.value if isinstance(e.op, ast.Sub) else -e.right.value)
        if isinstance(e, ast.BinOp) and isinstance(e.op, ast.Add) and isinstance(e.left, ast.Constant) and isinstance(e.right, ast.Attribute) \
                and isinstance(e.right.value, ast.Name) and e.right.value.id == "self":
            return e.right.attr, -e.left.value
        if isinstance(e, ast.BinOp) and isinstance(e.op, ast.Add) and isinstance(e.left, ast.UnaryOp) and isinstance(e.left.op, ast.USub) and isinstance(e.left.operand, ast.Constant) \
                and isinstance(e.right, ast.Attribute):
            return e.right.attr, e.left.operand.value
        if isinstance(e, ast.Attribute) and isinstance(e.value, ast.Name) and e.value.id == "self":
            return e.attr, 0
        return None
    for c in draws:
        lo, hi = bound(c.args[0]), bound(c.args[1])
        # climb: .int() then + k
        x = c
        trunc = False
        shift = None
        while x in par:
            p_ = par[x]
            if isinstance(p_, ast.Attribute) and p_.attr in ("int", "long", "floor"):
                trunc = True
            if isinstance(p_, ast.BinOp) and isinstance(p_.op, (ast.Add, ast.Sub)) and isinstance(p_.right, ast.Constant) and p_.left is x and trunc and shift is None:
                shift = p_.right.value if isinstance(p_.op, ast.Add) else -p_.right.value
            elif isinstance(p_, ast.BinOp) and isinstance(p_.op, ast.Add) and isinstance(p_.left, ast.Constant) and p_.right is x and trunc and shift is None:
                shift = p_.left.value
            if isinstance(p_, ast.stmt):
                break
            x = p_
        fam = lo is not None and hi is not None and lo[0].startswith("min_") and hi[0].startswith("max_") and lo[0][4:] == hi[0][4:]
        ok = bool(fam) and trunc and shift is not None and lo[1] == hi[1] == shift
        name = lo[0][4:] if lo else "?"
        ctx.ob("C18.g", f"MTVRPGenerator:integer-{name}-range", ok, f"{g.module.relpath}:{c.lineno}",
               f"draw from [{ast.unparse(c.args[0])}, {ast.unparse(c.args[1])}), truncated: {trunc}, shifted by {shift}: bounds of one quantity {bool(fam)}, the three offsets agree {ok}",
               construct=f"MTVRPGenerator.generate_demands:{name}-range")


def atsp_triangle(ctx: Ctx):
    """C18.e: with tmat_class, the cost matrix is closed under the all-pairs shortest path relaxation: one Floyd-Warshall pass over
    EVERY pivot 0..num_loc-1 (a necessary condition of the triangle inequality for every instance of every batch)."""
    g = ctx.repo.get_class("rl4co/envs/routing/atsp/generator.py", "ATSPGenerator")
    fi = g.methods["_generate"]
    ctx.fn(fi)
    it = vg.Interp(ctx.repo, g, inline_policy=lambda f, a: False)
    fr = it.run_function(fi)
    ok, why = False, "cost_matrix is not produced by a guarded relaxation loop"
    cm = fr.ret.cells.get("cost_matrix") if isinstance(fr.ret, vg.TD) else None
    loops = [n for n in ast.walk(fi.node) if isinstance(n, ast.For)]
    if isinstance(cm, vg.S) and cm.op in ("phi", "ifexp") and len(loops) == 1:
        t, a, b = cm.args
        relaxed, raw = (a, b) if (t.op == "selfattr" and t.args[0] == "tmat_class") else ((b, a) if (t.op == "not" and t.args[0].op == "selfattr" and t.args[0].args[0] == "tmat_class") else (None, None))
        if relaxed is not None and relaxed.op == "loop" and relaxed.args[0] is raw:
            body = relaxed.args[1]
            exits = [n for n in ast.walk(loops[0]) if isinstance(n, (ast.Break, ast.Continue, ast.Return))]
            rng = loops[0].iter
            all_pivots = isinstance(rng, ast.Call) and getattr(rng.func, "id", "") == "range" and len(rng.args) == 1 and ast.unparse(rng.args[0]) == "self.num_loc"
            form = False
            if nf._fn(body) == "torch.minimum" and len(body.args) == 3:
                lv, sm = body.args[1], body.args[2]
                if lv.op == "loopvar" and sm.op == "+" and all(x.op == "sub" and x.args[0] is lv and x.args[1].op == "tuple" and len(x.args[1].args) == 3 for x in sm.args):
                    def piv(ix):
                        e, r_, c_ = ix.args
                        def is_i(z):
                            return z.op == "list" and len(z.args) == 1 and z.args[0].op == "iter"
                        def is_all(z):
                            return z.op == "slice" and all(vg.is_none(y) for y in z.args)
                        return ("col" if is_all(r_) and is_i(c_) else "row" if is_i(r_) and is_all(c_) else None) if e.op == "ellipsis" else None
                    form = {piv(x.args[1]) for x in sm.args} == {"row", "col"}
            diag = raw.op == "store" and vg.is_const(raw.args[2], 0)
            ok = form and all_pivots and not exits and diag
            why = f"d <- min(d, d[:, :, [i]] + d[:, [i], :]): {form}; for every pivot i in range(num_loc): {all_pivots}; no early exit from the pivot loop: {not exits}; zero diagonal: {diag}"
    ctx.ob("C18.e", "ATSPGenerator._generate:triangle-closure", ok, fi.loc, why, construct="ATSPGenerator._generate:floyd-warshall")


def _parents(root):
    par = {}
    for n in ast.walk(root):
        for c in ast.iter_child_nodes(n):
            par[c] = n
    return par


def _apoly(e, atom):
    """AST arithmetic -> {monomial (sorted tuple of atom names): coefficient}; `atom(e)` names opaque leaves or returns None."""
    if isinstance(e, ast.Constant) and isinstance(e.value, (int, float)) and not isinstance(e.value, bool):
        return {(): float(e.value)} if e.value else {}
    a = atom(e)
    if a is not None:
        return {(a,): 1.0}
    if isinstance(e, ast.UnaryOp) and isinstance(e.op, ast.USub):
        return {k: -v for k, v in _apoly(e.operand, atom).items()}
    if isinstance(e, ast.BinOp) and isinstance(e.op, (ast.Add, ast.Sub, ast.Mult)):
        l, r = _apoly(e.left, atom), _apoly(e.right, atom)
        out = {}
        if isinstance(e.op, ast.Mult):
            for k1, v1 in l.items():
                for k2, v2 in r.items():
                    k = tuple(sorted(k1 + k2))
                    out[k] = out.get(k, 0.0) + v1 * v2
        else:
            sg = 1.0 if isinstance(e.op, ast.Add) else -1.0
            out = dict(l)
            for k, v in r.items():
                out[k] = out.get(k, 0.0) + sg * v
        return {k: v for k, v in out.items() if v}
    raise ValueError(ast.unparse(e))


def sampler_range_once(ctx: Ctx, gens):
    """C18.n the documented range [lo, hi] of a sampled quantity is applied exactly once.  A sampler is built either over the
    constructor's range parameters (`get_sampler(name, dist, lo, hi)`: the draw is used as it is) or over the unit interval
    (`get_sampler(name, dist, 0, 1)`: every draw is mapped by `x * (self.hi - self.lo) + self.lo`).  Building it over (lo, hi)
    AND rescaling the draw by the same pair maps [lo, hi] to [lo + lo*(hi-lo), lo + hi*(hi-lo)], which leaves the documented range
    for every non-default configuration; building it over the unit interval without the rescale ignores the range."""
    n_inst = 0
    for g in sorted(gens, key=lambda c: c.fq):
        if not ctx.repo.mro_fully_in_repo(g):
            continue
        ini = g.methods.get("__init__")
        if ini is None:
            continue
        params = set(ini.params())
        # self.X = <ctor param>
        attr_of_param = {}
        for n in ast.walk(ini.node):
            if isinstance(n, ast.Assign) and len(n.targets) == 1 and isinstance(n.targets[0], ast.Attribute) and isinstance(n.targets[0].value, ast.Name) \
                    and n.targets[0].value.id == "self" and isinstance(n.value, ast.Name) and n.value.id in params:
                attr_of_param.setdefault(n.value.id, set()).add(n.targets[0].attr)
        for n in ast.walk(ini.node):
            if not (isinstance(n, ast.Assign) and len(n.targets) == 1 and isinstance(n.targets[0], ast.Attribute) and isinstance(n.targets[0].value, ast.Name)
                    and n.targets[0].value.id == "self"):
                continue
            calls = [c for c in ast.walk(n.value) if isinstance(c, ast.Call) and getattr(c.func, "id", "") == "get_sampler"]
            if len(calls) != 1:
                continue
            call = calls[0]
            sattr = n.targets[0].attr
            kws = {k.arg: k.value for k in call.keywords if k.arg}
            lo_e = kws.get("low", call.args[2] if len(call.args) > 2 else None)
            hi_e = kws.get("high", call.args[3] if len(call.args) > 3 else None)
            if lo_e is None or hi_e is None:
                continue
            name_e = call.args[0] if call.args else kws.get("name")
            sname = name_e.value if isinstance(name_e, ast.Constant) else None
            if isinstance(lo_e, ast.Name) and isinstance(hi_e, ast.Name) and lo_e.id in params and hi_e.id in params:
                kind, lo_p, hi_p = "ranged", lo_e.id, hi_e.id
            elif isinstance(lo_e, ast.Constant) and isinstance(hi_e, ast.Constant) and float(lo_e.value) == 0.0 and float(hi_e.value) == 1.0:
                kind = "unit"
                lo_p, hi_p = f"min_{sname}", f"max_{sname}"
                if not (lo_p in params and hi_p in params):
                    continue            # a unit sampler of a quantity without a configurable range
            else:
                continue
            lo_attrs, hi_attrs = attr_of_param.get(lo_p, set()), attr_of_param.get(hi_p, set())
            # every draw
            for m in g.methods.values():
                if m.name == "__init__":
                    continue
                par = _parents(m.node)
                for c in ast.walk(m.node):
                    if not (isinstance(c, ast.Call) and isinstance(c.func, ast.Attribute) and c.func.attr == "sample" and isinstance(c.func.value, ast.Attribute)
                            and isinstance(c.func.value.value, ast.Name) and c.func.value.value.id == "self" and c.func.value.attr == sattr):
                        continue
                    # the arithmetic expression the draw sits in (directly, or through the local it is assigned to)
                    top = c
                    while isinstance(par.get(top), (ast.BinOp, ast.UnaryOp)):
                        top = par[top]
                    exprs = [(top, c)]
                    st = par.get(top)
                    if top is c and isinstance(st, ast.Assign) and len(st.targets) == 1 and isinstance(st.targets[0], ast.Name):
                        loc = st.targets[0].id
                        for u in ast.walk(m.node):
                            if isinstance(u, ast.Name) and u.id == loc and isinstance(u.ctx, ast.Load) and isinstance(par.get(u), ast.BinOp):
                                t2 = u
                                while isinstance(par.get(t2), (ast.BinOp, ast.UnaryOp)):
                                    t2 = par[t2]
                                exprs.append((t2, u))
                    rescaled = False
                    for top_e, leaf in exprs:
                        if top_e is leaf:
                            continue
                        def atom(e, leaf=leaf):
                            if e is leaf:
                                return "x"
                            if isinstance(e, ast.Attribute) and isinstance(e.value, ast.Name) and e.value.id == "self":
                                return "lo" if e.attr in lo_attrs else "hi" if e.attr in hi_attrs else None
                            return None
                        try:
                            pol = _apoly(top_e, atom)
                        except ValueError:
                            continue
                        if pol == {("hi", "x"): 1.0, ("lo", "x"): -1.0, ("lo",): 1.0}:
                            rescaled = True
                    n_inst += 1
                    ok = rescaled if kind == "unit" else not rescaled
                    why = (f"self.{sattr} is built over " + ("the unit interval" if kind == "unit" else f"({lo_p}, {hi_p})") + "; this draw is " +
                           ("mapped by x * (hi - lo) + lo" if rescaled else "used as drawn") + ": the range is applied " +
                           ("once" if ok else ("twice" if kind == "ranged" else "never")))
                    ctx.ob("C18.n", f"{g.name}.{m.name}:self.{sattr}:range-once", ok, f"{g.module.relpath}:{c.lineno}", why,
                           construct=f"{g.name}:sampler-range:{sattr}")
    if n_inst < 22:
        raise AnalysisError(f"only {n_inst} sampler draws with a configurable range found")


def paired_count_even(ctx: Ctx):
    """C18.o pickup-and-delivery generators split the customers into two halves (pickup i, delivery i + n/2): the customer count
    the generator works with must be even for every requested `num_loc`.  Decided by abstract interpretation of the constructor
    in the parity domain, once for an odd and once for an even argument: `self.num_loc` must come out even in both."""
    GEN = (("rl4co/envs/routing/pdp/generator.py", "PDPGenerator"), ("rl4co/envs/routing/mdcpdp/generator.py", "MDCPDPGenerator"),
           ("rl4co/envs/routing/mpdp/generator.py", "MPDPGenerator"))
    P = "num_loc"

    def par_expr(e, env):
        """set of possible parities (0/1) of an int expression"""
        if isinstance(e, ast.Constant) and isinstance(e.value, int) and not isinstance(e.value, bool):
            return {e.value % 2}
        if isinstance(e, ast.Name) and e.id in env:
            return env[e.id]
        if isinstance(e, ast.Attribute) and isinstance(e.value, ast.Name) and e.value.id == "self" and ("self." + e.attr) in env:
            return env["self." + e.attr]
        if isinstance(e, ast.BinOp):
            l, r = par_expr(e.left, env), par_expr(e.right, env)
            if isinstance(e.op, (ast.Add, ast.Sub)):
                return {(a + b) % 2 for a in l for b in r}
            if isinstance(e.op, ast.Mult):
                return {(a * b) % 2 for a in l for b in r}
            if isinstance(e.op, ast.Mod) and isinstance(e.right, ast.Constant) and e.right.value == 2:
                return set(l)
            return {0, 1}
        if isinstance(e, ast.IfExp):
            t = truth(e.test, env)
            out = set()
            if True in t:
                out |= par_expr(e.body, env)
            if False in t:
                out |= par_expr(e.orelse, env)
            return out
        return {0, 1}

    def truth(t, env):
        if isinstance(t, ast.UnaryOp) and isinstance(t.op, ast.Not):
            return {not x for x in truth(t.operand, env)}
        if isinstance(t, ast.Compare) and len(t.ops) == 1:
            l, r = t.left, t.comparators[0]
            def mod2(x):
                return isinstance(x, ast.BinOp) and isinstance(x.op, ast.Mod) and isinstance(x.right, ast.Constant) and x.right.value == 2
            if mod2(l) or mod2(r):
                pl, pr = par_expr(l, env), par_expr(r, env)
                if isinstance(t.ops[0], ast.Eq):
                    return {a == b for a in pl for b in pr}
                if isinstance(t.ops[0], ast.NotEq):
                    return {a != b for a in pl for b in pr}
                if isinstance(t.ops[0], ast.Gt):
                    return {a > b for a in pl for b in pr}
                if isinstance(t.ops[0], ast.Lt):
                    return {a < b for a in pl for b in pr}
            return {True, False}
        if isinstance(t, ast.BinOp) and isinstance(t.op, ast.Mod) and isinstance(t.right, ast.Constant) and t.right.value == 2:
            return {bool(a) for a in par_expr(t, env)}
        return {True, False}

    def run_block(stmts, env):
        for st in stmts:
            if isinstance(st, ast.Assign) and len(st.targets) == 1:
                tg = st.targets[0]
                key = tg.id if isinstance(tg, ast.Name) else ("self." + tg.attr if isinstance(tg, ast.Attribute) and isinstance(tg.value, ast.Name) and tg.value.id == "self" else None)
                if key is not None:
                    env[key] = par_expr(st.value, env)
            elif isinstance(st, ast.AugAssign):
                tg = st.target
                key = tg.id if isinstance(tg, ast.Name) else ("self." + tg.attr if isinstance(tg, ast.Attribute) and isinstance(tg.value, ast.Name) and tg.value.id == "self" else None)
                if key is not None:
                    cur = env.get(key, {0, 1})
                    v = par_expr(st.value, env)
                    env[key] = ({(a + b) % 2 for a in cur for b in v} if isinstance(st.op, (ast.Add, ast.Sub)) else
                                {(a * b) % 2 for a in cur for b in v} if isinstance(st.op, ast.Mult) else {0, 1})
            elif isinstance(st, ast.If):
                t = truth(st.test, env)
                outs = []
                if True in t:
                    e1 = {k: set(v) for k, v in env.items()}
                    run_block(st.body, e1)
                    outs.append(e1)
                if False in t:
                    e2 = {k: set(v) for k, v in env.items()}
                    run_block(st.orelse, e2)
                    outs.append(e2)
                keys = set().union(*[set(o) for o in outs])
                env.clear()
                for k in keys:
                    env[k] = set().union(*[o.get(k, {0, 1}) for o in outs])
            elif isinstance(st, (ast.For, ast.While, ast.With, ast.Try)):
                for n in ast.walk(st):
                    if isinstance(n, (ast.Assign, ast.AugAssign)):
                        for tg in (n.targets if isinstance(n, ast.Assign) else [n.target]):
                            key = tg.id if isinstance(tg, ast.Name) else ("self." + tg.attr if isinstance(tg, ast.Attribute) and isinstance(tg.value, ast.Name) and tg.value.id == "self" else None)
                            if key is not None:
                                env[key] = {0, 1}

    for path, cname in GEN:
        g = ctx.repo.get_class(path, cname)
        ini = g.methods.get("__init__")
        if ini is None or P not in ini.params():
            raise AnalysisError(f"{cname}.__init__({P}) not found")
        ctx.fn(ini)
        res = {}
        for parity in (0, 1):
            env = {P: {parity}}
            run_block(ini.node.body, env)
            res[parity] = env.get("self." + P)
        if any(v is None for v in res.values()):
            raise AnalysisError(f"{cname}.__init__ never assigns self.{P}")
        ok = all(v == {0} for v in res.values())
        ctx.ob("C18.o", f"{cname}:even-customer-count", ok, ini.loc,
               f"parity of self.{P} after the constructor: even argument -> {sorted(res[0])}, odd argument -> {sorted(res[1])} (0 = even)" +
               ("" if ok else f" -- an odd {P} reaches _generate and the env's pickup/delivery halves no longer pair up"),
               construct=f"{cname}.__init__:num_loc-parity")


def feasibility_guards(ctx: Ctx):
    """C18.p generators that refuse unsolvable draws do so with an assertion over the generated tensors.  Must-pass-through:
    the assertion is a statement of the method's top-level sequence and no `return` of the method precedes it, so every
    instance handed out went through the guard.  For the MTVRP distance limit the guard itself is the round trip
    `2 * dist(depot, node) < distance_limit` for every node."""
    SITES = (("rl4co/envs/routing/mtvrp/generator.py", "MTVRPGenerator", "generate_distance_limit"),
             ("rl4co/envs/routing/mtvrp/generator.py", "MTVRPGenerator", "generate_time_windows"),
             ("rl4co/envs/routing/cvrptw/generator.py", "CVRPTWGenerator", "_generate"),
             ("rl4co/envs/scheduling/jssp/generator.py", "JSSPGenerator", "_simulate_processing_times"))

    def is_guard(st):
        """an assertion over all entries of a generated tensor: `assert (...).all()` / `assert torch.all(...)`"""
        if not isinstance(st, ast.Assert):
            return False
        for c in ast.walk(st.test):
            if isinstance(c, ast.Call) and ((isinstance(c.func, ast.Attribute) and c.func.attr == "all") or ast.unparse(c.func) == "torch.all"):
                return True
        return False

    for path, cname, meth in SITES:
        g = ctx.repo.get_class(path, cname)
        fi = g.methods.get(meth)
        if fi is None:
            raise AnalysisError(f"{cname}.{meth} not found")
        ctx.fn(fi)
        body = fi.node.body
        guards = [i for i, st in enumerate(body) if is_guard(st)]
        nested = [n for n in ast.walk(fi.node) if is_guard(n) and n not in body]
        if not guards:
            ok, why = False, ("the feasibility assertion over the generated tensor is " + ("nested under a condition or loop" if nested else "gone") +
                              ": instances are handed out without the guard")
        else:
            gi = guards[0]
            early = [n for st in body[:gi] for n in ast.walk(st) if isinstance(n, ast.Return)]
            ok = not early
            why = (f"assert at top level of {meth} (statement {gi + 1} of {len(body)}); returns before it: {len(early)}" +
                   ("" if ok else f" (line {early[0].lineno}) -- that path hands out instances the guard never saw"))
        ctx.ob("C18.p", f"{cname}.{meth}:guard-on-every-path", ok, fi.loc, why, construct=f"{cname}.{meth}:guard-dominates-return")
    # content of the MTVRP guard
    g = ctx.repo.get_class(SITES[0][0], SITES[0][1])
    fi = g.methods[SITES[0][2]]
    it = vg.Interp(ctx.repo, g, inline_policy=lambda f, a: False)
    fr = it.run_function(fi)
    asserts = [e for e in it.events if e.kind == "assert" and isinstance(e.data, vg.S)]
    ok, why = False, f"{len(asserts)} assertion(s) in the value graph"
    for e in asserts:
        test = e.data
        for n in vg.walk(test):
            c = nf._cmp_raw(n)
            if c is None:
                continue
            l, op, r = c
            if op in (">", ">="):
                op, l, r = {">": "<", ">=": "<="}[op], r, l
            if op not in ("<", "<="):
                continue
            if not (r.op == "selfattr" and r.args[0] == "distance_limit"):
                continue
            # l = 2 * cdist(locs, locs[:, 0:1, :])
            try:
                pol = nf.poly(l)
            except Exception:
                continue
            terms = pol.terms if hasattr(pol, "terms") else None
            dists = [x for x in vg.walk(l) if nf._fn(x) in ("torch.cdist",)]
            two = False
            if terms is not None and len(terms) == 1:
                (mono, coef), = terms.items()
                two = coef == 2 and len(mono) == 1
            depot = False
            for d in dists:
                a_, b_ = d.args[1], d.args[2]
                for x, y in ((a_, b_), (b_, a_)):
                    if y.op == "sub" and y.args[0] is x:
                        depot = True
            ok = two and depot
            why = f"assert 2 * cdist(locs, depot) {op} self.distance_limit: factor two {two}, distance to the depot column {depot}"
    ctx.ob("C18.p", "MTVRPGenerator.generate_distance_limit:round-trip", ok, fi.loc, why, construct="MTVRPGenerator.generate_distance_limit:round-trip-guard")


def mtvrp_horizon_guard(ctx: Ctx):
    """C18.p MTVRP time windows: the start is drawn as (1 + (H - 1) * u) * d / speed with u in [0, 1), which lies between the
    arrival time d / speed and the latest start that still allows service and return exactly when H >= 1.  The method must
    assert that for every node (the same H, compared in normal form), before anything is returned."""
    g = ctx.repo.get_class("rl4co/envs/routing/mtvrp/generator.py", "MTVRPGenerator")
    fi = g.methods["generate_time_windows"]
    it = vg.Interp(ctx.repo, g, inline_policy=lambda f, a: False)
    fr = it.run_function(fi)
    roots = [fr.ret] if isinstance(fr.ret, vg.S) else []
    H = set()
    for r in roots:
        for n in vg.walk(r):
            # 1 + (X - 1) * rand(...)
            if n.op != "+" or len(n.args) != 2:
                continue
            for one, prod in (n.args, n.args[::-1]):
                if not (vg.is_const(one, 1) and isinstance(prod, vg.S) and prod.op == "*" and len(prod.args) == 2):
                    continue
                for x, u in (prod.args, prod.args[::-1]):
                    if nf._fn(u) in ("torch.rand", "torch.rand_like") and isinstance(x, vg.S):
                        p = nf.poly(x) + nf.Poly.const(1)
                        H.add(p.to_sym().id)
                        H_poly = p
    if len(H) != 1:
        raise AnalysisError(f"MTVRPGenerator.generate_time_windows: window start is not of the form (1 + (H - 1) * u) * d / speed ({len(H)} candidates)")
    want = nf.cmpnf(vg.mk(">=", H_poly.to_sym(), vg.mk("const", 1)))
    ok = False
    seen = []
    for e in it.events:
        if e.kind != "assert" or not isinstance(e.data, vg.S):
            continue
        for n in vg.walk(e.data):
            c = nf.cmpnf(n)
            if c is None:
                continue
            seen.append(vg.show(n, 3))
            if c[1] == want[1] and c[0] == want[0]:
                ok = True
    ctx.ob("C18.p", "MTVRPGenerator.generate_time_windows:horizon-guard", ok, fi.loc,
           f"window start = (1 + (H - 1) * u) * d / speed; assertion H >= 1 over all nodes present: {ok} (assertions seen: {seen[:3]})" +
           ("" if ok else " -- without it a short horizon / far customer yields a window that closes before the vehicle can arrive"),
           construct="MTVRPGenerator.generate_time_windows:horizon-guard")
    # ... and H itself is the number of one-way trips d / speed that fit before the latest start:  the latest start H * d / speed
    # plus window length, service time and the way back d / speed must not exceed the depot's closing time:
    #   H = (max_time - service - length) / (d / speed) - 1.    In normal form: constant term -1, every other monomial carries
    # recip(d) and speed, and what remains of them is  max_time - service - length  (length = end - start of the returned windows,
    # service = the returned service times of the customers).  `- 1` -> `+ 1` lets the window end after the vehicle must leave.
    ret = fr.ret
    items = ret.items if isinstance(ret, vg.Tup) else (list(ret.args) if isinstance(ret, vg.S) and ret.op == "tuple" else [])
    ok_h, why_h = False, "H not decomposed"
    try:
        tw = nf.strip(items[0])
        cols = nf._seq_items(tw.args[1])
        s_col = nf._seq_items(nf.strip(cols[0]).args[1])[1]
        e_col = nf._seq_items(nf.strip(cols[1]).args[1])[1]
        serv = nf._seq_items(nf.strip(items[1]).args[1])[1]
        length = nf.poly(e_col) - nf.poly(s_col)
        rec_d = [a for a in H_poly.atoms() if a.op == "recip" and (nf._fn(nf.strip(a.args[0])) or "").endswith("get_distance")]
        spd = [a for a in H_poly.atoms() if a.op == "param" and a.args[0] == "speed"]
        if len(rec_d) == 1 and len(spd) == 1:
            rest = nf.Poly.const(0)
            shape_ok = H_poly.const_term() == -1
            for mono, coef in H_poly.terms.items():
                if not mono:
                    continue
                ats = {nf.Poly.ATOMS[a_]: e_ for a_, e_ in mono}
                if ats.get(rec_d[0]) != 1 or ats.get(spd[0]) != 1:
                    shape_ok = False
                    break
                term = nf.Poly.const(coef)
                for a_, e_ in ats.items():
                    if a_ is rec_d[0] or a_ is spd[0]:
                        continue
                    for _ in range(e_):
                        term = term * nf.Poly.atom(a_)
                rest = rest + term
            want_rest = nf.poly(vg.mk("selfattr", "max_time")) - nf.poly(serv) - length
            ok_h = bool(shape_ok and rest == want_rest)
            why_h = f"H = (max_time - service - length) * speed / d - 1: constant term {H_poly.const_term()}, every other term over d / speed: {shape_ok}, numerator = max_time - service - length: {rest == want_rest}"
    except Exception as ex:  # structure not as expected: reported, not raised
        why_h = f"H not decomposed ({type(ex).__name__})"
    ctx.ob("C18.p", "MTVRPGenerator.generate_time_windows:horizon-leaves-time-to-return", ok_h, fi.loc, why_h,
           construct="MTVRPGenerator.generate_time_windows:horizon-definition")


def mtvrp_windows_ordered(ctx: Ctx):
    """C18.r MTVRP time windows are ordered for every draw: `end >= start` by bound lineage (end = start + length with a length
    the prover shows non-negative), the pair is stacked as (start, end) on the last axis, and the depot's window is [0, max_time].
    No numbers are computed; `not provable` is reported (the prover knows sums / products of non-negatives and constant folding)."""
    from ..bounds import Prover
    g = ctx.repo.get_class("rl4co/envs/routing/mtvrp/generator.py", "MTVRPGenerator")
    fi = g.methods["generate_time_windows"]
    it = vg.Interp(ctx.repo, g, inline_policy=lambda f, a: False)
    fr = it.run_function(fi)
    ret = fr.ret
    items = ret.items if isinstance(ret, vg.Tup) else (list(ret.args) if isinstance(ret, vg.S) and ret.op == "tuple" else [])
    if not items or not isinstance(items[0], vg.S):
        raise AnalysisError("MTVRPGenerator.generate_time_windows: does not return (time_windows, service_time)")
    tw = nf.strip(items[0])
    ok, why = False, "time_windows is not stack((start column, end column), -1)"
    if nf._fn(tw) == "torch.stack" and nf.axis_is(tw, -1):
        cols = nf._seq_items(tw.args[1]) or []
        if len(cols) == 2 and all(nf._fn(nf.strip(c)) in ("torch.cat", "torch.concat") for c in cols):
            (d0, s_), (d1, e_) = [tuple(nf._seq_items(nf.strip(c).args[1])) for c in cols]
            P = Prover()
            ordered = P.ge(e_, s_) and nf.strip(e_) is not nf.strip(s_) and not (nf.poly(e_) == nf.poly(s_))
            depot_ok = nf._fn(nf.strip(d0)) in ("torch.zeros", "torch.zeros_like") and any(x.op == "selfattr" and x.args[0] == "max_time" for x in vg.walk(d1))
            ok = ordered and depot_ok
            why = f"customer windows: end >= start by bound lineage -- {ordered} ({'; '.join(P.trace[-1:]) if not ordered else 'end = start + non-negative length'}); depot window [0, max_time] -- {depot_ok}"
    ctx.ob("C18.r", "MTVRPGenerator.generate_time_windows:ordered", ok, fi.loc, why, construct="MTVRPGenerator.generate_time_windows:ordered")


def customer_rows_on_every_path(ctx: Ctx):
    """C18.s the documented shape `locs: [B, num_loc, 2]` holds on EVERY path of `_generate`: the depot may be drawn by its own
    sampler or taken from an extra sampled row, and both branches must leave exactly `num_loc` customer rows (symbolic axis
    sizes, sa/symshape.py: a phi resolves only when all alternatives agree).  Generators for which the engine resolves the row
    count on today's tree are the confirmed instance set."""
    from ..symshape import SymShape
    CONFIRMED = ("TSPGenerator", "CVRPGenerator", "CVRPTWGenerator", "PCTSPGenerator", "PDPGenerator", "MTSPGenerator", "MDCPDPGenerator", "FLPGenerator")
    seen = set()
    for cname, path in T.ALL_ENVS.items():
        env = EnvA(ctx.repo, path, cname)
        g, gsl = generator_slot(ctx.repo, env.cls)
        if gsl is None or gsl.td is None or g.name in seen or g.name not in CONFIRMED:
            continue
        seen.add(g.name)
        v = gsl.td.cells.get("locs")
        if not isinstance(v, vg.S):
            raise AnalysisError(f"{g.name}._generate: no `locs` key")
        d = SymShape([]).dim(v, -2)
        want = nf.poly(vg.mk("selfattr", "num_loc"))
        ok = d is not None and d == want
        ctx.ob("C18.s", f"{g.name}._generate:locs-rows", ok, gsl.where,
               f"rows of `locs` on every path: {d.show(3) if d is not None else 'the paths disagree (or a construction is not understood)'}; documented: self.num_loc",
               construct=f"{g.name}._generate:locs-rows")
    if len(seen) < 8:
        raise AnalysisError(f"only {len(seen)} of the confirmed generators found")


def mcp_membership_width(ctx: Ctx):
    """C18.q MCP: `membership` is a [B, num_sets, W] table of random items cut off per set by `arange(W') < set_size`.  The
    product only exists when W and W' are the same size for EVERY draw: both must be the same expression (the configured
    max_size), not one of them a statistic of the drawn sizes."""
    from ..symshape import SymShape
    g = ctx.repo.get_class("rl4co/envs/graph/mcp/generator.py", "MCPGenerator")
    fi = g.methods["_generate"]
    ctx.fn(fi)
    it = vg.Interp(ctx.repo, g, inline_policy=lambda f, a: False)
    fr = it.run_function(fi)
    cell = fr.ret.cells.get("membership") if isinstance(fr.ret, vg.TD) else None
    if not isinstance(cell, vg.S):
        raise AnalysisError("MCPGenerator._generate: membership cell not found")
    ss = SymShape([])
    tables = [n for n in vg.walk(cell) if nf._fn(n) == "torch.randint" and ss.rank(n) == 3]
    ramps = [n for n in vg.walk(cell) if nf._fn(n) == "torch.arange" and len([a for a in n.args[1:] if not (isinstance(a, vg.S) and a.op == "kw")]) == 1]
    if len(tables) != 1 or len(ramps) != 1:
        raise AnalysisError(f"MCPGenerator._generate: expected one random item table and one cut-off ramp, found {len(tables)} / {len(ramps)}")
    w = ss.dim(tables[0], -1)
    w2 = nf.poly(ramps[0].args[1])
    ok = w is not None and w == w2
    ctx.ob("C18.q", "MCPGenerator._generate:membership-width", ok, fi.loc,
           f"item table width {vg.show(ss._size_items(tables[0])[-1], 3)}; cut-off ramp arange({vg.show(ramps[0].args[1], 3)}): same size for every draw -- {ok}" +
           ("" if ok else "; the two broadcast only when the draw happens to make them equal, otherwise _generate raises"),
           construct="MCPGenerator._generate:membership-width")


def run_thorough(ctx: Ctx):
    from ..selftest.corpus import for_prop
    from ..selftest.runner import run_corpus
    run_corpus(ctx, for_prop("C18"))
