"""C13 -- beam search: index algebra and buffer discipline.  Decided clauses:

C13.a  flat (beam, batch) index:  batch_beam_idx = arange(B).repeat(W) + parent * B  with
       B = rows // W, identically in _make_beam_step and _backtrack (batch minor)
C13.b  stacked scores: cat(split(B), dim=1) and the matching decode parent = ind // num_nodes,
       node = ind % num_nodes, top-k with beam_width on dim 1, results re-flattened beam-major
       (hstack(unbind(., 1)))
C13.c  state re-indexing: td, log-probs and mask are indexed by the same batch_beam_idx in _step
C13.d  buffers: beam_path gets one append per step (and one in the hook); parent_beam_logprobs is
       overwritten with the selected top-k scores; the back-tracking follows
       beam_path[k][batch_beam_idx] and reads actions/log-probs at [batch_beam_idx, k]
C13.e  best beam: rewards regrouped with the same split(B) / idx * B and logprobs, actions, td
       gathered with one flat index
"""
from __future__ import annotations

from .. import nf, vg
from ..core import Ctx
from ..model import AnalysisError

FLOOR = 21
EXPLANATION = (
    "Static analysis of BeamSearch (_make_beam_step, _step, _backtrack, _select_best_beam, pre_decoder_hook) in "
    "rl4co/utils/decoding.py on the def-use value graph: polynomial normal form of the flat (beam, batch) index, agreement of "
    "the split/cat stacking with the // and % decode, same-index re-indexing of state/log-probs/mask, append discipline of the "
    "beam-path/action/log-prob buffers, back-tracking recurrence, best-beam regrouping. Structural necessary conditions for "
    "every width and score ordering; optimality/distinctness/feasibility of the kept beams are runtime properties: not decided."
)
RULE = "one obligation per index-algebra / buffer clause"
DEC = "rl4co/utils/decoding.py"


def fnname(s):
    return nf._fn(s)


def analyse(ctx, cls, meth):
    fi = cls.methods[meth]
    ctx.fn(fi)
    it = vg.Interp(ctx.repo, cls)
    fr = it.run_function(fi)
    bad = [e for e in it.events if e.kind in ("unhandled-stmt", "unhandled-expr")]
    if bad:
        raise AnalysisError(f"BeamSearch.{meth}: unhandled constructs {bad[:2]}")
    return fi, it, fr


def is_batch_size(s, rows_pred) -> bool:
    """s == rows // self.beam_width"""
    return isinstance(s, vg.S) and s.op == "//" and rows_pred(s.args[0]) and s.args[1].op == "selfattr" and s.args[1].args[0] == "beam_width"


def flat_index_ok(idx, rows_pred):
    """idx = arange([0,] B).repeat(W)[.to(..)] + parent * B   -> (ok, parent)"""
    p = nf.poly(idx)
    mon = p.monos()
    if len(mon) != 2:
        return False, None, "not a sum of two terms"
    seq = [fs for c, fs in mon if c == 1 and len(fs) == 1]
    prod = [fs for c, fs in mon if c == 1 and len(fs) == 2]
    if len(seq) != 1 or len(prod) != 1:
        return False, None, "not  sequence + parent * B"
    s = nf.strip(seq[0][0][0])
    seq_ok = s.op == "meth" and s.args[1] == "repeat" and len(s.args) == 3 and s.args[2].op == "selfattr" and s.args[2].args[0] == "beam_width"
    if seq_ok:
        ar = nf.strip(s.args[0])
        plain = [a for a in ar.args[1:] if not (isinstance(a, vg.S) and a.op == "kw")] if fnname(ar) == "torch.arange" else []
        seq_ok = bool(plain) and is_batch_size(plain[-1], rows_pred) and (len(plain) == 1 or vg.is_const(plain[0], 0))
    bsz = [a for a, _ in prod[0] if is_batch_size(a, rows_pred)]
    parent = [a for a, _ in prod[0] if not is_batch_size(a, rows_pred)]
    ok = seq_ok and len(bsz) == 1 and len(parent) == 1
    return ok, (parent[0] if parent else None), f"arange(B).repeat(W): {seq_ok}; parent * B with B = rows // beam_width: {len(bsz) == 1}"


def running_scores_have_one_writer(ctx: Ctx, cls):
    """C13.k the running beam scores `self.parent_beam_logprobs` are written by the hook that creates them and by
    `_make_beam_step`, which stores them already in NEW-beam order (the top-k values themselves).  Any other writer -- e.g. a
    re-indexing by the beam parents in `_step`, "like td / logprobs / mask" -- permutes them a second time: the scores of an
    instance's beams are attached to the wrong beams and the next top-k no longer keeps the highest-scoring expansions."""
    import ast
    ALLOWED = {"__init__", "pre_decoder_hook", "_make_beam_step"}
    writers = {}
    for mn, fi in cls.methods.items():
        for st in ast.walk(fi.node):
            tg = st.targets if isinstance(st, ast.Assign) else ([st.target] if isinstance(st, (ast.AugAssign, ast.AnnAssign)) else [])
            for t in tg:
                base = t
                while isinstance(base, ast.Subscript):
                    base = base.value
                if isinstance(base, ast.Attribute) and isinstance(base.value, ast.Name) and base.value.id == "self" and base.attr == "parent_beam_logprobs":
                    writers.setdefault(mn, st.lineno)
    if "_make_beam_step" not in writers:
        raise AnalysisError("BeamSearch._make_beam_step does not write parent_beam_logprobs")
    extra = sorted(set(writers) - ALLOWED)
    ctx.ob("C13.k", "BeamSearch.parent_beam_logprobs:writers", not extra, cls.methods["_make_beam_step"].loc,
           f"written by {sorted(writers)}" + ("" if not extra else f": {extra} also write(s) the running scores -- they are already stored in new-beam order by _make_beam_step"),
           construct="BeamSearch.parent_beam_logprobs:writers")


def best_by_reward(ctx: Ctx, cls):
    """C13.h with best-selection the returned beam is the one with the maximum REWARD: BeamSearch.post_decoder_hook, on every
    return path taken under `self.select_best`, returns the value of `self._select_best_beam(<logprobs>, <sequences>, td, env)`
    (which evaluates all beams).  The beams are kept sorted by score -- the first beam is the most LIKELY one, not the best."""
    import ast
    fi = cls.methods.get("post_decoder_hook")
    if fi is None:
        raise AnalysisError("BeamSearch.post_decoder_hook not found")
    ctx.fn(fi)
    rets = []

    val_of = {}

    def go(body, conds):
        for i_, st in enumerate(body):
            if isinstance(st, ast.Return):
                v_ = st.value
                if isinstance(v_, ast.Name):
                    # `x = f(...); return x` in the same block
                    for prev in reversed(body[:i_]):
                        if isinstance(prev, ast.Assign) and len(prev.targets) == 1 and isinstance(prev.targets[0], ast.Name) and prev.targets[0].id == v_.id:
                            v_ = prev.value
                            break
                val_of[id(st)] = v_
                rets.append((st, list(conds)))
            elif isinstance(st, ast.If):
                go(st.body, conds + [(ast.unparse(st.test), True)])
                go(st.orelse, conds + [(ast.unparse(st.test), False)])
            elif isinstance(st, (ast.For, ast.While, ast.With, ast.Try)):
                go(getattr(st, "body", []), conds)
    go(fi.node.body, [])
    under = [(r, c) for r, c in rets if any("select_best" in t and pol and not t.strip().startswith("not ") for t, pol in c)
             or any("select_best" in t and not pol and t.strip().startswith("not ") for t, pol in c)]
    if not under:
        raise AnalysisError("BeamSearch.post_decoder_hook: no return path under self.select_best")
    bad = [r for r, c in under if not (isinstance(val_of[id(r)], ast.Call) and isinstance(val_of[id(r)].func, ast.Attribute) and val_of[id(r)].func.attr == "_select_best_beam"
                                       and len(val_of[id(r)].args) >= 4)]
    ctx.ob("C13.h", "BeamSearch.post_decoder_hook:best-beam-by-reward", not bad, fi.loc,
           f"{len(under)} return path(s) under select_best, each returns self._select_best_beam(...): {not bad}" +
           ("" if not bad else f" -- line {bad[0].lineno} returns {ast.unparse(val_of[id(bad[0])])[:60]}: the first (most likely) beam is not the maximum-reward beam"),
           construct="BeamSearch.post_decoder_hook:select-best-path")


def beams_scored_like_single_rows(ctx: Ctx):
    """C13.i / C13.j a beam's per-step log-probabilities are those the policy assigns to that very sequence when it is scored
    as one row.  Two places where the multi-start layout could diverge from the single-row computation:
      i) AttentionModelDecoder._precompute_cache: the cached projections (graph context included) do not depend on `num_starts`;
      j) PointerAttention._inner_mha: the mask handed to the inner attention is the given per-query mask, only reshaped
         (unsqueeze / expand / view / logical negation): no reduction (any / all / sum / max) over the query axis, which would
         let every beam attend to the union of what is feasible for ANY beam of its instance."""
    import ast
    dcls = ctx.repo.get_class("rl4co/models/zoo/am/decoder.py", "AttentionModelDecoder")
    fi = dcls.methods.get("_precompute_cache")
    if fi is None:
        raise AnalysisError("AttentionModelDecoder._precompute_cache not found")
    ctx.fn(fi)
    uses = sorted({n.lineno for n in ast.walk(fi.node) if isinstance(n, ast.Name) and n.id == "num_starts" and isinstance(n.ctx, ast.Load)})
    ctx.ob("C13.i", "AttentionModelDecoder._precompute_cache:independent-of-num_starts", not uses, fi.loc,
           "the cache is computed from the embeddings alone" if not uses else
           f"`num_starts` is read at line(s) {uses}: beams (num_starts > 1) are decoded with another cache than the one the same policy uses to score the same sequence as a single row",
           construct="AttentionModelDecoder._precompute_cache:reads-num_starts")
    acls = ctx.repo.get_class("rl4co/models/nn/attention.py", "PointerAttention")
    fm = acls.methods.get("_inner_mha")
    if fm is None:
        raise AnalysisError("PointerAttention._inner_mha not found")
    ctx.fn(fm)
    mask_param = [a for a in fm.params() if "mask" in a]
    if len(mask_param) != 1:
        raise AnalysisError(f"PointerAttention._inner_mha: mask parameter not identified ({mask_param})")
    mp = mask_param[0]
    RED = {"any", "all", "sum", "max", "min", "amax", "amin", "mean", "prod", "cumsum", "logical_or", "logical_and"}
    reds = []
    for n in ast.walk(fm.node):
        if isinstance(n, ast.Call) and isinstance(n.func, ast.Attribute) and n.func.attr in RED and any(isinstance(x, ast.Name) and x.id == mp for x in ast.walk(n.func.value)):
            reds.append(f"{ast.unparse(n)[:50]} (line {n.lineno})")
        if isinstance(n, ast.Call) and isinstance(n.func, ast.Attribute) and isinstance(n.func.value, ast.Name) and n.func.value.id == "torch" and n.func.attr in RED \
                and any(isinstance(x, ast.Name) and x.id == mp for a_ in n.args for x in ast.walk(a_)):
            reds.append(f"{ast.unparse(n)[:50]} (line {n.lineno})")
    ctx.ob("C13.j", "PointerAttention._inner_mha:per-query-mask-kept", not reds, fm.loc,
           f"`{mp}` reaches the attention only through reshaping" if not reds else
           f"`{mp}` is reduced before the attention: {reds[0]} -- the glimpse of a beam attends to nodes that are feasible for some OTHER beam of its instance; its logits differ from the single-row score of the same sequence",
           construct="PointerAttention._inner_mha:mask-reduced")


def run(ctx: Ctx):
    cls = ctx.repo.get_class(DEC, "BeamSearch")
    ctor_forwards(ctx, cls)
    # beam search re-indexes the rows of the state by beam parent at every step: whatever the policy modules keep on themselves
    # across calls is NOT re-indexed, so the scores of a beam would come from another beam's history (shared with C14.h)
    from . import C14 as _C14
    _n0 = len(ctx.obligations)
    _C14.stateless_forward(ctx)
    for _o in ctx.obligations[_n0:]:
        _o.rule = "C13.g"
    best_by_reward(ctx, cls)
    beams_scored_like_single_rows(ctx)
    running_scores_have_one_writer(ctx, cls)
    # ---------------- _make_beam_step
    fi, it, fr = analyse(ctx, cls, "_make_beam_step")
    # the intermediate values are recovered from the outputs (returned pair, beam_path.append, parent_beam_logprobs), not by local names
    ret0 = fr.ret
    items0 = ret0.items if isinstance(ret0, vg.Tup) else (list(ret0.args) if isinstance(ret0, vg.S) and ret0.op == "tuple" else [])
    ap0 = [e for e in it.events if e.kind == "methcall" and e.data[1] == "append"]
    L = {}
    if len(items0) == 2:
        L["selected"], L["batch_beam_idx"] = it.sym(items0[0]), it.sym(items0[1])
    if ap0 and ap0[0].data[2]:
        L["beam_parent"] = ap0[0].data[2][0]
    if isinstance(it.selfattrs.get("parent_beam_logprobs"), vg.S):
        L["logprobs_selected"] = it.selfattrs["parent_beam_logprobs"]
    sel0 = L.get("selected")
    if isinstance(sel0, vg.S) and sel0.op == "%":
        L["topk_ind"], L["num_nodes"] = sel0.args[0], sel0.args[1]
        tk0 = [n for n in vg.walk(L["topk_ind"]) if fnname(n) == "torch.topk"]
        if len(tk0) == 1:
            L["log_beam_prob_hstacked"] = tk0[0].args[1]
            hs0 = nf.strip(tk0[0].args[1])
            if fnname(hs0) == "torch.cat" and hs0.args[1].op == "meth" and hs0.args[1].args[1] == "split":
                L["log_beam_prob"] = hs0.args[1].args[0]
    need = ("selected", "batch_beam_idx", "beam_parent", "topk_ind", "num_nodes", "log_beam_prob_hstacked", "log_beam_prob")
    missing = [k for k in need if not isinstance(L.get(k), vg.S)]
    if missing:
        ctx.ob("C13.b", "_make_beam_step:decode", False, fi.loc,
               f"the beam step does not have the shape top-k over cat(score.split(B), 1) decoded with % and //: could not recover {missing} from its outputs", construct="BeamSearch._make_beam_step:decode")
        return
    rows_lp = lambda s: nf.dim_of(s) is not None and nf.dim_of(s)[1] == 0 and nf.dim_of(s)[0].op == "param" and nf.dim_of(s)[0].args[0] == fi.params()[1]
    ok, parent, why = flat_index_ok(L["batch_beam_idx"], rows_lp)
    ctx.ob("C13.a", "_make_beam_step:batch_beam_idx", ok and parent is nf.norm(L["beam_parent"]) , fi.loc,
           why + f"; parent is the decoded beam_parent: {parent is nf.norm(L['beam_parent'])}", construct="BeamSearch._make_beam_step:flat-index")
    hs = nf.strip(L["log_beam_prob_hstacked"])
    ok_h, why_h = False, "scores are not cat(split(B), dim=1)"
    if fnname(hs) == "torch.cat":
        src = hs.args[1]
        dim = [a.args[1] for a in hs.args[2:] if a.op == "kw" and a.args[0] == "dim"] or [a for a in hs.args[2:] if a.op == "const"]
        ok_h = src.op == "meth" and src.args[1] == "split" and is_batch_size(src.args[2], rows_lp) and dim and vg.is_const(dim[0], 1) and src.args[0] is L["log_beam_prob"]
        why_h = "cat(log_beam_prob.split(B), dim=1): beams of one instance side by side"
    ctx.ob("C13.b", "_make_beam_step:hstack", bool(ok_h), fi.loc, why_h, construct="BeamSearch._make_beam_step:hstack")
    lbp = nf.poly(L["log_beam_prob"])
    ok_s = {vg.show(a, 2) for a in lbp.atoms()} == {"logprobs", "self.parent_beam_logprobs"} and all(c == 1 for c, _ in lbp.monos())
    ctx.ob("C13.b", "_make_beam_step:score=logp+parent", ok_s, fi.loc, f"beam score = {lbp.show(2)}", construct="BeamSearch._make_beam_step:score")
    tk = [n for n in vg.walk(L["topk_ind"]) if fnname(n) == "torch.topk"]
    ok_t = len(tk) == 1 and tk[0].args[1] is L["log_beam_prob_hstacked"] and tk[0].args[2].op == "selfattr" and tk[0].args[2].args[0] == "beam_width" and \
        (any(a.op == "kw" and a.args[0] == "dim" and vg.is_const(a.args[1], 1) for a in tk[0].args[3:]) or (len(tk[0].args) > 3 and vg.is_const(tk[0].args[3], 1)))
    ctx.ob("C13.b", "_make_beam_step:topk", ok_t, fi.loc, "top-k over the stacked scores with beam_width on dim 1", construct="BeamSearch._make_beam_step:topk")
    ti = nf.strip(L["topk_ind"])
    ok_f = fnname(ti) == "torch.hstack" and fnname(ti.args[1]) == "torch.unbind" and vg.is_const(ti.args[1].args[2], 1)
    ls = nf.strip(L["logprobs_selected"]) if isinstance(L.get("logprobs_selected"), vg.S) else vg.const(None)
    ok_f = ok_f and fnname(ls) == "torch.hstack" and fnname(ls.args[1]) == "torch.unbind" and vg.is_const(ls.args[1].args[2], 1)
    ctx.ob("C13.b", "_make_beam_step:reflatten", ok_f, fi.loc, "hstack(unbind(., 1)): [B, W] -> [W*B] beam-major / batch-minor, for indices and scores alike", construct="BeamSearch._make_beam_step:reflatten")
    nn = L["num_nodes"]
    sel, par = L["selected"], nf.strip(L["beam_parent"])
    par = par.args[0] if par.op == "meth" and par.args[1] in ("int", "long") else par
    ok_d = sel.op == "%" and sel.args[0] is L["topk_ind"] and sel.args[1] is nn and par.op == "//" and par.args[0] is L["topk_ind"] and par.args[1] is nn and \
        nn.op == "sub" and vg.is_const(nn.args[1], 1)
    ctx.ob("C13.b", "_make_beam_step:decode", ok_d, fi.loc, f"node = ind % num_nodes, parent = ind // num_nodes with num_nodes = logprobs.shape[1]: {ok_d}", construct="BeamSearch._make_beam_step:decode")
    ap = [e for e in it.events if e.kind == "methcall" and e.data[1] == "append"]
    ok_a = len(ap) == 1 and e_is_attr(ap[0], "beam_path") and ap[0].data[2][0] is L["beam_parent"] and not ap[0].conds
    ctx.ob("C13.d", "_make_beam_step:beam_path.append", ok_a, fi.loc, "beam_path receives exactly the decoded parents, once per step", construct="BeamSearch._make_beam_step:beam_path")
    pb = it.selfattrs.get("parent_beam_logprobs")
    tk_vals = [n for n in (vg.walk(pb) if isinstance(pb, vg.S) else []) if n.op == "sub" and vg.is_const(n.args[1], 0) and fnname(n.args[0]) == "torch.topk" and n.args[0] is tk[0]] if tk else []
    ctx.ob("C13.d", "_make_beam_step:parent_beam_logprobs", isinstance(pb, vg.S) and bool(tk_vals), fi.loc, "parent scores are overwritten with the values of that same top-k (the selected scores)", construct="BeamSearch._make_beam_step:parent-scores")
    ret = fr.ret
    items = ret.items if isinstance(ret, vg.Tup) else list(ret.args)
    ctx.ob("C13.c", "_make_beam_step:return", it.sym(items[0]) is sel and it.sym(items[1]) is L["batch_beam_idx"], fi.loc, "returns (selected, batch_beam_idx)", construct="BeamSearch._make_beam_step:return")
    # ---------------- _step
    fi, it, fr = analyse(ctx, cls, "_step")
    mk = [f for f in it.call_frames if f.func is not None and f.func.name == "_make_beam_step"]
    if len(mk) != 1:
        raise AnalysisError("BeamSearch._step: _make_beam_step call not found")
    r = mk[0].ret
    items = r.items if isinstance(r, vg.Tup) else list(r.args)
    bbi = it.sym(items[1])
    pn = fi.params()
    lp, msk = fr.locals.get(pn[1]), fr.locals.get(pn[2])
    tdv = fr.locals.get(pn[3])
    ok = isinstance(lp, vg.S) and lp.op == "sub" and lp.args[1] is bbi and lp.args[0].op == "param" and \
        isinstance(msk, vg.S) and msk.op == "sub" and msk.args[1] is bbi and msk.args[0].op == "param" and \
        isinstance(tdv, vg.TD) and tdv.parent is not None and tdv.parent[1] is bbi
    ctx.ob("C13.c", "_step:same-index", ok, fi.loc, "td, logprobs and mask are all re-indexed by the batch_beam_idx returned by _make_beam_step", construct="BeamSearch._step:reindex")
    ret = fr.ret
    items = ret.items if isinstance(ret, vg.Tup) else list(ret.args)
    ok = it.sym(items[0]) is lp and it.sym(items[1]) is it.sym(mk[0].ret.items[0] if isinstance(mk[0].ret, vg.Tup) else mk[0].ret.args[0]) and items[2] is tdv
    ctx.ob("C13.c", "_step:return", ok, fi.loc, "returns the re-indexed log-probs, the selected nodes and the re-indexed state", construct="BeamSearch._step:return")
    guards = [e for e in it.events if e.kind == "assert" and pn[2] in vg.params_of(e.data)]
    pol = set().union(*[nf.bool_signs(e.data, pn[2]) for e in guards]) if guards else set()
    sel_ = it.sym(items[1])
    on_sel = bool(guards) and all(any(n is sel_ for n in vg.walk(e.data)) and any(n is msk for n in vg.walk(e.data)) for e in guards)
    ctx.ob("C13.c", "_step:infeasibility-guard", bool(guards) and pol == {+1} and on_sel and all(not e.conds for e in guards), fi.loc,
           f"unconditionally asserts that the selected node is feasible under the re-indexed mask (sign of the mask in the assertion {sorted(pol)}, needs +1; "
           f"on the returned selection and the re-indexed mask: {on_sel})", construct="BeamSearch._step:guard")
    # ---------------- _backtrack
    fi, it, fr = analyse(ctx, cls, "_backtrack")
    rows_a = lambda s: nf.dim_of(s) is not None and nf.dim_of(s)[1] == 0 and fnname(nf.dim_of(s)[0]) == "torch.stack"
    # the flat index is the row index of the appended reads; the parent pointer is the loop-carried value that starts at beam_path[-1]
    ap_b = [e for e in it.events if e.kind == "methcall" and e.data[1] == "append" and e.data[2] and e.data[2][0].op == "sub" and e.data[2][0].args[1].op == "tuple"]
    if not ap_b:
        raise AnalysisError("BeamSearch._backtrack: aligned reads `stack[idx, k]` not found")
    body = ap_b[0].data[2][0].args[1].args[0]
    ok, parent, why = flat_index_ok(body, rows_a)
    cps = [v for v in fr.locals.values() if isinstance(v, vg.S) and v.op == "loop" and v.args[0].op == "sub" and vg.is_const(v.args[0].args[1], -1)
           and v.args[0].args[0].op == "selfattr" and v.args[0].args[0].args[0] == "beam_path"]
    cp = cps[0] if cps else vg.const(None)
    rec_ok = False
    if cp.op == "loop":
        init, nxt = cp.args
        init_ok = init.op == "sub" and vg.is_const(init.args[1], -1) and init.args[0].op == "selfattr" and init.args[0].args[0] == "beam_path"
        nxt_ok = nxt.op == "sub" and nxt.args[1] is body and nxt.args[0].op == "sub" and nxt.args[0].args[0].op == "selfattr" and nxt.args[0].args[0].args[0] == "beam_path" and nxt.args[0].args[1].op == "iter"
        rec_ok = init_ok and nxt_ok and parent is not None and parent.op == "loopvar"
    ctx.ob("C13.a", "_backtrack:batch_beam_idx", ok, fi.loc, why, construct="BeamSearch._backtrack:flat-index")
    ctx.ob("C13.d", "_backtrack:parent-recurrence", rec_ok, fi.loc, "cur_parent starts at beam_path[-1] and follows beam_path[k][batch_beam_idx]", construct="BeamSearch._backtrack:recurrence")
    ap = [e for e in it.events if e.kind == "methcall" and e.data[1] == "append"]
    ok_r = len(ap) == 2
    for e in ap:
        v = e.data[2][0]
        ok_r = ok_r and v.op == "sub" and v.args[1].op == "tuple" and v.args[1].args[0] is body and v.args[1].args[1].op == "iter" and fnname(v.args[0]) == "torch.stack"
    srcs = {vg.show(e.data[2][0].args[0], 3) for e in ap} if ok_r else set()
    ctx.ob("C13.d", "_backtrack:reads", ok_r and len(srcs) == 2, fi.loc, f"aligned sequences/log-probs read {sorted(srcs)} at [batch_beam_idx, k]", construct="BeamSearch._backtrack:reads")
    import ast
    loop = [n for n in ast.walk(fi.node) if isinstance(n, ast.For)]
    ok_l = len(loop) == 1 and ast.unparse(loop[0].iter).replace(" ", "") == "reversed(range(len(self.beam_path)-1))"
    ctx.ob("C13.d", "_backtrack:loop-range", ok_l, fi.loc, "for k in reversed(range(len(self.beam_path) - 1))", construct="BeamSearch._backtrack:loop-range")
    # ---------------- _select_best_beam
    fi, it, fr = analyse(ctx, cls, "_select_best_beam")
    rows_l = lambda s: nf.dim_of(s) is not None and nf.dim_of(s)[1] == 0 and nf.dim_of(s)[0].op == "param" and nf.dim_of(s)[0].args[0] == fi.params()[1]
    r0 = fr.ret
    it0 = r0.items if isinstance(r0, vg.Tup) else (list(r0.args) if isinstance(r0, vg.S) else [])
    first = it.sym(it0[0]) if it0 and not isinstance(it0[0], (vg.TD, vg.Tup)) else None
    if not (isinstance(first, vg.S) and first.op == "sub"):
        raise AnalysisError("BeamSearch._select_best_beam: does not return logprobs[<index>]")
    fl = first.args[1]
    p = nf.poly(fl)
    mon = p.monos()
    ok_e, why_e = False, "flat index is not arange(B) + idx * B"
    if len(mon) == 2 and all(c == 1 for c, _ in mon):
        seq = [fs for c, fs in mon if len(fs) == 1]
        prod = [fs for c, fs in mon if len(fs) == 2]
        if seq and prod:
            ar = nf.strip(seq[0][0][0])
            plain = [a for a in ar.args[1:] if not (a.op == "kw")] if fnname(ar) == "torch.arange" else []
            s_ok = len(plain) == 1 and is_batch_size(plain[0], rows_l)
            b_ok = any(is_batch_size(a, rows_l) for a, _ in prod[0])
            idx = [a for a, _ in prod[0] if not is_batch_size(a, rows_l)]
            i_ok = False
            if idx:
                mx = idx[0]
                i_ok = mx.op == "sub" and vg.is_const(mx.args[1], 1) and mx.args[0].op == "meth" and mx.args[0].args[1] == "max" and vg.is_const(mx.args[0].args[2], 1)
                if i_ok:
                    ct = mx.args[0].args[0]
                    i_ok = fnname(ct) == "torch.cat" and ct.args[1].op == "meth" and ct.args[1].args[1] == "split" and is_batch_size(ct.args[1].args[2], rows_l) and vg.is_const(ct.args[2], 1)
            ok_e = s_ok and b_ok and i_ok
            why_e = f"arange(B): {s_ok}; idx * B: {b_ok}; idx = argmax over dim 1 of cat(rewards.split(B), 1): {i_ok}"
    ctx.ob("C13.e", "_select_best_beam:flat-index", ok_e, fi.loc, why_e, construct="BeamSearch._select_best_beam:flat-index")
    ret = fr.ret
    items = ret.items if isinstance(ret, vg.Tup) else list(ret.args)
    ok_g = all(isinstance(it.sym(x), vg.S) for x in items[:2]) and it.sym(items[0]).op == "sub" and it.sym(items[0]).args[1] is fl and it.sym(items[1]).op == "sub" and it.sym(items[1]).args[1] is fl and \
        isinstance(items[2], vg.TD) and items[2].parent is not None and items[2].parent[1] is fl
    ctx.ob("C13.e", "_select_best_beam:gather", ok_g, fi.loc, "logprobs, actions and td are gathered with the same flat index", construct="BeamSearch._select_best_beam:gather")


def e_is_attr(e, name):
    b = e.data[0]
    return b.op == "selfattr" and b.args[0] == name


def ctor_forwards(ctx: Ctx, cls):
    """C13.f the beams are ranked and reported under the policy's own step distribution: BeamSearch.__init__ hands its decoding
    options (temperature, top-k / top-p, tanh clipping, masking) to DecodingStrategy.__init__ unchanged.  It may ADD options
    (store_all_logp) but must not remove or overwrite one the caller configured."""
    import ast
    fi = cls.methods.get("__init__")
    if fi is None:
        raise AnalysisError("BeamSearch.__init__ not found")
    ctx.fn(fi)
    kwname = fi.node.args.kwarg.arg if fi.node.args.kwarg else None
    if kwname is None:
        raise AnalysisError("BeamSearch.__init__ has no **kwargs to forward")
    OPTIONS = {"temperature", "top_p", "top_k", "mask", "mask_logits", "tanh_clipping", "num_starts", "multistart", "multisample", "num_samples", "select_start_nodes_fn"}
    removed, overwritten, forwarded = [], [], False
    for n in ast.walk(fi.node):
        if isinstance(n, ast.Call) and isinstance(n.func, ast.Attribute) and isinstance(n.func.value, ast.Name) and n.func.value.id == kwname \
                and n.func.attr in ("pop", "clear", "popitem"):
            removed.append(ast.unparse(n))
        if isinstance(n, ast.Delete):
            for t in n.targets:
                if isinstance(t, ast.Subscript) and isinstance(t.value, ast.Name) and t.value.id == kwname:
                    removed.append(ast.unparse(n))
        if isinstance(n, ast.Assign):
            for t in n.targets:
                if isinstance(t, ast.Subscript) and isinstance(t.value, ast.Name) and t.value.id == kwname and isinstance(t.slice, ast.Constant) and t.slice.value in OPTIONS:
                    overwritten.append(ast.unparse(n))
                if isinstance(t, ast.Name) and t.id == kwname:
                    overwritten.append(ast.unparse(n)[:60])
        if isinstance(n, ast.Call) and isinstance(n.func, ast.Attribute) and n.func.attr == "__init__" and isinstance(n.func.value, ast.Call) and getattr(n.func.value.func, "id", "") == "super":
            forwarded = any(k.arg is None and isinstance(k.value, ast.Name) and k.value.id == kwname for k in n.keywords)
    ok = forwarded and not removed and not overwritten
    ctx.ob("C13.f", "BeamSearch.__init__:options-forwarded", ok, fi.loc,
           f"super().__init__(**{kwname}) receives the caller's decoding options unchanged" if ok else
           f"decoding options are not forwarded unchanged: forwarded {forwarded}, removed {removed}, overwritten {overwritten}", construct="BeamSearch.__init__:forward-options")


def run_thorough(ctx: Ctx):
    from ..selftest.corpus import for_prop
    from ..selftest.runner import run_corpus
    run_corpus(ctx, for_prop("C13"))
