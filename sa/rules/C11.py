"""C11 -- returned log-likelihoods are those of the returned actions.  Decided clauses:

C11.a  buffer pairing: on every path of DecodingStrategy.step / pre_decoder_hook (base and
       BeamSearch) `self.actions` and `self.logprobs` receive the same number of appends under
       the same conditions
C11.b  same-value agreement in `step`: the action written to td["action"], appended to the
       action buffer and used as gather index of the step log-prob is one value; the log-probs
       handed to `_step` are the processed ones; get_log_likelihood gathers on the last axis with
       the returned actions, only zeroes masked entries and sums over the step axis
C11.c  evaluate replay: ConstructivePolicy.forward feeds actions[..., step] with the loop
       counter that starts at 0 and is incremented once per iteration after env.step; the
       `evaluate` decode type is forced when actions are given; Evaluate._step returns the given action
C11.d  forced multistart first move contributes a zeros_like log-prob
C11.e  PPO: old log-likelihood computed under no_grad, stored and re-read under one key; the
       replay is invoked with the stored actions; ratio = exp(sum(new) - old)
"""
from __future__ import annotations

import ast

from .. import nf, vg
from ..core import Ctx
from ..model import AnalysisError

FLOOR = 34
EXPLANATION = (
    "Static analysis of rl4co/utils/decoding.py (DecodingStrategy.step, pre_decoder_hook, BeamSearch.pre_decoder_hook, "
    "get_log_likelihood, Evaluate), ConstructivePolicy.forward and PPO.shared_step: append pairing of the action/log-prob "
    "buffers per path condition, identity of the value written to td['action'] / buffered / used as gather index, gather axis "
    "and masking in get_log_likelihood, replay indexing actions[..., step] with a counter incremented once per iteration after "
    "env.step, zero log-prob of forced starts, PPO no_grad/old-key/ratio sign. Structural necessary conditions for every "
    "trajectory; the numerical round trip (same per-step log-probs on replay) is not decided."
)
RULE = "one obligation per structural clause"
DEC = "rl4co/utils/decoding.py"
BASE = "rl4co/models/common/constructive/base.py"
PPO = "rl4co/models/rl/ppo/ppo.py"


def appends(it, attr):
    return [e for e in it.events if e.kind == "methcall" and e.data[1] == "append" and e.data[0].op == "selfattr" and e.data[0].args[0] == attr]


def action_sets(it):
    """values written by `td.set("action", v)` / td["action"] = v (TD objects or opaque td values)"""
    out = [e.data[2] for e in it.events if e.kind == "tdwrite" and e.data[1] == "action"]
    out += [e.data[2][1] for e in it.events if e.kind == "methcall" and e.data[1] in ("set", "set_") and len(e.data[2]) >= 2 and vg.is_const(e.data[2][0], "action")]
    return out


def condkey(e, base=0):
    return tuple(nf.norm(c).id for c in e.conds)


def pairing(ctx: Ctx, cls, meth, attrs, label):
    fi = cls.methods[meth]
    ctx.fn(fi)
    it = vg.Interp(ctx.repo, cls, inline_policy=lambda f, a: False)
    it.run_function(fi)
    per = {a: sorted(condkey(e) for e in appends(it, a)) for a in attrs}
    counts = {a: len(v) for a, v in per.items()}
    ok = len({tuple(v) for v in per.values()}) == 1 and all(counts.values())
    ctx.ob("C11.a", f"{label}:append-pairing", ok, fi.loc,
           f"appends per buffer {counts}; identical path conditions: {ok}" + ("" if ok else " -- the action and log-prob buffers get out of step on some path"),
           construct=f"{cls.name}.{meth}:append-pairing")
    return it


def entropy_of_the_processed_distribution(ctx: Ctx):
    """C11.m a policy that evaluates given actions (L2D's PPO policies) reports the entropy of the distribution the actions were
    scored under: every `Categorical(...)` built in a function that calls `process_logits` takes the value RETURNED by
    process_logits (directly or through `.exp()`), not the raw `logits` handed to it -- process_logits only masks its argument
    in place when no clipping re-binds it, so `Categorical(logits=logits)` is the distribution of the unclipped, unmasked
    scores whenever tanh clipping is on."""
    n = 0
    for name, mi in sorted(ctx.repo.modules.items()):
        if not name.startswith("rl4co.models"):
            continue
        for fn_ in [f for c in mi.classes.values() for f in c.methods.values()] + list(mi.functions.values()):
            outs, raws = set(), set()
            for st in ast.walk(fn_.node):
                if isinstance(st, ast.Assign) and isinstance(st.value, ast.Call) and (getattr(st.value.func, "id", None) == "process_logits" or getattr(st.value.func, "attr", None) == "process_logits"):
                    outs |= {t.id for t in st.targets if isinstance(t, ast.Name)}
                    if st.value.args:
                        raws |= {x.id for x in ast.walk(st.value.args[0]) if isinstance(x, ast.Name)}
            if not outs:
                continue
            for c in ast.walk(fn_.node):
                if isinstance(c, ast.Call) and (getattr(c.func, "id", None) == "Categorical" or getattr(c.func, "attr", None) == "Categorical"):
                    n += 1
                    ops_ = list(c.args) + [k.value for k in c.keywords]
                    names = {x.id for o in ops_ for x in ast.walk(o) if isinstance(x, ast.Name)}
                    ok = bool(names & outs) and not (names & (raws - outs))
                    ctx.ob("C11.m", f"{fn_.qualname}:entropy-of-the-processed-distribution", ok, fn_.loc,
                           f"Categorical({', '.join(ast.unparse(o)[:30] for o in ops_)}): built from the value process_logits returned ({sorted(outs)}) -- {ok}",
                           construct=f"{fn_.qualname}:categorical-source")
    if n < 1:
        raise AnalysisError(f"Categorical constructions next to process_logits lost: {n} < 1 (L2DPolicy4PPO.evaluate expected)")


def step_distribution_per_row(ctx: Ctx):
    """C11.j the step distribution of an instance is computed from its own row of logits: the logit pipeline (process_logits,
    top-k / top-p filters), the log-likelihood and the entropy contain no reduction over the batch axis, row pick or
    flattening.  A `top_k` clamped to the smallest number of feasible actions found in ANY row gives an instance another
    support -- and other log-probabilities -- in another batch composition (PPO mini-batches, evaluation alone).  Batch-axis
    engine (sa/batchaxis) on the returned values of the helpers, callees inlined."""
    from .. import batchaxis as ba
    from ..model import alpha_key
    helpers = [("rl4co/utils/decoding.py", n_) for n_ in ("process_logits", "modify_logits_for_top_k_filtering", "modify_logits_for_top_p_filtering", "get_log_likelihood")] + \
              [("rl4co/utils/ops.py", "calculate_entropy")]
    for path, name in helpers:
        fi = ctx.repo.get_function(path, name)
        ctx.fn(fi)
        it = vg.Interp(ctx.repo, None, inline_policy=lambda f, a: True, inline_depth=4)
        fr = it.run_function(fi)
        per = {}
        for _, v in fr.returns:
            v = it.sym(v)
            if isinstance(v, vg.S):
                for h in ba.hits(v):
                    if h.kind in ("reduce-all", "row-pick", "flatten", "squeeze-all"):
                        per[h.node.id] = h
        # reductions whose operand is a scalar setting (not data) are not hits; what remains mixes rows
        bad = []
        for h in per.values():
            site = vg.site_of(h.node)
            fn_, text = ctx.repo.locate(*site) if site else ("?", vg.show(h.node, 3))
            bad.append((h.kind, fn_, text.replace('"', "'")))
        if not bad:
            ctx.ob("C11.j", f"{name}:per-row", True, fi.loc, "no batch-global operation reaches the returned value")
        for kind, fn_, text in bad:
            ctx.ob("C11.j", f"{name}:{fn_}:{kind}", False, fi.loc,
                   f"{kind} `{text[:80]}` in {fn_} reaches the value returned by {name}: the step distribution / log-likelihood of an instance depends on its batch-mates",
                   construct=f"{fn_}:{kind}:{alpha_key(text)}")


def run(ctx: Ctx):
    normalised_sites(ctx)
    act_evaluate_agree(ctx)
    entropy_as_recorded(ctx)
    # the recorded log-probabilities are those of the distribution the caller configured: the dispatchers / strategy
    # constructors hand temperature, clipping, top-k and top-p on unchanged (shared with C10.f)
    from . import C10 as _C10
    _n0 = len(ctx.obligations)
    _C10.dispatch_rules(ctx)
    for _o in ctx.obligations[_n0:]:
        _o.rule = "C11.i"
    # ... and DecodingStrategy.step applies them in EVERY mode (an evaluation pass re-scores sampled actions: a temperature that
    # is skipped for `evaluate` gives other log-probabilities than the ones the actions were drawn with) -- shared with C10.d
    _n0 = len(ctx.obligations)
    _C10.step_forwarding(ctx, "C11.k")
    # the sampler draws from exp(logprobs) and greedy takes its argmax (C10.c): the log-likelihood returned is the one of the
    # distribution the actions came from
    _n1 = len(ctx.obligations)
    _C10.selection(ctx)
    for _o in ctx.obligations[_n1:]:
        _o.rule = "C11.l"
    step_distribution_per_row(ctx)
    entropy_of_the_processed_distribution(ctx)
    ds = ctx.repo.get_class(DEC, "DecodingStrategy")
    bs = ctx.repo.get_class(DEC, "BeamSearch")
    it = pairing(ctx, ds, "step", ("actions", "logprobs"), "DecodingStrategy.step")
    # ---- b: same value
    fi = ds.methods["step"]
    acts = appends(it, "actions")
    lps = appends(it, "logprobs")
    tdw = action_sets(it)
    ok, why = False, "could not resolve the step's action / log-prob values"
    if len(acts) == 1 and len(lps) == 1 and len(tdw) == 1:
        a = acts[0].data[2][0]
        w = tdw[0]
        lp = lps[0].data[2][0]
        # lp = phi(store_all_logp, logprobs, gather_by_index(logprobs, a, dim=1))
        gathers = [n for n in vg.walk(lp) if n.op == "call" and isinstance(n.args[0], vg.S) and n.args[0].op == "func" and n.args[0].args[0].endswith(":gather_by_index")]
        g_ok = len(gathers) == 1 and gathers[0].args[2] is a and any(x.op == "kw" and x.args[0] == "dim" and vg.is_const(x.args[1], 1) for x in gathers[0].args[3:])
        src_ok = False
        if gathers:
            src = gathers[0].args[1]
            # logprobs returned by self._step(processed_logprobs, ...)
            src_ok = src.op == "sub" and vg.is_const(src.args[1], 0) and a.op == "sub" and vg.is_const(a.args[1], 1) and a.args[0] is src.args[0]
            call = src.args[0] if src.op == "sub" else None
            if src_ok and call is not None:
                plain = [x for x in call.args[1:] if isinstance(x, vg.S) and x.op not in ("kw", "self") and not (x.op == "const")]
                if call.op == "meth":
                    plain = plain[1:]
                first = plain[0] if plain else None
                src_ok = first is not None and first.op == "call" and first.args[0].op == "func" and first.args[0].args[0].endswith(":process_logits") \
                    and "_step" in vg.show(call.args[0] if call.op == "call" else call, 2)
        ok = a is w and g_ok and src_ok
        why = f"td['action'] is the buffered action: {a is w}; step log-prob gathered at that same action on dim 1: {g_ok}; log-probs come from _step(process_logits(...)): {src_ok}"
    ctx.ob("C11.b", "DecodingStrategy.step:same-action", ok, fi.loc, why, construct="DecodingStrategy.step:action-agreement")
    # ---- get_log_likelihood
    gl = ctx.repo.get_function(DEC, "get_log_likelihood")
    ctx.fn(gl)
    it2 = vg.Interp(ctx.repo, None)
    fr = it2.run_function(gl)
    rets = [v for c, v in fr.returns]
    ok, why = False, "unexpected return structure"
    if len(rets) == 2:
        summed = [r for r in rets if r.op == "meth" and r.args[1] == "sum"]
        plain = [r for r in rets if not (r.op == "meth" and r.args[1] == "sum")]
        if summed and plain:
            same = summed[0].args[0] is plain[0] and vg.is_const(summed[0].args[2], 1)
            body = plain[0]
            gath = [n for n in vg.walk(body) if n.op == "meth" and n.args[1] == "gather"]
            g_ok = len(gath) == 1 and vg.is_const(gath[0].args[2], -1) and "actions" in vg.params_of(gath[0].args[3]) and nf.strip(gath[0].args[0]).op == "param"
            stores = [n for n in vg.walk(body) if n.op == "store"]
            m_ok = len(stores) == 1 and vg.is_const(stores[0].args[2], 0) and nf.strip(stores[0].args[1], True).op in ("inv", "not") and "mask" in vg.params_of(stores[0].args[1])
            # the gather is taken exactly when the log-probs still carry the action axis (rank 3)
            d_ok = False
            for ph in [n for n in vg.walk(body) if n.op in ("phi", "ifexp")] if gath else []:
                in_t = any(n is gath[0] for n in vg.walk(ph.args[1]))
                in_f = any(n is gath[0] for n in vg.walk(ph.args[2]))
                if in_t == in_f:
                    continue
                conj = [ph.args[0]]
                while any(c.op == "and" for c in conj):
                    conj = [x for c in conj for x in (c.args if c.op == "and" else [c])]
                for c in conj:
                    if c.op in ("==", "!=") and any(vg.is_const(x, 3) for x in c.args) and \
                            any(isinstance(x, vg.S) and ((x.op == "meth" and x.args[1] in ("dim", "ndimension")) or (x.op == "attr" and x.args[1] == "ndim")) and nf.strip(x.args[0]).op == "param" for x in c.args):
                        d_ok = d_ok or (in_t and c.op == "==") or (in_f and c.op == "!=" and len(conj) == 1)
            sum_cond = [c for c, v in fr.returns if v is summed[0]]
            s_ok = len(sum_cond) == 1 and isinstance(sum_cond[0], vg.S) and sum_cond[0].op == "param" and sum_cond[0].args[0] == "return_sum"
            ok = same and g_ok and m_ok and d_ok and s_ok
            why = f"sum over the step axis of the same tensor: {same}; gather(-1, actions): {g_ok}, taken iff the log-probs have rank 3: {d_ok}; only `~mask` entries are zeroed: {m_ok}; the sum is returned iff return_sum: {s_ok}"
    ctx.ob("C11.b", "get_log_likelihood", ok, gl.loc, why, construct="get_log_likelihood:structure")
    # ---- d: forced start
    it3 = pairing(ctx, ds, "pre_decoder_hook", ("actions", "logprobs"), "DecodingStrategy.pre_decoder_hook")
    z = appends(it3, "logprobs")
    okz = bool(z) and all(all(nf._fn(alt) == "torch.zeros_like" for _, alt in _alts(e.data[2][0])) for e in z)
    ctx.ob("C11.d", "pre_decoder_hook:forced-start-logprob=0", okz, ds.methods["pre_decoder_hook"].loc, "the forced first move appends torch.zeros_like(...) as its log-prob", construct="DecodingStrategy.pre_decoder_hook:zero-logprob")
    a0 = appends(it3, "actions")
    tdw = action_sets(it3)
    oka = len(a0) == 1 and len(tdw) == 1 and a0[0].data[2][0] is tdw[0]
    ctx.ob("C11.d", "pre_decoder_hook:forced-start-action", oka, ds.methods["pre_decoder_hook"].loc, "the buffered first action is the one written to td['action'] before env.step", construct="DecodingStrategy.pre_decoder_hook:action")
    it4 = pairing(ctx, bs, "pre_decoder_hook", ("actions", "logprobs", "beam_path"), "BeamSearch.pre_decoder_hook")
    # ---- c: evaluate replay
    cp = ctx.repo.get_function(BASE, "ConstructivePolicy.forward")
    ctx.fn(cp)
    ok, why = False, "decoding loop not found"
    from ..model import canon_counters
    cpn = canon_counters(cp.node)
    for w in [n for n in ast.walk(cpn) if isinstance(n, ast.While)]:
        body = w.body
        incs = [(i, b) for i, b in enumerate(body) if isinstance(b, ast.AugAssign) and isinstance(b.op, ast.Add) and isinstance(b.target, ast.Name) and isinstance(b.value, ast.Constant) and b.value.value == 1]
        envstep = [i for i, b in enumerate(body) if any(isinstance(n, ast.Call) and isinstance(n.func, ast.Attribute) and n.func.attr == "step" and isinstance(n.func.value, ast.Name) and n.func.value.id == "env" for n in ast.walk(b))]
        subs = [n for b in body for n in ast.walk(b) if isinstance(n, ast.Subscript) and isinstance(n.value, ast.Name) and n.value.id == "actions"]
        if len(incs) == 1 and len(envstep) == 1 and len(subs) == 1:
            ctr = incs[0][1].target.id
            idx = subs[0].slice
            idx_ok = isinstance(idx, ast.Tuple) and len(idx.elts) == 2 and isinstance(idx.elts[0], ast.Constant) and idx.elts[0].value is Ellipsis and isinstance(idx.elts[1], ast.Name) and idx.elts[1].id == ctr
            init = [n for n in cpn.body if isinstance(n, ast.Assign) and any(isinstance(t, ast.Name) and t.id == ctr for t in n.targets)]
            init_ok = len(init) == 1 and isinstance(init[0].value, ast.Constant) and init[0].value.value == 0
            order_ok = incs[0][0] > envstep[0]
            ok = idx_ok and init_ok and order_ok
            why = f"action=actions[..., {ctr}]: {idx_ok}; {ctr} starts at 0: {init_ok}; incremented once, after env.step: {order_ok}"
    ctx.ob("C11.c", "ConstructivePolicy.forward:replay-index", ok, cp.loc, why, construct="ConstructivePolicy.forward:replay-index")
    itf = vg.Interp(ctx.repo, cp.cls, inline_policy=lambda f, a: False)
    frf = itf.run_function(cp)
    from ..units import roots_of as _roots
    forced = False
    seen_f = set()
    for r_ in _roots(itf, frf):
        for n in vg.walk(r_):
            if n.id in seen_f:
                continue
            seen_f.add(n.id)
            if (nf._fn(n) or "").endswith(":get_decoding_strategy") and len(n.args) >= 2:
                d = n.args[1]
                if d.op in ("phi", "ifexp"):
                    t, a_, b_ = d.args
                    given = t.op == "isnot" and t.args[0].op == "param" and t.args[0].args[0] == "actions" and vg.is_none(t.args[1])
                    absent = t.op == "is" and t.args[0].op == "param" and t.args[0].args[0] == "actions" and vg.is_none(t.args[1])
                    forced = forced or (given and vg.is_const(a_, "evaluate")) or (absent and vg.is_const(b_, "evaluate"))
    ctx.ob("C11.c", "ConstructivePolicy.forward:evaluate-forced", forced, cp.loc, "decode_type = 'evaluate' whenever actions are given", construct="ConstructivePolicy.forward:evaluate")
    reass = [n for n in ast.walk(cp.node) if isinstance(n, (ast.Assign, ast.AugAssign)) and any(isinstance(t, ast.Name) and t.id == "decoding_kwargs" for t in (n.targets if isinstance(n, ast.Assign) else [n.target]))]
    gds = [n for n in ast.walk(cp.node) if isinstance(n, ast.Call) and ast.unparse(n.func) == "get_decoding_strategy"]
    fwd = len(gds) == 1 and any(k.arg is None and ast.unparse(k.value) == "decoding_kwargs" for k in gds[0].keywords)
    ctx.ob("C11.c", "ConstructivePolicy.forward:decoding-kwargs-forwarded", fwd and not reass, cp.loc,
           "the caller's decoding options (num_starts, select_best, ...) reach the decoding strategy unchanged in every mode, including the `evaluate` replay" if (fwd and not reass) else
           "decoding_kwargs is rebound / filtered before get_decoding_strategy: a replay with the returned actions runs under other decoding options than the rollout",
           construct="ConstructivePolicy.forward:decoding-kwargs")
    itc = vg.Interp(ctx.repo, cp.cls, inline_policy=lambda f, a: False)
    frc = itc.run_function(cp)
    roots = [v for v in list(frc.locals.values()) + [frc.ret] if isinstance(v, vg.S)]
    glls, seen_ = [], set()
    for r_ in roots:
        for n in vg.walk(r_):
            if n.id not in seen_ and (nf._fn(n) or "").endswith(":get_log_likelihood"):
                glls.append(n)
            seen_.add(n.id)
    okll = okpost = False
    if len(glls) == 1 and len(glls[0].args) >= 3:
        lp_, ac_ = glls[0].args[1], glls[0].args[2]
        # both are items 0 / 1 of ONE post_decoder_hook(...) result
        okpost = lp_.op == "sub" and ac_.op == "sub" and lp_.args[0] is ac_.args[0] and vg.is_const(lp_.args[1], 0) and vg.is_const(ac_.args[1], 1) and \
            lp_.args[0].op == "meth" and lp_.args[0].args[1] == "post_decoder_hook"
        # ... and the `actions` entry of the output dict is that same tensor
        outs = [n for r_ in roots for n in vg.walk(r_) if n.op == "store" and vg.is_const(n.args[1], "actions")] + \
            [it_ for r_ in roots for n in vg.walk(r_) if n.op == "dict" for it_ in n.args if it_.op == "item" and vg.is_const(it_.args[0], "actions")]
        okll = bool(outs) and all((o.args[2] if o.op == "store" else o.args[1]) is ac_ for o in outs)
    ctx.ob("C11.c", "ConstructivePolicy.forward:ll-of-returned-actions", okll and okpost, cp.loc,
           "log_likelihood = get_log_likelihood(logprobs, actions, ...) with (logprobs, actions) from post_decoder_hook, the same `actions` that is returned", construct="ConstructivePolicy.forward:ll-actions")
    # ---- e: PPO
    ppo = ctx.repo.get_function(PPO, "PPO.shared_step")
    ctx.fn(ppo)
    from ..units import roots_of
    it5 = vg.Interp(ctx.repo, ppo.cls, inline_policy=lambda f, a: False)
    fr5 = it5.run_function(ppo)
    sets = {}
    for e in it5.events:
        if e.kind == "methcall" and e.data[1] == "set" and len(e.data[2]) == 2 and e.data[2][0].op == "const":
            sets[e.data[2][0].args[0]] = (e.data[0], e.data[2][1])

    def unng(x):
        while isinstance(x, vg.S) and x.op == "nograd":
            x = x.args[0]
        return x

    def policy_call(x):
        x = unng(x)
        return isinstance(x, vg.S) and x.op == "meth" and x.args[0].op == "self" and x.args[1] == "policy"
    old_lp, old_ac = sets.get("logprobs"), sets.get("action")
    key_ok = old_in_nograd = False
    old_call = None
    if old_lp and old_ac:
        vl, va = old_lp[1], old_ac[1]
        key_ok = vl.op == "sub" and va.op == "sub" and vg.is_const(vl.args[1], "log_likelihood") and vg.is_const(va.args[1], "actions") and vl.args[0] is va.args[0] \
            and policy_call(vl.args[0]) and old_lp[0] is old_ac[0]
        old_in_nograd = key_ok and vl.args[0].op == "nograd"
        old_call = unng(vl.args[0]) if key_ok else None
    # the replay: a second policy call (with gradients) that is fed `<mini-batch>['action']`, and the ratio built from its log-likelihood
    seen_, calls, exps = set(), [], []
    for r_ in roots_of(it5, fr5):
        for n in vg.walk(r_):
            if n.id in seen_:
                continue
            seen_.add(n.id)
            if policy_call(n) and unng(n) is not old_call and n.op != "nograd":
                calls.append(n)
            if nf._fn(n) == "torch.exp":
                exps.append(n)
    kw_ok, r_ok, why_r = False, False, "ratio exp(sum(new log-likelihood) - stored log-prob) not found"
    replay = [c for c in calls if any(isinstance(k, vg.S) and k.op == "kw" and k.args[0] == "actions" for k in c.args[2:])]
    if len(replay) == 1:
        rc = replay[0]
        av = [k.args[1] for k in rc.args[2:] if isinstance(k, vg.S) and k.op == "kw" and k.args[0] == "actions"][0]
        kw_ok = av.op == "sub" and vg.is_const(av.args[1], "action")
        mb = av.args[0] if kw_ok else None
        for ex in exps:
            p = nf.poly(ex.args[1])
            mon = p.monos()
            pos = [fs for c, fs in mon if c == 1]
            neg = [fs for c, fs in mon if c == -1]
            if len(mon) == 2 and len(pos) == 1 and len(neg) == 1 and len(pos[0]) == 1 and len(neg[0]) == 1:
                new, old = pos[0][0][0], neg[0][0][0]
                new_ok = new.op == "meth" and new.args[1] == "sum" and any(n.op == "sub" and vg.is_const(n.args[1], "log_likelihood") and nf.norm(n.args[0]) is nf.norm(rc) for n in vg.walk(new))
                old_ok = old.op == "sub" and vg.is_const(old.args[1], "logprobs") and mb is not None and nf.norm(old.args[0]) is nf.norm(mb)
                if new_ok and old_ok:
                    r_ok = True
                why_r = f"ratio = exp({p.show(3)}): new log-likelihood of the replay call: {new_ok}; old log-prob read from the same mini-batch under 'logprobs': {old_ok}"
    ctx.ob("C11.e", "PPO.shared_step:old-ll-no-grad", old_in_nograd, ppo.loc, "the rollout whose log-likelihood / actions are stored is produced inside torch.no_grad()", construct="PPO.shared_step:no-grad")
    ctx.ob("C11.e", "PPO.shared_step:stored-keys", key_ok, ppo.loc, "td.set('logprobs', out['log_likelihood']) and td.set('action', out['actions']) store items of ONE policy rollout on one TensorDict", construct="PPO.shared_step:stored-keys")
    ctx.ob("C11.e", "PPO.shared_step:replay-actions", kw_ok, ppo.loc, "the replay policy call is fed actions=<mini-batch>['action'] (the key the rollout's actions were stored under)", construct="PPO.shared_step:replay-actions")
    ctx.ob("C11.e", "PPO.shared_step:ratio", r_ok, ppo.loc, why_r, construct="PPO.shared_step:ratio")
    # Evaluate._step
    ev = ctx.repo.get_class(DEC, "Evaluate")
    fi = ev.methods["_step"]
    ctx.fn(fi)
    it6 = vg.Interp(ctx.repo, ev)
    fr6 = it6.run_function(fi)
    r = fr6.ret
    items = r.items if isinstance(r, vg.Tup) else list(r.args)
    oke = it6.sym(items[1]).op == "param" and it6.sym(items[1]).args[0] == "action" and it6.sym(items[0]).op == "param" and it6.sym(items[0]).args[0] == "logprobs"
    ctx.ob("C11.c", "Evaluate._step", oke, fi.loc, "returns (logprobs, action, td) unchanged", construct="Evaluate._step:return")


def _alts(s, g=()):
    if isinstance(s, vg.S) and s.op in ("phi", "ifexp"):
        yield from _alts(s.args[1], g + (s.args[0],))
        yield from _alts(s.args[2], g + (s.args[0],))
    else:
        yield g, s


NORMALISED_SITES = [
    # (file, class or None, function): bundled decoders that pick actions with decode_logprobs(scores, mask) and report the
    # gathered scores as log-likelihood
    ("rl4co/models/zoo/mdam/decoder.py", "MDAMDecoder", "forward"),
    ("rl4co/models/zoo/ptrnet/decoder.py", "Decoder", "forward"),
    ("rl4co/models/zoo/matnet/decoder.py", "MultiStageFFSPDecoder", "forward"),
    ("rl4co/models/zoo/eas/decoder.py", None, "forward_eas"),
]


def _normalised(n, depth=0):
    """the value is a log-probability vector: log_softmax(...) / process_logits(...), possibly with entries overwritten by a
    constant (-inf on masked actions) or indexed; any arithmetic on top of it (temperature, clipping) breaks normalisation"""
    if depth > 40 or not isinstance(n, vg.S):
        return False
    while n.op == "meth" and n.args[1] in ("clone", "to", "float", "contiguous", "detach", "squeeze", "unsqueeze", "view", "reshape"):
        n = n.args[0]
    fn = nf._fn(n) or ""
    if fn in ("torch.log_softmax", "torch.nn.functional.log_softmax", "F.log_softmax") or fn.endswith(":process_logits") or fn.endswith(".log_softmax"):
        return True
    if n.op == "meth" and n.args[1] == "log_softmax":
        return True
    if n.op in ("phi", "ifexp"):
        return all(_normalised(x, depth + 1) for x in n.args[1:])
    if n.op == "sub":
        return _normalised(n.args[0], depth + 1)
    if n.op == "store":
        return _normalised(n.args[0], depth + 1) and vg.is_const(nf.strip(n.args[2])) or (_normalised(n.args[0], depth + 1) and n.args[2].op in ("neg", "call", "const"))
    if n.op == "meth" and n.args[1] in ("masked_fill", "masked_fill_"):
        return _normalised(n.args[0], depth + 1)
    return False


def normalised_sites(ctx: Ctx):
    """C11.f the scores a bundled decoder samples from (decode_logprobs) and later gathers into the log-likelihood are
    normalised log-probabilities -- the output of log_softmax / process_logits, not raw (clipped, masked) logits.  With raw
    logits sampling is still from softmax(logits) (multinomial renormalises) but the reported log-likelihood lacks the
    -logsumexp term: it is not a log-probability and the REINFORCE gradient built on it is biased."""
    n_sites = 0
    for path, cls, meth in NORMALISED_SITES:
        pol = (lambda f, a: True if f.name in ("decode_logprobs",) else None)
        if cls:
            c = ctx.repo.get_class(path, cls)
            fi = c.methods.get(meth)
            it = vg.Interp(ctx.repo, c, inline_policy=pol)
        else:
            fi = ctx.repo.get_function(path, meth)
            it = vg.Interp(ctx.repo, None, inline_policy=pol)
        if fi is None:
            raise AnalysisError(f"{path}: {cls}.{meth} not found")
        ctx.fn(fi)
        it.run_function(fi)
        args = [e.data.locals.get("logprobs") for e in it.events if e.kind == "call-enter" and e.data.name.split(":")[-1].split(".")[-1] == "decode_logprobs"]
        if not args:
            raise AnalysisError(f"{path}: {meth} no longer calls decode_logprobs (update NORMALISED_SITES)")
        for i, a in enumerate(args):
            n_sites += 1
            ok = _normalised(a)
            ctx.ob("C11.f", f"{cls or ''}.{meth}:decode_logprobs#{i}:normalised", ok, fi.loc,
                   "scores are log_softmax / process_logits output" if ok else
                   f"decode_logprobs receives {vg.show(a, 3)[:160]}: raw (clipped / masked) logits, never passed through log_softmax -- the gathered values reported as "
                   "log-likelihood are not log-probabilities", construct=f"{cls or path.split('/')[-2]}.{meth}:decode_logprobs:normalised")
    if n_sites < 4:
        raise AnalysisError(f"only {n_sites} decode_logprobs sites analysed (floor 4)")


def act_evaluate_agree(ctx: Ctx):
    """C11.g stepwise PPO (L2DPolicy4PPO): the log-probability stored when an action is taken (`act`) and the one recomputed for
    the same state in the update (`evaluate`) come from process_logits with the same options, so the ratio starts at one."""
    path = "rl4co/models/zoo/l2d/policy.py"
    cls = ctx.repo.get_class(path, "L2DPolicy4PPO")
    opts = {}
    for m in ("act", "evaluate"):
        fi = cls.methods.get(m)
        if fi is None:
            raise AnalysisError(f"L2DPolicy4PPO.{m} not found")
        ctx.fn(fi)
        calls = [n for n in ast.walk(fi.node) if isinstance(n, ast.Call) and (getattr(n.func, "id", "") == "process_logits" or getattr(n.func, "attr", "") == "process_logits")]
        if len(calls) != 1:
            raise AnalysisError(f"L2DPolicy4PPO.{m}: expected one process_logits call, found {len(calls)}")
        c = calls[0]
        opts[m] = {k.arg: ast.unparse(k.value) for k in c.keywords if k.arg is not None}
        opts[m].update({f"#{i}": "..." for i, _ in enumerate(c.args)})
    same = opts["act"] == opts["evaluate"]
    ctx.ob("C11.g", "L2DPolicy4PPO:act-and-evaluate-same-distribution", same, cls.methods["act"].loc,
           f"process_logits options: act {opts['act']} / evaluate {opts['evaluate']}", construct="L2DPolicy4PPO:act-evaluate-options")


def entropy_as_recorded(ctx: Ctx):
    """C11.h the entropy returned next to the log-likelihood is -sum p log p of the step rows AS RECORDED: the all-zero row that
    stands for a forced first move (multi-start, beam search) then contributes exp(0) * 0 = 0.  A helper that re-normalises the
    rows (Categorical(logits=...), softmax, log_softmax) turns that row into a uniform distribution and adds log(num_actions)."""
    fi = ctx.repo.get_function("rl4co/utils/ops.py", "calculate_entropy")
    ctx.fn(fi)
    it = vg.Interp(ctx.repo, None, inline_policy=lambda f, a: False)
    fr = it.run_function(fi)
    ret = fr.ret
    if not isinstance(ret, vg.S):
        raise AnalysisError("calculate_entropy: no return value")
    renorm = [n for n in vg.walk(ret) if (nf._fn(n) or "").split(".")[-1] in ("Categorical", "softmax", "log_softmax", "logsumexp", "OneHotCategorical")
              or (n.op == "meth" and n.args[1] in ("softmax", "log_softmax", "logsumexp", "entropy"))]
    # -(exp(L) * L) summed over the action axis
    form = False
    for n in vg.walk(ret):
        if n.op == "meth" and n.args[1] == "sum" and nf.axis_is(n, -1):
            try:
                p = nf.poly(n.args[0])
            except Exception:
                continue
            if len(p.terms) == 1:
                (mono, coef), = p.terms.items()
                atoms = [nf.Poly.ATOMS[a] for a, _ in mono]
                exps = [a for a in atoms if (a.op == "meth" and a.args[1] == "exp") or nf._fn(a) == "torch.exp"]
                if coef in (1, -1) and len(atoms) == 2 and len(exps) == 1:
                    base = exps[0].args[0] if exps[0].op == "meth" else exps[0].args[1]
                    other = [a for a in atoms if a is not exps[0]][0]
                    same = nf.norm(base) is nf.norm(other) or nf.strip(base) is nf.strip(other)
                    # overall sign: the coefficient inside the sum times the coefficient the sum enters the result with
                    outer = None
                    for m in vg.walk(ret):
                        if m.op == "meth" and m.args[1] == "sum" and m is not n:
                            try:
                                q = nf.poly(m.args[0])
                            except Exception:
                                continue
                            for mono2, c2 in q.terms.items():
                                if len(mono2) == 1 and nf.Poly.ATOMS[mono2[0][0]] is nf.norm(n):
                                    outer = c2
                    if outer is None:
                        q = nf.poly(ret)
                        for mono2, c2 in q.terms.items():
                            if len(mono2) == 1 and nf.Poly.ATOMS[mono2[0][0]] is nf.norm(n):
                                outer = c2
                    form = same and outer is not None and coef * outer == -1
    ok = form and not renorm
    ctx.ob("C11.h", "calculate_entropy:rows-as-recorded", ok, fi.loc,
           f"entropy = sum over actions of -(exp(L) * L) on the recorded rows: {form}; re-normalising call in the computation: {[vg.show(x, 2)[:50] for x in renorm][:2]}" +
           ("" if ok else " -- a forced first move (all-zero row) no longer contributes zero"),
           construct="calculate_entropy:rows-as-recorded")


def run_thorough(ctx: Ctx):
    from ..selftest.corpus import for_prop
    from ..selftest.runner import run_corpus
    run_corpus(ctx, for_prop("C11"))
