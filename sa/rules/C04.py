"""C04 -- an instance's outcome is independent of its batch-mates (env side).

Batch-axis non-interference: no batch-global operation (reduction over the batch axis, row
pick, flattening nonzero, batch size as data) flows into a TensorDict cell written by
_reset/_step, into the returned mask, into the returned reward, or into a checker assertion
(below its own whole-batch `.all()`), unless its operand is proven row-uniform by the rule
or the construct is a named, reasoned exception."""
from __future__ import annotations

from .. import batchaxis as ba
from .. import nf, vg
from ..core import Ctx
from ..envs import EnvA
from ..model import AnalysisError
from ..tables import routing as T
from ..model import alpha_key
from ..tables.batch_exceptions import EXCEPTIONS

FLOOR = 107
EXPLANATION = (
    "Static batch-axis non-interference over _reset/_step/get_action_mask/_get_reward/check_solution_validity of all 21 env "
    "classes (resolved through inheritance and helpers): the value graph of every written TensorDict cell, returned mask, "
    "returned reward and assert condition is searched for batch-global operations (reductions without dim / over dim 0 / "
    "over a negative dim equal to the constructor-known rank, row picks x[0] and batch_to_scalar, nonzero/flatten, batch size "
    "as data). A hit is accepted only if its operand is proven row-uniform (all writes of the key are constant fills or key+const) "
    "or it is a named exception with a reason. Decides absence of cross-row data/control flow at the level of tensor-op "
    "semantics; value-level idempotence of accumulators under post-finish padding is not decided."
)
RULE = "one obligation per (env, slot, sink); violation = batch-global op reaching a sink without proof of row-uniformity or a reasoned exception"


def uniform_keys(env: EnvA) -> set:
    """Keys whose value is the same for every row at every step: reset = constant fill,
    step = key + constant (or not written)."""
    out = set()
    rs, st = env.slot("_reset"), env.slot("_step")
    if rs is None or rs.td is None or st is None or st.td is None:
        return out
    for k, v in rs.td.cells.items():
        v0 = nf.strip(v)
        fn = nf._fn(v0)
        if fn not in ("torch.zeros", "torch.ones", "torch.full"):
            continue
        if fn == "torch.full":
            plain = [a for a in v0.args[1:] if not (isinstance(a, vg.S) and a.op == "kw")]
            # full(shape, c): one value for every row when c is a literal or a configuration attribute (self.x / self.generator.x)
            def config_scalar(x):
                x = nf.strip(x)
                return vg.is_const(x) or x.op == "selfattr" or (x.op == "attr" and nf.strip(x.args[0]).op == "selfattr")
            if len(plain) < 2 or not config_scalar(plain[1]):
                continue
        new = st.td.cells.get(k)
        if new is None or (new.op == "cell0" and new.args[1] == k):
            out.add(k)
            continue
        d = nf.poly(new) - nf.poly(vg.mk("cell0", st.td.name, k))
        if d.is_const():
            out.add(k)
    return out


def strip_top_all(s):
    """The assert's own whole-batch reduction and connectives are not data flow."""
    s = nf.strip(s, bool_ctx=True)
    c = nf._connective(s)
    if c is not None:
        out = []
        for k in c[1]:
            out += strip_top_all(k)
        return out
    if s.op in ("inv", "not"):
        return strip_top_all(s.args[0])
    if s.op == "meth" and s.args[1] in ("all", "any") and len(s.args) == 2:
        return strip_top_all(s.args[0])
    if nf._fn(s) in ("torch.all", "torch.any") and len(s.args) == 2:
        return strip_top_all(s.args[1])
    return [s]


def locate(ctx: Ctx, h: ba.Hit):
    site = vg.site_of(h.node)
    if site is None:
        # untagged node (operator expression): locate through the first located operand
        for n in vg.walk(h.node):
            st = vg.site_of(n)
            if st is not None:
                fn, _ = ctx.repo.locate(*st)
                return fn, vg.show(h.node, 3).replace('"', "'"), f"{st[0]}:{st[1]}"
        return None, vg.show(nf.norm(h.node), 4), ""
    fn, text = ctx.repo.locate(*site)
    return fn, text.replace('"', "'"), f"{site[0]}:{site[1]}"


def tuple_funcs(repo):
    """Repo functions that return tuples: `f(...)[0]` is tuple indexing, not a row pick."""
    import ast as _ast
    out = set()
    for mi in repo.modules.values():
        fis = list(mi.functions.values()) + [m for c in mi.classes.values() for m in c.methods.values()]
        for fi in fis:
            rets = [n for n in _ast.walk(fi.node) if isinstance(n, _ast.Return) and n.value is not None]
            if rets and all(isinstance(r.value, _ast.Tuple) for r in rets):
                out.add(fi.fq)
    return out


def value_wrappers(root, node) -> set:
    """ids of `node` and of the nodes of `root` that carry it on unchanged in rank: phi / ifexp alternatives,
    the base of a masked store, loop carried values, no-grad wrappers"""
    W = {node.id}
    order = list(vg.walk(root))
    changed = True
    while changed:
        changed = False
        for n in order:
            if n.id in W:
                continue
            if n.op in ("phi", "ifexp") and any(isinstance(a, vg.S) and a.id in W for a in n.args[1:]):
                W.add(n.id); changed = True
            elif n.op == "store" and isinstance(n.args[0], vg.S) and n.args[0].id in W:
                W.add(n.id); changed = True
            elif n.op in ("loop", "nograd", "loopvar") and any(isinstance(a, vg.S) and a.id in W for a in n.args):
                W.add(n.id); changed = True
            elif n.op == "meth" and n.args[1] in ("clone", "detach", "contiguous", "float", "to") and isinstance(n.args[0], vg.S) and n.args[0].id in W:
                W.add(n.id); changed = True
    return W


def rank_sensitive_consumer(root, node) -> bool:
    """Does a dimension-less squeeze reach an operation whose meaning depends on the rank?"""
    SENS = {"torch.cat", "torch.stack", "torch.bmm", "torch.matmul", "torch.concat", "einops.rearrange", "einops.repeat", "einops.reduce"}
    REDUCE = {"sum", "mean", "max", "min", "amax", "amin", "argmax", "argmin", "prod", "std", "var", "softmax", "log_softmax", "cumsum", "any", "all", "norm", "topk", "sort", "unsqueeze", "squeeze", "flatten", "split", "chunk", "unbind", "select", "index_select", "narrow"}
    W = value_wrappers(root, node)
    for n in vg.walk(root):
        kids = list(vg.children(n))
        direct = any(k.id in W for k in kids) or any(c.id in W for k in kids if k.op in ("tuple", "list") for c in vg.children(k))
        if not direct or n.id in W:
            continue
        fn = nf._fn(n)
        if fn in SENS or n.op == "@" or (n.op == "meth" and n.args[1] in ("gather", "scatter", "scatter_", "bmm", "matmul", "expand", "view", "reshape", "permute", "transpose")):
            return True
        if n.op == "attr" and n.args[1] in ("ndim", "shape"):
            return True
        if n.op == "meth" and n.args[1] in ("dim", "size"):
            return True
        # a reduction / axis operation of the squeezed value that names a NON-NEGATIVE axis: the axis numbering shifts when the batch axis vanishes
        if n.op == "meth" and n.args[1] in REDUCE and isinstance(n.args[0], vg.S) and n.args[0].id in W:
            for x in n.args[2:]:
                d = x.args[1] if isinstance(x, vg.S) and x.op == "kw" and x.args[0] in ("dim", "axis") else (x if isinstance(x, vg.S) and x.op == "const" else None)
                if isinstance(d, vg.S) and d.op == "const" and isinstance(d.args[0], int) and not isinstance(d.args[0], bool) and d.args[0] >= 0:
                    return True
                break
    return False


_ALPHA_TABLES = {}


def alpha_table(table):
    """exception table re-keyed by the rename / mirror invariant form of its source text"""
    k = id(table)
    if k not in _ALPHA_TABLES:
        _ALPHA_TABLES[k] = {(fn, kind, alpha_key(txt)): why for (fn, kind, txt), why in table.items()}
    return _ALPHA_TABLES[k]


def classify(ctx: Ctx, h: ba.Hit, root, uni, tfuncs, exceptions, per_row, reduced_over_all=False):
    """-> (status, reason, function, text, where); status in ok | bad"""
    fn, text, where = locate(ctx, h)
    if h.kind == "row-pick" and h.node.op == "sub":
        b = nf.strip(h.node.args[0])
        if b.op == "call" and isinstance(b.args[0], vg.S) and b.args[0].op == "func" and b.args[0].args[0] in tfuncs:
            return "ok", "tuple indexing of a function returning a tuple", fn, text, where
    if h.kind == "squeeze-all" and not rank_sensitive_consumer(root, h.node):
        return "ok", "dimension-less squeeze feeds only rank-insensitive arithmetic", fn, text, where
    deps_c, deps_p = vg.cells_of(h.operand), vg.params_of(h.operand)
    if deps_c and deps_c <= uni and not deps_p and h.kind in ("reduce-all", "row-pick"):
        return "ok", f"operand is row-uniform: every write of {sorted(deps_c)} is a constant fill or key + const", fn, text, where
    if h.kind == "rank-broadcast":
        # [B] op [B, 1] -> [B, B] mixes rows only if BOTH operands vary across rows: when one of them is row-uniform (a constant
        # fill such as the normalised capacity 1.0, or the common step counter) every column of the result repeats the row's own value
        n0 = h.node
        ops_ = [x for x in (n0.args if n0.op in ba.ELEMENTWISE else (n0.args[1:] if n0.op == "call" else [n0.args[0]] + list(n0.args[2:]))) if isinstance(x, vg.S) and not ba.is_scalarish(x)]
        for x in ops_:
            dc, dp = vg.cells_of(x), vg.params_of(x)
            # the uniform operand must be the LOW-rank ([B]) one: result[r, c] = f(high[r], u) is constant along each row.  If
            # the uniform operand is the [B, 1] one, result[r, c] = f(u, low[c]): every row holds the values of ALL instances
            if dc and dc <= uni and not dp and x is not h.operand and nf.strip(x) is not nf.strip(h.operand):
                return "ok", f"the rank-1 operand of the rank-mismatched broadcast is row-uniform ({sorted(dc)}): the [B, B] result repeats each row's own value", fn, text, where
            if dc and dc <= uni and not dp and reduced_over_all:
                # every row of the [B, B] result is the same vector of per-instance values, and the only consumers are assertions
                # over ALL entries: the verdict is that of the per-instance vector
                return "ok", f"the [B, 1] operand is row-uniform ({sorted(dc)}) and the result only feeds assertions over all entries", fn, text, where
    if fn in per_row:
        return "ok", per_row[fn], fn, text, where
    why = alpha_table(exceptions).get((fn, h.kind, alpha_key(text)))
    if why is not None:
        return "ok", "exception: " + why, fn, text, where
    return "bad", h.why, fn, text, where


def batch_rows(ctx: Ctx, rid="C04.a", envs=None, sink_ok=None, meths=("_reset", "_step", "get_action_mask", "_get_reward", "check_solution_validity")):
    """C04.a engine; other properties call it for the sinks they rely on being computed row by row (`sink_ok(env, method, sink)`
    selects the sinks, `envs` the environments)."""
    from ..tables.batch_exceptions import PER_ROW_FUNCTIONS
    n_hits = 0
    tfuncs = tuple_funcs(ctx.repo)
    used_exceptions = set()
    for cname, path in T.ALL_ENVS.items():
        if envs is not None and cname not in envs:
            continue
        env = EnvA(ctx.repo, path, cname)
        ranks = ba.RankFacts()
        rs = env.slot("_reset")
        if rs is None or rs.td is None:
            raise AnalysisError(f"{cname}._reset not resolved")
        ranks.learn_from_reset(rs.td)
        from ..envs import generator_slot
        g, gsl = generator_slot(ctx.repo, env.cls)
        if gsl is not None and gsl.td is not None:
            gr = ba.RankFacts()
            gr.learn_from_reset(gsl.td)
            # reset cells computed from the incoming (generated) instance inherit their rank through the expression
            for k, v in rs.td.cells.items():
                if k in ranks.cell_rank:
                    continue
                r_in = gr.rank(v)
                if r_in is not None:
                    ranks.cell_rank[k] = r_in
                    if gr.unit_last(v):
                        ranks.cell_unit_last.add(k)
        st0 = env.slot("_step")
        if st0 is not None and st0.td is not None:
            # a state cell keeps its rank across steps (TorchRL specs fix the shapes of state keys)
            ranks.forced = getattr(ranks, "forced", {})
            for k, v in st0.td.cells.items():
                if k in ranks.cell_rank and not (v.op == "cell0" and v.args[1] == k):
                    ranks.forced[v.id] = ranks.cell_rank[k]
                    ranks.forced[nf.strip(v).id] = ranks.cell_rank[k]
            for k, v in st0.td.cells.items():
                if k not in ranks.cell_rank and not (v.op == "cell0" and v.args[1] == k):
                    rk = ranks.rank(v)
                    if rk is not None:
                        ranks.cell_rank[k] = rk
        uni = uniform_keys(env)
        for meth in meths:
            if meth in ("get_action_mask", "check_solution_validity") and not env.own(meth):
                continue
            sl = env.slot(meth)
            if sl is None:
                continue
            ctx.fn(sl.fi)
            for f in sl.it.call_frames:
                if f.func is not None:
                    ctx.fn(f.func)
            probs = sl.problems()
            if probs:
                raise AnalysisError(f"{cname}.{meth}: unhandled constructs {probs[:3]}")
            sinks = []
            if meth in ("_reset", "_step") and sl.td is not None:
                for k, v in sorted(sl.td.cells.items()):
                    if not (v.op == "cell0" and v.args[1] == k):
                        sinks.append((f"cell:{k}", v))
            if meth in ("get_action_mask", "_get_reward") and isinstance(sl.fr.ret, vg.S):
                sinks.append(("return", sl.fr.ret))
            if meth == "check_solution_validity":
                for i, e in enumerate(sl.events("assert")):
                    for j, part in enumerate(strip_top_all(e.data)):
                        sinks.append((f"assert@{getattr(e.node, 'lineno', i)}", part))
            if sink_ok is not None:
                sinks = [(k, v) for k, v in sinks if sink_ok(cname, meth, k)]
                if not sinks:
                    continue
            ranks.learn_loop_invariants()
            per_hit = {}
            for sink, v in sinks:
                for h in ba.hits(v, ranks):
                    ent = per_hit.setdefault(h.node.id, [h, v, []])
                    ent[2].append(sink)
            n_hits += len(per_hit)
            bad = 0
            for h, root, snks in per_hit.values():
                st, why, fn, text, where = classify(ctx, h, root, uni, tfuncs, EXCEPTIONS, PER_ROW_FUNCTIONS,
                                                    reduced_over_all=all(str(x).startswith("assert@") for x in snks))
                if st == "ok":
                    ctx.note(f"{cname}.{meth}: {h.kind} `{text}` in {fn} -> {sorted(set(snks))[:4]}: {why}")
                    if why.startswith("exception"):
                        used_exceptions.add((fn, h.kind, text))
                    continue
                bad += 1
                ctx.ob(rid, f"{cname}.{meth}:{fn}:{h.kind}", False, where or sl.where,
                       f"{h.kind} `{text}` in {fn}: {why}. It flows into {sorted(set(snks))[:6]} of {cname}.{meth}: "
                       f"what is computed for one instance depends on the other rows of the batch",
                       construct=f"{fn}:{h.kind}:{alpha_key(text)}")
            if not bad:
                ctx.ob(rid, f"{cname}.{meth}", True, sl.where, f"{len(sinks)} sinks, {len(per_hit)} batch-global ops, all justified")
        if rid == "C04.a":
            ctx.sample({"env": cname, "row_uniform_keys": sorted(uni), "known_ranks": dict(sorted(ranks.cell_rank.items()))})
    return n_hits, used_exceptions


def run(ctx: Ctx):
    n_hits, used_exceptions = batch_rows(ctx)
    ctx.extra["batch_global_ops_seen"] = n_hits
    ctx.extra["exceptions_used"] = sorted(map(list, used_exceptions))
    # C04.c: a finished instance keeps being stepped (with the padding action) while its batch-mates run on; a reward read from
    # state accumulators must not move during those steps (shared with C03.d)
    from .C03 import padding_invariance
    menv = EnvA(ctx.repo, T.ALL_ENVS["MTSPEnv"], "MTSPEnv")
    msl = menv.slot("_step")
    ctx.fn(msl.fi)
    padding_invariance(ctx, "C04.c", msl, msl.cell("current_length"))
    guarded_callees(ctx)
    ffsp_tables_per_reset(ctx)
    # C04.j: padding steps repeat a node; the legs they add must have length exactly zero (no smoothing constant in the helpers)
    from .C03 import exact_distances
    exact_distances(ctx, "C04.j", [])
    alone_steppable(ctx)
    rewards_read_frozen_state(ctx)
    episode_state_lives_in_the_tensordict(ctx)
    positive_control(ctx)


def ffsp_tables_per_reset(ctx: Ctx):
    """C04.d FFSP keeps its index tables on the env object; rows are mapped to machine permutations by `idx // bs`.  Every
    `_reset` must (re)bind `bs` to the batch it is resetting -- unconditionally: a `set_bs` that only runs the first time leaves
    the row mapping of an earlier, smaller batch in force, and rows beyond it read another permutation."""
    import ast
    env = EnvA(ctx.repo, T.ALL_ENVS["FFSPEnv"], "FFSPEnv")
    fi = env.resolve("_reset")
    ctx.fn(fi)
    calls = []
    for i, st in enumerate(fi.node.body):
        for n in ast.walk(st):
            if isinstance(n, ast.Call) and isinstance(n.func, ast.Attribute) and n.func.attr == "set_bs":
                calls.append((st, n))
    top_level = [c for st, c in calls if isinstance(st, ast.Expr) and st.value is c]
    from_batch = [c for c in top_level if c.args and "batch_size" in ast.unparse(c.args[0])]
    ok = len(from_batch) >= 1
    ctx.ob("C04.d", "FFSPEnv._reset:tables-bound-to-this-batch", ok, fi.loc,
           "tables.set_bs(batch_size[0]) runs unconditionally in every _reset" if ok else
           f"set_bs is {'conditional' if calls else 'missing'} in _reset: the row -> machine-table mapping `idx // bs` keeps the batch size of an earlier reset",
           construct="FFSPEnv._reset:tables-set_bs")


def guarded_callees(ctx: Ctx):
    """C04.b -- the 'guarded control' exceptions rely on the callee touching rows only through
    the row mask it receives.  Checked for FJSPEnv._transit_to_next_time(step_complete, td):
    the clock is advanced by torch.where(step_complete, candidate, old) and the unmasked
    per-row candidate flows into no other cell."""
    env = EnvA(ctx.repo, T.ALL_ENVS["FJSPEnv"], "FJSPEnv")
    sl = env.slot("_transit_to_next_time")
    if sl is None or sl.td is None:
        raise AnalysisError("FJSPEnv._transit_to_next_time not resolved")
    ctx.fn(sl.fi)
    t = nf.strip(sl.cell("time"))
    ok, why, cand = False, "td['time'] is not updated by torch.where(step_complete, candidate, td['time'])", None
    if nf._fn(t) == "torch.where" and len(t.args) == 4:
        cond, cand, old = t.args[1:]
        ok = vg.params_of(cond) == {"step_complete"} and not vg.cells_of(cond) and nf.strip(old).op == "cell0" and nf.strip(old).args[1] == "time"
        why = f"time' = where({vg.show(cond, 2)}, candidate, {vg.show(old, 2)})"
    ctx.ob("C04.b", "FJSPEnv._transit_to_next_time:clock-row-masked", ok, sl.where, why, construct="FJSPEnv._transit_to_next_time:clock-mask")
    if cand is not None:
        leaks = []
        for k, v in sorted(sl.td.cells.items()):
            if k == "time" or (v.op == "cell0" and v.args[1] == k):
                continue
            tid = t.id
            for n in vg.walk(v, stop=lambda n_: n_.id == tid):
                if n is cand:
                    leaks.append(k)
                    break
        ctx.ob("C04.b", "FJSPEnv._transit_to_next_time:candidate-confined", not leaks, sl.where,
               ("the unmasked candidate time is consumed only by the row-masked clock update" if not leaks else
                f"the unmasked per-row candidate `{vg.show(cand, 3)}` also flows into {leaks}: rows that do not advance their clock are changed "
                f"whenever a batch-mate triggers the transition"),
               construct="FJSPEnv._transit_to_next_time:candidate-leak:" + ",".join(leaks))


ENV_OBJECT_STATE = {
    ("FFSPEnv", "_step", "step_cnt"): "a diagnostic step counter; the index tables it feeds are rebuilt per reset (C04.d checks that they are per reset and per batch size)",
    ("FFSPEnv", "_reset", "step_cnt"): "reset of the diagnostic counter",
    ("FFSPEnv", "_reset", "tables"): "index tables rebuilt at every reset for the batch size of that reset (C04.d)",
}


def episode_state_lives_in_the_tensordict(ctx: Ctx):
    """C04.h what `_reset / _step / get_action_mask / _get_reward / check_solution_validity` compute for an episode is kept in the
    TensorDict, not on the environment object: one env object serves batches of different sizes and several episodes in flight
    (training batch, validation batch, baseline rollouts).  A row-index vector cached on `self` at the first step has the length
    of THAT batch; a threshold stored on `self` at reset belongs to the LAST reset.  No assignment to `self.<attr>` in those
    methods of any env class (MRO inside the repo), except the listed, reasoned FFSP entries."""
    import ast
    METHS = ("_reset", "_step", "get_action_mask", "_get_reward", "check_solution_validity", "step", "reset", "get_reward", "_torchrl_step")
    n, used = 0, set()
    for cname, path in T.ALL_ENVS.items():
        ci = ctx.repo.get_class(path, cname)
        for c in [x for x in ctx.repo.mro(ci) if hasattr(x, "methods")]:
            for mn in METHS:
                fi = c.methods.get(mn)
                if fi is None:
                    continue
                n += 1
                bad = []
                for st in ast.walk(fi.node):
                    tg = st.targets if isinstance(st, ast.Assign) else ([st.target] if isinstance(st, (ast.AugAssign, ast.AnnAssign)) else [])
                    for t in tg:
                        for t_ in (t.elts if isinstance(t, (ast.Tuple, ast.List)) else [t]):
                            base = t_
                            while isinstance(base, ast.Subscript):
                                base = base.value
                            if isinstance(base, ast.Attribute) and isinstance(base.value, ast.Name) and base.value.id == "self":
                                key = (c.name, mn, base.attr)
                                if key in ENV_OBJECT_STATE:
                                    used.add(key)
                                else:
                                    bad.append(base.attr)
                if bad and cname == c.name or (bad and c.name not in T.ALL_ENVS):
                    ctx.ob("C04.h", f"{c.name}.{mn}:episode-state-on-the-env-object", False, fi.loc,
                           f"`self.{bad[0]}` is assigned in {c.name}.{mn}: the value outlives the episode and the batch it was computed for (another batch size, a second episode in flight "
                           "on the same env object read it)", construct=f"{c.name}.{mn}:writes-self:{bad[0]}")
                elif cname == c.name:
                    ctx.ob("C04.h", f"{c.name}.{mn}:episode-state-in-the-tensordict", True, fi.loc, "no attribute of the env object is assigned")
    ctx.extra["env_object_state_exceptions_used"] = sorted(map(list, used))
    if n < 60:
        raise AnalysisError(f"env methods lost: {n} < 60")


def rewards_read_frozen_state(ctx: Ctx):
    """C04.f / C04.g an instance that finished early keeps being stepped with feasible padding actions; its reward must be read
    from state those steps leave untouched.
    f) FLP, MCP: `_step` freezes the selection of a finished instance (C08.h) but the padding actions are ordinary feasible,
       not-yet-chosen items -- a reward rebuilt from the `actions` argument counts them as opened facilities / chosen sets.
       The value returned by `_get_reward` must not depend on `actions`.
    g) FFSP: the reward written by `_step` is the makespan of the RECORDED schedule (start + duration over the real jobs); the
       live counters (`time_idx`, `machine_wait_step`, ...) keep moving during padded wait steps.  Shared with C03 / C07.f."""
    from . import C03
    for cname in ("FLPEnv", "MCPEnv"):
        env = EnvA(ctx.repo, T.ALL_ENVS[cname], cname)
        sl = env.slot("_get_reward")
        if sl is None or not isinstance(sl.fr.ret, vg.S):
            raise AnalysisError(f"{cname}._get_reward not resolved")
        ctx.fn(sl.fi)
        uses = any(n.op == "param" and n.args[0] == "actions" for n in vg.walk(sl.fr.ret))
        ctx.ob("C04.f", f"{cname}._get_reward:reads-the-recorded-selection", not uses, sl.where,
               "the reward is a function of the state only" if not uses else
               "the reward is rebuilt from the `actions` argument: the feasible padding actions of an instance that finished before its batch-mates are counted as selected items",
               construct=f"{sl.fi.qualname}:reward-from-actions")
    # f, second clause: every cell the reward reads is either an instance constant (never rewritten by `_step`) or the frozen
    # selection itself -- `weights` / `distances` keep being rewritten by padding steps (the padded set's members are covered,
    # the padded facility's row enters the minimum) even though the selection is frozen
    for cname in ("FLPEnv", "MCPEnv"):
        env = EnvA(ctx.repo, T.ALL_ENVS[cname], cname)
        sl = env.slot("_get_reward")
        st_ = env.slot("_step")
        rewritten = {k for k, v in st_.td.cells.items() if not (v.op == "cell0" and v.args[1] == k)} - {"chosen"}
        live = sorted(vg.cells_of(sl.fr.ret) & rewritten)
        ctx.ob("C04.f", f"{cname}._get_reward:reads-frozen-cells", not live, sl.where,
               f"cells read: {sorted(vg.cells_of(sl.fr.ret))}; rewritten by every step (padding steps included): {live or 'none of them'}",
               construct=f"{sl.fi.qualname}:reward-from-live-bookkeeping:{','.join(live)}")
    # i: the covered-item indicator of the MCP reward (one entry per instance and item, from that instance's own chosen sets) -- C03.f
    n0 = len(ctx.obligations)
    C03.mcp_covered_indicator(ctx)
    for o in ctx.obligations[n0:]:
        o.rule = "C04.i"
    n0 = len(ctx.obligations)
    C03.incremental(ctx)
    keep = [o for o in ctx.obligations[n0:] if o.instance.startswith("FFSPEnv")]
    del ctx.obligations[n0:]
    if not keep:
        raise AnalysisError("FFSPEnv: reward obligations of C03.incremental not found")
    for o in keep:
        o.rule = "C04.g"
    ctx.obligations.extend(keep)


def positive_control(ctx: Ctx):
    """The rule expects zero unjustified hits; make sure the engine still sees one when it exists."""
    t = vg.mk("cell0", "td", "x")
    leak = vg.mk("+", vg.mk("cell0", "td", "y"), vg.mk("meth", t, "sum"))
    pick = vg.mk("sub", vg.mk("sub", vg.mk("cell0", "td", "tw"), vg.mk("tuple", vg.mk("ellipsis"), vg.const(0), vg.const(1))), vg.const(0))
    ok = len(ba.hits(leak)) == 1 and len(ba.hits(pick)) == 1 and not ba.hits(vg.mk("meth", t, "sum", vg.const(-1)))
    if not ok:
        raise AnalysisError("positive control of the non-interference engine failed")
    ctx.extra["positive_control"] = "td['y'] + td['x'].sum() and td['tw'][..., 0, 1][0] are flagged; td['x'].sum(-1) is not"


def alone_steppable(ctx: Ctx):
    """C04.e an instance stepped alone (batch of one) goes through the same code as in any batch.  Two constructs only fail
    for B = 1: (1) an in-place copy between overlapping basic-index views of ONE tensor (`x[:, :-1] = x[:, 1:]`) -- torch's
    overlap check is only decisive when the batch axis has size one, where it raises; (2) in the improvement environments,
    whose move samplers work on [B, 1] index tensors, a dimension-less `.squeeze()`, which removes the batch axis as well."""
    import ast as _ast

    def basic(ix):
        items = ix.elts if isinstance(ix, _ast.Tuple) else [ix]
        for it in items:
            if isinstance(it, _ast.Slice):
                continue
            if isinstance(it, _ast.Constant) and (isinstance(it.value, int) or it.value is None or it.value is Ellipsis):
                continue
            if isinstance(it, _ast.UnaryOp) and isinstance(it.operand, _ast.Constant):
                continue
            return False
        return any(isinstance(it, _ast.Slice) for it in items)

    n_mod = 0
    for mi in sorted(ctx.repo.modules.values(), key=lambda m: m.relpath):
        if not (mi.relpath.startswith("rl4co/envs/") and mi.relpath.endswith("env.py")):
            continue
        n_mod += 1
        ctx.repo.note(mi)
        hits = []
        for st in _ast.walk(mi.tree):
            if isinstance(st, _ast.Assign) and len(st.targets) == 1 and isinstance(st.targets[0], _ast.Subscript) and isinstance(st.value, _ast.Subscript):
                tb, vb = st.targets[0].value, st.value.value
                if _ast.dump(tb) == _ast.dump(vb) and basic(st.targets[0].slice) and basic(st.value.slice) and _ast.dump(st.targets[0].slice) != _ast.dump(st.value.slice):
                    hits.append(st)
        for st in hits:
            ctx.ob("C04.e", f"{mi.relpath}:overlapping-self-copy@{_ast.unparse(st.targets[0])[:40]}", False, f"{mi.relpath}:{st.lineno}",
                   f"`{_ast.unparse(st)[:90]}` copies between overlapping views of one tensor without a clone: torch raises when the batch axis has size one (and the result is unspecified otherwise)",
                   construct=f"{mi.relpath}:overlapping-self-copy:{alpha_key(_ast.unparse(st))}")
        if not hits:
            ctx.ob("C04.e", f"{mi.relpath}:no-overlapping-self-copy", True, mi.relpath, "no in-place copy between basic-index views of the same tensor")
    if n_mod < 20:
        raise AnalysisError(f"only {n_mod} env modules scanned")
    for path, cname in (("rl4co/envs/routing/tsp/env.py", "TSPkoptEnv"), ("rl4co/envs/routing/pdp/env.py", "PDPRuinRepairEnv")):
        cls = ctx.repo.get_class(path, cname)
        for m in cls.methods.values():
            ctx.fn(m)
            def _scalar(e):
                # a full reduction has no axes left: squeezing it is a no-op for every batch size
                return isinstance(e, _ast.Call) and isinstance(e.func, _ast.Attribute) and e.func.attr in ("sum", "mean", "max", "min", "prod", "std", "var", "norm", "numel", "item") and not e.args and not e.keywords
            bad = [c for c in _ast.walk(m.node) if isinstance(c, _ast.Call) and isinstance(c.func, _ast.Attribute) and c.func.attr == "squeeze" and not c.args and not c.keywords
                   and not _scalar(c.func.value)]
            for c in bad:
                ctx.ob("C04.e", f"{cname}.{m.name}:dimension-less-squeeze", False, f"{path}:{c.lineno}",
                       f"`{_ast.unparse(c)[:80]}` also removes the batch axis when B = 1: the improvement envs index with these [B] / [B, 1] tensors",
                       construct=f"{cname}.{m.name}:squeeze-all:{alpha_key(_ast.unparse(c))}")
        n_sq = sum(1 for m in cls.methods.values() for c in _ast.walk(m.node) if isinstance(c, _ast.Call) and isinstance(c.func, _ast.Attribute) and c.func.attr == "squeeze")
        ctx.ob("C04.e", f"{cname}:squeezes-name-their-axis", True, path, f"{n_sq} squeeze calls in the class, every one names the axis") \
            if not any(isinstance(c, _ast.Call) and isinstance(c.func, _ast.Attribute) and c.func.attr == "squeeze" and not c.args and not c.keywords and
                       not (isinstance(c.func.value, _ast.Call) and isinstance(c.func.value.func, _ast.Attribute) and c.func.value.func.attr in ("sum", "mean", "max", "min", "prod", "std", "var", "norm", "numel", "item")
                            and not c.func.value.args and not c.func.value.keywords)
                       for m in cls.methods.values() for c in _ast.walk(m.node)) else None


def run_thorough(ctx: Ctx):
    from ..selftest.corpus import for_prop
    from ..selftest.runner import run_corpus
    run_corpus(ctx, for_prop("C04"))
