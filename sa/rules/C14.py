"""C14 -- inference is per-instance (model side of C04).

The batch-axis non-interference rule applied to the forward paths (with helpers inlined) of the
building blocks of the bundled constructive policies: env embeddings (init / context / dynamic),
attention layers, graph attention encoder, normalisation, MoE layers, the AM encoder/decoder, and
the encoders/decoders of the pointer network, MatNet, HAM, MDAM, PolyNet and L2D policies.

C14.a  no batch-global operation (reduction over the batch axis / without dim, row pick on a
       batch-leading value, nonzero/flatten, batch size as data) feeds a forward output, unless the
       operand is a row-uniform env key (first-step shortcut) or a named, reasoned exception
C14.b  no dimension-less .squeeze() on a value that reaches a rank-sensitive consumer or is
       returned by an embedding forward: at batch size 1 the batch axis disappears
C14.e  replica layout (shared with C12.a): k-fold expansions / einops groupings keep the batch index minor, so a replicated
       row never meets another instance's embeddings
C14.c  Normalization: 'layer' reduces over the non-batch axes only; 'batch'/'instance' delegate to
       torch.nn BatchNorm1d / InstanceNorm1d (eval-mode batch norm uses running statistics --
       trusted torch semantics)
"""
from __future__ import annotations

import ast

from .. import batchaxis as ba
from .. import nf, vg
from ..core import Ctx
from ..envs import EnvA
from ..model import AnalysisError, alpha_key
from ..tables import routing as T
from .C04 import uniform_keys, tuple_funcs

FLOOR = 162
EXPLANATION = (
    "Static batch-axis non-interference over the forward paths (module-level helpers and self-methods inlined) of ~100 nn.Module "
    "classes that make up the bundled constructive policies: every returned value's def-use graph is searched for batch-global "
    "tensor operations and dimension-less squeezes; hits are accepted only for row-uniform env keys or named exceptions with a "
    "reason; Normalization's reduction axes are checked. Decides absence of cross-row data flow at the level of tensor-op "
    "semantics for all batch sizes incl. 1; float-level equality and third-party layer internals (torch.nn) are not decided."
)
RULE = "one obligation per nn.Module forward analysed; violation = unjustified batch-global op or rank-changing squeeze reaching the output"

SCOPE = ("rl4co.models.nn.env_embeddings", "rl4co.models.nn.attention", "rl4co.models.nn.graph.attnnet", "rl4co.models.nn.ops", "rl4co.models.nn.moe",
         "rl4co.models.nn.mlp", "rl4co.models.zoo.am", "rl4co.models.zoo.ptrnet", "rl4co.models.zoo.matnet", "rl4co.models.zoo.ham", "rl4co.models.zoo.mdam",
         "rl4co.models.zoo.polynet", "rl4co.models.zoo.l2d", "rl4co.models.common.constructive.autoregressive")

HELPERS = {
    "rl4co/utils/decoding.py": ["get_log_likelihood", "process_logits", "modify_logits_for_top_k_filtering", "modify_logits_for_top_p_filtering", "decode_logprobs",
                                "DecodingStrategy.greedy", "DecodingStrategy.sampling", "DecodingStrategy.step"],
    "rl4co/utils/ops.py": ["calculate_entropy", "gather_by_index", "get_distance", "get_tour_length"],
}

EXCEPTIONS = {
    ("MDAMDecoder.forward", "reduce-all", "torch.stack(kl_divergences, 0).mean()"):
        "auxiliary training loss (mean KL divergence between decoders) returned next to the rollout outputs; it is not used to choose actions",
    ("PointerNetworkPolicy._inner", "row-pick", "enc_h_t[-1]"): "index on the LSTM *layer* axis of a [num_layers, batch, hidden] state, not on the batch axis",
    ("PointerNetworkPolicy._inner", "row-pick", "enc_c_t[-1]"): "index on the LSTM layer axis",
    ("CriticNetworkLSTM.forward", "row-pick", "enc_h_t[-1]"): "index on the LSTM layer axis",
}


def in_scope(name: str) -> bool:
    return any(name == s or name.startswith(s + ".") for s in SCOPE)


def run(ctx: Ctx):
    tsp = EnvA(ctx.repo, T.ALL_ENVS["TSPEnv"], "TSPEnv")
    uni_i = "i" in uniform_keys(tsp)
    tf = tuple_funcs(ctx.repo)
    n_forward, n_hits = 0, 0
    n_views = 0
    used = set()
    roots = []
    for name, mi in sorted(ctx.repo.modules.items()):
        if not in_scope(name):
            continue
        for cn, c in sorted(mi.classes.items()):
            fi = ctx.repo.resolve_method(c, "forward")
            if fi is None:
                continue
            roots.append((mi, cn, c, fi))
    # shared helpers on every policy's inference path (log-likelihood, logit processing, selection, entropy)
    n_helpers = 0
    for rel, names in HELPERS.items():
        mi = ctx.repo.module_by_path(rel)
        for nm in names:
            if "." in nm:
                c = mi.classes.get(nm.split(".")[0])
                fi = c.methods.get(nm.split(".")[1]) if c is not None else None
            else:
                c, fi = None, mi.functions.get(nm)
            if fi is None:
                raise AnalysisError(f"inference helper {rel}:{nm} not found")
            roots.append((mi, nm if c is None else nm.rsplit(".", 1)[0], c, fi))
            n_helpers += 1
    ctx.extra["helpers_analysed"] = n_helpers
    for mi, cn, c, fi in roots:
        if True:
            ctx.repo.note(mi)
            is_fwd = fi.name == "forward"
            lab = f"{cn}.forward" if is_fwd else (f"{cn}.{fi.name}" if c is not None else fi.name)
            it = vg.Interp(ctx.repo, c, inline_policy=lambda f, a: True, inline_depth=5)
            try:
                fr = it.run_function(fi)
            except RecursionError:
                raise AnalysisError(f"{lab}: analysis recursion")
            bad_ev = [e for e in it.events if e.kind in ("unhandled-stmt", "unhandled-expr")]
            if bad_ev:
                raise AnalysisError(f"{lab}: unhandled constructs {bad_ev[:2]}")
            ctx.fn(fi)
            n_forward += 1
            rets = [it.sym(v) for _, v in fr.returns]
            n_views += reinterpreting_views(ctx, lab, fi, rets)
            per = {}
            for v in rets:
                for h in ba.hits(v):
                    per.setdefault(h.node.id, (h, v))
            bad = 0
            for h, root in per.values():
                n_hits += 1
                site = vg.site_of(h.node)
                fn, text = ctx.repo.locate(*site) if site else ("?", vg.show(h.node, 3))
                text = text.replace('"', "'")
                where = f"{site[0]}:{site[1]}" if site else fi.loc
                if h.kind == "row-pick":
                    b = nf.strip(h.node.args[0])
                    while b.op == "sub" and isinstance(b.args[1], vg.S) and b.args[1].op == "const" and isinstance(b.args[1].args[0], int):
                        b = nf.strip(b.args[0])  # nested tuple indexing: module(...)[1][0]
                    if b.op in ("call", "meth") and not (b.op == "meth" and b.args[1] in ("gather", "view", "reshape", "float", "clone", "to", "expand", "transpose", "permute", "contiguous")):
                        continue  # indexing the tuple returned by a module / function call
                if h.kind == "squeeze-all":
                    from .C04 import rank_sensitive_consumer
                    from .C04 import value_wrappers
                    W_ = value_wrappers(root, h.node)
                    returned = any(nf.strip(r) is h.node or r is h.node or r.id in W_ for r in rets) or any(_elementwise_reach(r, h.node) for r in rets)
                    if not (returned or rank_sensitive_consumer(root, h.node) or _feeds_module(root, h.node)):
                        ctx.note(f"{lab}: dimension-less squeeze feeds only rank-insensitive arithmetic: {text}")
                        continue
                    rule = "C14.b"
                else:
                    rule = "C14.a"
                deps = vg.cells_of(h.operand)
                if h.kind in ("reduce-all", "row-pick") and deps == {"i"} and uni_i and not vg.params_of(h.operand) - {"td"}:
                    ctx.note(f"{lab}: first-step shortcut on the row-uniform key td['i'] ({text})")
                    continue
                from .C04 import alpha_table
                from ..model import alpha_key
                why = alpha_table(EXCEPTIONS).get((fn, h.kind, alpha_key(text)))
                if why is not None:
                    used.add((fn, h.kind, text))
                    ctx.note(f"{lab}: exception `{text}` in {fn}: {why}")
                    continue
                bad += 1
                ctx.ob(rule, f"{lab}:{fn}:{h.kind}", False, where,
                       f"{h.kind} `{text}` in {fn}: {h.why}. It reaches the output of {lab}: the result for one instance depends on its batch-mates / on the batch size",
                       construct=f"{fn}:{h.kind}:{alpha_key(text)}")
            if not bad:
                ctx.ob("C14.a", lab, True, fi.loc, f"{len(per)} batch-global op(s), all justified" if per else "no batch-global op reaches the output")
    # helper methods reached through loops are not always part of the inlined forward's value: read each in-scope method on its own too
    n_meth = 0
    for name, mi in sorted(ctx.repo.modules.items()):
        if not in_scope(name):
            continue
        for cn, c in sorted(mi.classes.items()):
            for mn, mfi in sorted(c.methods.items()):
                if mn == "forward" or mn.startswith("__"):
                    continue
                itm = vg.Interp(ctx.repo, c, inline_policy=lambda f, a: False)
                try:
                    frm = itm.run_function(mfi)
                except (RecursionError, AnalysisError):
                    continue
                retsm = [itm.sym(v) for _, v in frm.returns if v is not None]
                n_meth += 1
                n_views += reinterpreting_views(ctx, f"{cn}.{mn}", mfi, retsm)
    ctx.extra["methods_read_for_views"] = n_meth
    ctx.extra["forwards_analysed"] = n_forward
    ctx.extra["axis_order_views_checked"] = n_views
    if n_views < 1:
        raise AnalysisError("no view(size(t, i), size(t, j), ...) site found (PointerNetworkPolicy.forward has one)")
    ctx.extra["batch_global_ops_seen"] = n_hits
    ctx.extra["exceptions_used"] = sorted(map(list, used))
    ctx.sample({"forwards_analysed": n_forward, "hits": n_hits, "td_i_row_uniform": uni_i})
    normalization(ctx)
    feature_axis(ctx)
    einsum_batch_symbol(ctx)
    env_masks_per_instance(ctx)
    dataset_figures_independent_of_chunking(ctx)
    deterministic_inference(ctx)
    stateless_forward(ctx)
    submodules_registered(ctx)
    # replicated rows must keep their instance (shared with C12.a): a layout mismatch between the replicated state and the
    # replicated embeddings makes an instance's result depend on its batch-mates
    from . import C12
    n0 = len(ctx.obligations)
    C12.expansion_sites(ctx)
    C12.einops_sites(ctx)
    for o in ctx.obligations[n0:]:
        o.rule = "C14.e"
    # positive control
    t = vg.mk("param", "x")
    if len(ba.hits(vg.mk("/", t, vg.mk("meth", t, "std")))) != 1 or ba.hits(vg.mk("meth", t, "mean", vg.const(-1))):
        raise AnalysisError("positive control of the non-interference engine failed")


def _lead_order(n, depth=0):
    """Order of the two leading axes of a tensor value, as (size of axis 0, size of axis 1) with sizes named (tensor id, axis):
    ('nat', t) -- the natural order of tensor t;  ('swap', t) -- t with its two leading axes exchanged;
    ('flat', order) -- both leading axes merged into one, rows enumerated in `order`.  None when not understood."""
    if depth > 40 or not isinstance(n, vg.S):
        return None
    d = depth + 1
    if n.op == "cell0" or n.op == "param":
        return ("nat", nf.strip(n).id)
    if n.op == "meth":
        m = n.args[1]
        if m in ("contiguous", "clone", "float", "to", "detach", "double", "half", "type_as"):
            return _lead_order(n.args[0], d)
        if m in ("transpose", "swapaxes") and len(n.args) == 4 and {vg.is_const(n.args[2], 0) and 0, vg.is_const(n.args[3], 1) and 1} == {0, 1} \
                and vg.is_const(n.args[2], 0) and vg.is_const(n.args[3], 1) or (m in ("transpose", "swapaxes") and len(n.args) == 4 and vg.is_const(n.args[2], 1) and vg.is_const(n.args[3], 0)):
            o = _lead_order(n.args[0], d)
            if o is None:
                return None
            return {"nat": ("swap", o[1]), "swap": ("nat", o[1])}.get(o[0])
        if m in ("view", "reshape") and len(n.args) == 4 and vg.is_const(n.args[2], -1):
            o = _lead_order(n.args[0], d)
            return ("flat", o) if o is not None and o[0] in ("nat", "swap") else None
        if m == "flatten" and len(n.args) == 4 and vg.is_const(n.args[2], 0) and vg.is_const(n.args[3], 1):
            o = _lead_order(n.args[0], d)
            return ("flat", o) if o is not None and o[0] in ("nat", "swap") else None
        if m in ("matmul", "mm") and len(n.args) == 3:
            return _lead_order(n.args[0], d)
    fn = nf._fn(n)
    if fn in ("torch.mm", "torch.matmul") and len(n.args) >= 3:
        w = n.args[2]
        if isinstance(w, vg.S) and w.op in ("selfattr",) or (isinstance(w, vg.S) and not vg.cells_of(w) and not vg.params_of(w)):
            return _lead_order(n.args[1], d)
    if n.op == "@" and isinstance(n.args[1], vg.S) and not vg.cells_of(n.args[1]) and not vg.params_of(n.args[1]):
        return _lead_order(n.args[0], d)
    return None


def reinterpreting_views(ctx: Ctx, lab: str, fi, rets) -> int:
    """C14.f `x.view(s0, s1, ...)` reads the memory of x in its existing order.  When the two leading sizes are the sizes of the
    two leading axes of an instance tensor t (batch, nodes), the operand's rows must be enumerated in exactly that order:
    viewing a [B, N, E] value as (N, B, E) -- or a flattened [B*N, E] value as (N, B, E) -- interleaves the rows of different
    instances for B > 1 (and is the identity for B = 1).  Axes are exchanged by transpose / permute, not by view."""
    n_sites = 0
    seen = set()
    for root in rets:
        if not isinstance(root, vg.S):
            continue
        for n in vg.walk(root):
            if n.id in seen or not (n.op == "meth" and n.args[1] in ("view", "reshape") and len(n.args) >= 5):
                continue
            seen.add(n.id)
            # second clause: the size of axis 0 of the operand's own tensor (the batch size) stays the FIRST size of the view --
            # `x.view(heads, batch, ...)` of a batch-major x reads batch-major memory as head-major
            # (lineage-free: the size named is axis 0 of the very operand of the view; leading sizes of literal 1 do not move anything)
            opd_ = nf.strip(n.args[0])
            if True:
                for pos_, a_ in enumerate(n.args[2:]):
                    d_ = nf.dim_of(a_) if isinstance(a_, vg.S) else None
                    if d_ is not None and d_[1] == 0 and nf.strip(d_[0]).id == opd_.id and pos_ > 0 and not all(vg.is_const(x_, 1) for x_ in n.args[2:2 + pos_]):
                        n_sites += 1
                        site = vg.site_of(n)
                        ctx.ob("C14.f", f"{lab}:view-keeps-the-batch-axis-first@{vg.show(n.args[0], 2)[:40]}", False, f"{site[0]}:{site[1]}" if site else fi.loc,
                               f"view(..., {vg.show(a_, 2)} at position {pos_}, ...) of {vg.show(n.args[0], 2)[:40]}: the operand's memory is batch-major, the view declares another axis "
                               "outermost -- rows (heads, steps) of different instances are mixed for batch size > 1; axes are moved by permute / transpose, not by view",
                               construct=f"{lab}:batch-axis-not-first-in-view")
            s0, s1 = nf.dim_of(n.args[2]), nf.dim_of(n.args[3])
            if s0 is None or s1 is None or not isinstance(s0[1], int) or not isinstance(s1[1], int):
                continue
            t0, t1 = nf.strip(s0[0]), nf.strip(s1[0])
            if t0 is not t1 or {s0[1], s1[1]} != {0, 1}:
                continue
            want = "nat" if (s0[1], s1[1]) == (0, 1) else "swap"
            o = _lead_order(n.args[0])
            if o is None:
                continue
            have = o[1] if o[0] == "flat" else o
            if have[1] != t0.id:
                continue
            n_sites += 1
            ok = have[0] == want
            site = vg.site_of(n)
            where = f"{site[0]}:{site[1]}" if site else fi.loc
            ctx.ob("C14.f", f"{lab}:view-keeps-row-order@{vg.show(n.args[0], 2)[:40]}", ok, where,
                   f"view({vg.show(n.args[2], 2)}, {vg.show(n.args[3], 2)}, ...) of a value whose rows run in " + ("(axis 0, axis 1)" if have[0] == "nat" else "(axis 1, axis 0)") +
                   f" order of {vg.show(t0, 2)}: the requested order is " + ("the same" if ok else "the OTHER one -- rows of different instances are interleaved for B > 1"),
                   construct=f"{lab}:reinterpreting-view")
    return n_sites


RNG_FUNCS = {"torch.rand", "torch.randn", "torch.rand_like", "torch.randn_like", "torch.randperm", "torch.randint", "torch.multinomial", "torch.bernoulli", "torch.normal"}
RNG_METHS = {"multinomial", "bernoulli", "uniform_", "normal_", "random_", "bernoulli_", "exponential_"}


def deterministic_inference(ctx: Ctx):
    """C14.g greedy inference is a function of the instance: a module on the inference path draws no random numbers unless the
    draw is guarded by the training flag (`if self.training`, `if ... and train`).  A draw in `forward` makes the result of an
    instance depend on the state of the global generator, i.e. on what was decoded before it and next to it."""
    import ast as _ast
    n_cls = 0
    mods = [mi for name, mi in sorted(ctx.repo.modules.items()) if in_scope(name) or name in ("rl4co.models.nn.ops",)]
    for mi in mods:
        for cn, c in sorted(mi.classes.items()):
            n_cls += 1
            # helpers that only the constructor calls initialise parameters: not on the inference path
            def self_calls(fnode):
                return {x.func.attr for x in _ast.walk(fnode) if isinstance(x, _ast.Call) and isinstance(x.func, _ast.Attribute) and isinstance(x.func.value, _ast.Name) and x.func.value.id == "self"}
            from_init = self_calls(c.methods["__init__"].node) if "__init__" in c.methods else set()
            from_rest = set().union(*[self_calls(mm.node) for mm in c.methods.values() if mm.name != "__init__"]) if c.methods else set()
            for m in c.methods.values():
                if m.name.startswith("__") or m.name in ("reset_parameters", "init_parameters", "_init_weights"):
                    continue
                if m.name in from_init and m.name not in from_rest:
                    continue
                par = {}
                for a in _ast.walk(m.node):
                    for ch in _ast.iter_child_nodes(a):
                        par[ch] = a
                for call in _ast.walk(m.node):
                    if not isinstance(call, _ast.Call):
                        continue
                    fn = _ast.unparse(call.func)
                    is_rng = fn in RNG_FUNCS or (isinstance(call.func, _ast.Attribute) and call.func.attr in RNG_METHS)
                    if not is_rng:
                        continue
                    # nn.Parameter(torch.rand(...)) / register_buffer(...) : initialisation, not a per-call draw
                    up = par.get(call)
                    if isinstance(up, _ast.Call) and _ast.unparse(up.func).split(".")[-1] in ("Parameter", "register_buffer"):
                        continue
                    def implies_training(t, taken):
                        """does `t evaluating to <taken>` imply that the training flag is set?"""
                        if isinstance(t, _ast.UnaryOp) and isinstance(t.op, _ast.Not):
                            return implies_training(t.operand, not taken)
                        if isinstance(t, _ast.BoolOp):
                            if isinstance(t.op, _ast.And) and taken:
                                return any(implies_training(v, True) for v in t.values)
                            if isinstance(t.op, _ast.Or) and not taken:
                                return any(implies_training(v, False) for v in t.values)
                            return False
                        nm = t.attr if isinstance(t, _ast.Attribute) else getattr(t, "id", None)
                        return taken and nm in ("training", "train", "is_training")
                    guarded = False
                    x = call
                    while x in par:
                        p_ = par[x]
                        if isinstance(p_, (_ast.If, _ast.IfExp)):
                            body = p_.body if isinstance(p_.body, list) else [p_.body]
                            orelse = p_.orelse if isinstance(p_.orelse, list) else [p_.orelse]
                            if any(x is b for b in body) and implies_training(p_.test, True):
                                guarded = True
                            if any(x is b for b in orelse) and implies_training(p_.test, False):
                                guarded = True
                        x = p_
                    ctx.repo.note(mi)
                    ctx.ob("C14.g", f"{cn}.{m.name}:{fn}@inference", guarded, f"{mi.relpath}:{call.lineno}",
                           f"`{_ast.unparse(call)[:70]}` in {cn}.{m.name}: " + ("only under the training flag" if guarded else
                                                                                 "drawn on every call, also in eval mode -- greedy decoding of an instance depends on the global random state (what was decoded before / next to it)"),
                           construct=f"{cn}.{m.name}:rng:{alpha_key(_ast.unparse(call))}")
    # functional dropout has no training flag of its own: F.scaled_dot_product_attention(..., dropout_p=p) and F.dropout(x, p)
    # drop entries whenever p > 0.  A module that forwards its configured rate must gate it on self.training.
    n_dp = 0
    for mi in mods:
        for cn, c in sorted(mi.classes.items()):
            for m in c.methods.values():
                for call in _ast.walk(m.node):
                    if not isinstance(call, _ast.Call):
                        continue
                    for k in call.keywords:
                        if k.arg != "dropout_p" or not any(isinstance(x, _ast.Attribute) and isinstance(x.value, _ast.Name) and x.value.id == "self" and x.attr != "training" for x in _ast.walk(k.value)):
                            continue
                        n_dp += 1
                        gated = any(isinstance(x, _ast.Attribute) and x.attr == "training" for x in _ast.walk(k.value))
                        ctx.repo.note(mi)
                        ctx.ob("C14.g", f"{cn}.{m.name}:dropout_p-gated-by-training", gated, f"{mi.relpath}:{call.lineno}",
                               f"dropout_p={_ast.unparse(k.value)}: " + ("zero outside training" if gated else "the configured rate is applied in eval mode as well -- inference is stochastic"),
                               construct=f"{cn}.{m.name}:dropout-in-eval")
    if n_cls < 40 or n_dp < 2:
        raise AnalysisError(f"only {n_cls} classes / {n_dp} dropout_p sites scanned")


_EW_OPS = {"+", "-", "*", "/", "neg", "phi", "ifexp", "tuple", "nograd", "**", "&", "|", "inv"}
_EW_METHS = {"tanh", "exp", "log", "sigmoid", "relu", "float", "clone", "to", "masked_fill", "masked_fill_", "clamp", "abs", "sqrt", "contiguous", "detach", "softmax", "log_softmax", "type_as", "double"}
_EW_FUNCS = {"tanh", "exp", "log", "sigmoid", "relu", "where", "softmax", "log_softmax", "clamp", "maximum", "minimum"}


def _elementwise_reach(root, node, depth=0) -> bool:
    """is `node` handed out by `root` through rank-preserving elementwise operations only (so the caller receives a tensor of
    the squeezed rank)?"""
    if not isinstance(root, vg.S) or depth > 60:
        return False
    if root is node or nf.strip(root) is node:
        return True
    ok = root.op in _EW_OPS or (root.op == "meth" and root.args[1] in _EW_METHS) or ((nf._fn(root) or "").split(".")[-1] in _EW_FUNCS)
    if not ok:
        return False
    return any(_elementwise_reach(a, node, depth + 1) for a in root.args if isinstance(a, vg.S))


STATE_EXCEPTIONS = {
    ("MultiStageFFSPDecoder", "cached_embs"): "written by _precompute_cache, which the policy calls at the start of every rollout with the embeddings of THAT batch; read only during that rollout",
}


def submodules_registered(ctx: Ctx):
    """C14.g (registration) a layer kept in a plain Python list / dict attribute is not a sub-module: eval(), train(), to() and
    state_dict() never reach it.  For layers whose behaviour depends on the mode (Dropout, BatchNorm) inference then runs them
    in training mode.  Every container of nn layers that a constructor of the policy modules leaves bound to an attribute is an
    nn.ModuleList / ModuleDict / Sequential (the LAST binding of the attribute decides: a list wrapped right after is fine)."""
    import ast as _ast

    def makes_layer(node):
        for x in _ast.walk(node):
            if isinstance(x, _ast.Call):
                f = _ast.unparse(x.func)
                if f.startswith("nn.") and f[3:4].isupper() and f not in ("nn.ModuleList", "nn.ModuleDict", "nn.Sequential", "nn.Parameter", "nn.ParameterList"):
                    return True
        return False

    n_cls, n_c = 0, 0
    for name, mi in sorted(ctx.repo.modules.items()):
        if not in_scope(name):
            continue
        for cn, c in sorted(mi.classes.items()):
            ini = c.methods.get("__init__")
            if ini is None:
                continue
            n_cls += 1
            last = {}
            for st in sorted([x for x in _ast.walk(ini.node) if isinstance(x, _ast.Assign)], key=lambda x: x.lineno):
                if len(st.targets) == 1 and isinstance(st.targets[0], _ast.Attribute) and isinstance(st.targets[0].value, _ast.Name) and st.targets[0].value.id == "self":
                    last[st.targets[0].attr] = st
            for attr, st0 in sorted(last.items()):
                if not isinstance(st0.value, (_ast.List, _ast.Dict, _ast.ListComp)):
                    continue
                holds = makes_layer(st0.value)
                for c2 in _ast.walk(ini.node):
                    if isinstance(c2, _ast.Call) and isinstance(c2.func, _ast.Attribute) and c2.func.attr in ("append", "extend", "insert") and isinstance(c2.func.value, _ast.Attribute) \
                            and isinstance(c2.func.value.value, _ast.Name) and c2.func.value.value.id == "self" and c2.func.value.attr == attr and c2.lineno > st0.lineno:
                        if any(makes_layer(a_) for a_ in c2.args):
                            holds = True
                if holds:
                    n_c += 1
                    ctx.repo.note(mi)
                    ctx.ob("C14.g", f"{cn}.__init__:self.{attr}:layers-registered", False, f"{mi.relpath}:{st0.lineno}",
                           f"self.{attr} is left as a plain Python container holding nn layers: they are not sub-modules, eval() does not reach them (a Dropout in it stays active in inference)",
                           construct=f"{cn}.__init__:unregistered-layers:{attr}")
    ctx.extra["plain_layer_containers"] = n_c
    if n_cls < 40:
        raise AnalysisError(f"only {n_cls} constructors scanned for unregistered layers")


def stateless_forward(ctx: Ctx):
    """C14.h the modules on the inference path keep no per-call state on themselves: a tensor stored on `self` in a forward /
    helper method survives into the next call and, within one rollout, is not re-ordered when beam search re-indexes the rows
    of the state -- the result for an instance then depends on what was decoded before it or in which row it used to be."""
    import ast as _ast
    n_m = 0
    for name, mi in sorted(ctx.repo.modules.items()):
        if not in_scope(name):
            continue
        for cn, c in sorted(mi.classes.items()):
            for m in c.methods.values():
                if m.name in ("__init__", "reset_parameters", "init_parameters", "_init_weights", "__setstate__", "setup") or (m.name.startswith("__") and m.name != "__call__"):
                    continue
                n_m += 1
                for st in _ast.walk(m.node):
                    tg = st.targets if isinstance(st, _ast.Assign) else ([st.target] if isinstance(st, (_ast.AugAssign, _ast.AnnAssign)) else [])
                    for t in tg:
                        for e in (t.elts if isinstance(t, _ast.Tuple) else [t]):
                            if isinstance(e, _ast.Attribute) and isinstance(e.value, _ast.Name) and e.value.id == "self":
                                why = STATE_EXCEPTIONS.get((cn, e.attr))
                                ctx.repo.note(mi)
                                ctx.ob("C14.h", f"{cn}.{m.name}:self.{e.attr}:no-state-across-calls", why is not None, f"{mi.relpath}:{st.lineno}",
                                       (f"exception: {why}" if why else f"`self.{e.attr}` is (re)assigned in {cn}.{m.name}: state kept on the module between forward calls / across the rows of a rollout"),
                                       construct=f"{cn}.{m.name}:module-state:{e.attr}")
    if n_m < 100:
        raise AnalysisError(f"only {n_m} methods scanned for module state")


def einsum_batch_symbol(ctx: Ctx):
    """C14.j einsum / einops.einsum patterns: the LEADING index of every operand also occurs in another operand or in the output (for a
    batch-leading operand that index is the batch).  `"bs m o, b m e -> bs o e"` type-checks and runs, but `b`
    is then an index that appears in one operand only and is summed away: every instance receives the sum over the whole batch
    (identical to the intended result for a batch of one).  All einsum calls under rl4co/models and rl4co/envs."""
    n = 0
    for name, mi in sorted(ctx.repo.modules.items()):
        if not (name.startswith("rl4co.models") or name.startswith("rl4co.envs")):
            continue
        for c in ast.walk(mi.tree):
            if not (isinstance(c, ast.Call) and ((isinstance(c.func, ast.Name) and c.func.id == "einsum") or (isinstance(c.func, ast.Attribute) and c.func.attr == "einsum"))):
                continue
            strs = [a for a in c.args if isinstance(a, ast.Constant) and isinstance(a.value, str)]
            if len(strs) != 1 or "->" not in strs[0].value:
                continue
            pat = strs[0].value
            ops_ = [a for a in c.args if a is not strs[0]]
            lhs, rhs = pat.split("->")
            ins = [x.strip() for x in lhs.split(",")]
            if len(ins) != len(ops_):
                continue
            spaced = any(" " in x for x in ins) or " " in rhs.strip()

            def toks(x):
                return x.split() if spaced else list(x.replace(" ", ""))
            out = toks(rhs.strip())
            if not out:
                continue
            bsym = out[0]
            bad = []
            all_in = [toks(ix) for ix in ins]
            for j_, (expr, ix) in enumerate(zip(ops_, ins)):
                t = all_in[j_]
                if not t:
                    continue
                lead = t[0]
                # a leading index that occurs in no other operand and not in the output is summed away on its own: for a
                # batch-leading operand that is the batch axis (weights `d e` share `d`; a trailing size-1 `one` is not a leading index)
                elsewhere = lead in out or any(lead in o_ for k_, o_ in enumerate(all_in) if k_ != j_)
                if not elsewhere:
                    bad.append(f"{ast.unparse(expr)[:30]}: '{ix}'")
            n += 1
            ctx.ob("C14.j", f"{mi.relpath}:{c.lineno}:einsum-batch-symbol", not bad, f"{mi.relpath}:{c.lineno}",
                   f"pattern '{pat}': no operand's leading index is left dangling" if not bad else
                   f"pattern '{pat}': the leading index of {bad} occurs nowhere else -- it is summed over on its own, i.e. over the batch: every instance receives the sum over all instances",
                   construct=f"einsum:{pat.replace(' ', '')}:batch-symbol")
    if n < 6:
        raise AnalysisError(f"einsum sites lost: {n} < 6")


def dataset_figures_independent_of_chunking(ctx: Ctx):
    """C14.l "evaluation results do not depend on how a dataset happens to be chunked": the dataset-level average the evaluators
    return is the mean over all per-instance rewards, not a mean of per-batch means (C15.n, shared)."""
    from . import C15
    from ..core import Ctx as _Ctx
    import contextlib, io
    sub = _Ctx("C15", ctx.repo, "quick", 0)
    with contextlib.redirect_stdout(io.StringIO()):
        C15.best_is_the_maximum_reward(sub)
    got = [o for o in sub.obligations if o.rule == "C15.n"]
    if not got:
        raise AnalysisError("C15.n obligation not produced")
    for o in got:
        o.rule = "C14.l"
        ctx.obligations.append(o)


def env_masks_per_instance(ctx: Ctx):
    """C14.k the feasibility mask the policy reads is part of the inference path: a mask decided by a batch-wide Python branch
    (`if not td['open_route'].all(): ...`) or a reduction over the batch axis makes the greedy solution of an instance depend on
    its batch-mates.  The batch-axis engine of C04 on the `action_mask` sinks (`get_action_mask` and the cell written by
    `_step`) of every environment."""
    from .C04 import batch_rows
    batch_rows(ctx, "C14.k", meths=("_step", "get_action_mask"),
               sink_ok=lambda cname, meth, sink: sink == "return" or sink == "cell:action_mask")


def _feeds_module(root, node) -> bool:
    """the squeezed value is passed to a sub-module (Linear etc. are rank-agnostic, but the
    module's output rank then differs and reaches cat/stack/returns downstream)"""
    for n in vg.walk(root):
        if n.op in ("meth", "call") and any(k is node for k in vg.children(n)):
            if n.op == "meth" and (n.args[0] is vg.SELF or (isinstance(n.args[0], vg.S) and n.args[0].op == "selfattr")):
                return True
            if n.op == "call" and isinstance(n.args[0], vg.S) and n.args[0].op in ("selfattr",):
                return True
    return False


def normalization(ctx: Ctx):
    c = ctx.repo.get_class("rl4co/models/nn/ops.py", "Normalization")
    fi = c.methods["forward"]
    ctx.fn(fi)
    ok_layer = False
    for n in ast.walk(fi.node):
        if isinstance(n, ast.Call) and isinstance(n.func, ast.Attribute) and n.func.attr in ("mean", "var", "std"):
            dims = n.args[0] if n.args else None
            if isinstance(dims, ast.Tuple):
                vals = [e.value for e in dims.elts if isinstance(e, ast.Constant)]
                if 0 in vals:
                    ctx.ob("C14.c", "Normalization.forward:layer-axes", False, fi.loc, f"layer normalisation reduces over axes {vals} incl. the batch axis", construct="Normalization.forward:layer-axes")
                    return
                ok_layer = True
    init = c.methods["__init__"]
    src = ast.unparse(init.node)
    ok_deleg = "nn.BatchNorm1d" in src and "nn.InstanceNorm1d" in src
    ctx.ob("C14.c", "Normalization.forward:layer-axes", ok_layer, fi.loc, "layer normalisation reduces over the non-batch axes (1, 2) only", construct="Normalization.forward:layer-axes")
    ctx.ob("C14.c", "Normalization.__init__:delegation", ok_deleg, init.loc, "batch / instance normalisation are torch.nn layers (eval-mode batch norm uses running statistics)", construct="Normalization.__init__:delegation")
    ctx.assume("torch.nn.BatchNorm1d in eval mode normalises with running statistics (no dependence on the current batch)")


def feature_axis(ctx: Ctx):
    """C14.d: env context / dynamic embeddings may receive a flat [B, ...] or a regrouped
    [B, starts, ...] state; features built from TensorDict cells are therefore stacked /
    concatenated along the LAST axis (negative dim), never along a positive axis whose meaning
    changes with the rank."""
    for rel in ("rl4co/models/nn/env_embeddings/context.py", "rl4co/models/nn/env_embeddings/dynamic.py"):
        mi = ctx.repo.module_by_path(rel)
        for node in ast.walk(mi.tree):
            if not (isinstance(node, ast.Call) and ast.unparse(node.func) in ("torch.stack", "torch.cat") and node.args):
                continue
            seq = node.args[0]
            if not isinstance(seq, (ast.List, ast.Tuple)) or not any("td[" in ast.unparse(e) or "td.get(" in ast.unparse(e) for e in seq.elts):
                continue
            dim = node.args[1] if len(node.args) > 1 else next((k.value for k in node.keywords if k.arg == "dim"), None)
            fn, _ = ctx.repo.locate(rel, node.lineno, node.col_offset, getattr(node, "end_lineno", 0), getattr(node, "end_col_offset", 0))
            val = None
            if isinstance(dim, ast.UnaryOp) and isinstance(dim.op, ast.USub) and isinstance(dim.operand, ast.Constant):
                val = -dim.operand.value
            elif isinstance(dim, ast.Constant):
                val = dim.value
            ok = val is not None and val < 0
            ctx.ob("C14.d", f"{fn}:{ast.unparse(node.func)}@{node.lineno - 0}", ok, f"{rel}:{node.lineno}",
                   f"features of td cells combined along dim {val}" + ("" if ok else ": a non-negative dim addresses a different axis when the state is regrouped as [batch, starts, ...]"),
                   construct=f"{fn}:feature-axis:{ast.unparse(node.func)}")


def run_thorough(ctx: Ctx):
    from ..selftest.corpus import for_prop
    from ..selftest.runner import run_corpus
    run_corpus(ctx, for_prop("C14"))
