"""C05 -- the mask never hides a feasible solution: *boundary clause only*.

Decided: every mask comparison whose ground-truth constraint admits equality is written so
that the equality case is offered (exclusions strict, admissions non-strict), and no
threshold is shifted to the strict side.  Not decided: equality of the mask-reachable solution
set with the feasible set (needs exhaustive exploration -- other technique families)."""
from __future__ import annotations

from .. import nf, vg
from ..core import Ctx
from ..envs import EnvA
from ..tables import routing as T
from ..tables import scheduling as TS
from .C01 import check_literals, mask_root

FLOOR = 20
EXPLANATION = (
    "Static comparison normal forms: each constraint comparison reaching a feasibility mask (13 routing env classes, FJSP/JSSP "
    "availability) is matched to its reference literal and must be no tighter than the ground-truth inequality "
    "(strict vs non-strict, constant shift). Decides only the boundary clause of C05 (equality cases are offered); the "
    "reachable-set = feasible-set clause is not decidable statically and is not claimed."
)
RULE = "one obligation per (env class, comparison literal with a stated boundary); violation = comparison strict where equality is feasible, or threshold shifted to the strict side"


def run(ctx: Ctx):
    for cname, (path, family) in T.ENVS.items():
        env = EnvA(ctx.repo, path, cname)
        sl, root = mask_root(env, family)
        ctx.fn(sl.fi)
        check_literals(ctx, "C05", env, sl, root, T.MASK[cname], "mask", "tighter")
    for cname, path in TS.ENVS.items():
        env = EnvA(ctx.repo, path, cname)
        sl, root = mask_root(env, "recompute")
        ctx.fn(sl.fi)
        old = T.BOOL_CELLS
        try:
            T.BOOL_CELLS = TS.BOOL_CELLS
            check_literals(ctx, "C05", env, sl, root, TS.AVAIL, "mask", "tighter")
        finally:
            T.BOOL_CELLS = old


def run_thorough(ctx: Ctx):
    from ..selftest.corpus import for_prop
    from ..selftest.runner import run_corpus
    run_corpus(ctx, for_prop("C05"))
