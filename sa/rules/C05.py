"""C05 -- the mask never hides a feasible solution: *boundary clause only*.

Decided: every mask comparison whose ground-truth constraint admits equality is written so
that the equality case is offered (exclusions strict, admissions non-strict), and no
threshold is shifted to the strict side.  Not decided: equality of the mask-reachable solution
set with the feasible set (needs exhaustive exploration -- other technique families)."""
from __future__ import annotations

from .. import nf, vg
from ..core import Ctx
from ..envs import EnvA
from ..tables import routing as T
from ..tables import scheduling as TS
from .C01 import check_literals, mask_root, bound_state_exact
from ..model import AnalysisError

FLOOR = 165
EXPLANATION = (
    "Static comparison normal forms: each constraint comparison reaching a feasibility mask (13 routing env classes, FJSP/JSSP "
    "availability) is matched to its reference literal and must be no tighter than the ground-truth inequality "
    "(strict vs non-strict, constant shift). Decides only the boundary clause of C05 (equality cases are offered); the "
    "reachable-set = feasible-set clause is not decidable statically and is not claimed."
)
RULE = "one obligation per (env class, comparison literal with a stated boundary); violation = comparison strict where equality is feasible, or threshold shifted to the strict side"


def depot_part(s, sign=+1):
    """(node, sign) of the padding (depot) column of a mask expression: first item of the cat, or the value stored at column 0"""
    s = nf.strip(s, bool_ctx=True)
    if s.op in ("inv", "not"):
        return depot_part(s.args[0], -sign)
    fn = nf._fn(s)
    if fn in ("torch.cat", "torch.concat") and len(s.args) >= 2:
        items = nf._seq_items(s.args[1])
        if items and len(items) >= 2:
            return items[0], sign
    if s.op == "store":
        idx = s.args[1]
        items = idx.args if idx.op == "tuple" else (idx,)
        if items and vg.is_const(items[-1], 0) and not isinstance(items[-1].args[0], bool):
            return s.args[2], sign
        return depot_part(s.args[0], sign)
    if s.op == "meth" and s.args[1] in ("squeeze", "unsqueeze", "to", "clone"):
        return depot_part(s.args[0], sign)
    return None


def depot_open_away_from_depot(ctx: Ctx, env: EnvA, sl, root):
    """C05.c the documented pruning concerns depot -> depot moves only: whenever the vehicle is NOT at the depot (and, in SVRP,
    the technician is not the last one) the depot column is open, whatever the customers' state is -- three-valued evaluation
    of the depot column under `current_node == 0` := False."""
    dp = depot_part(root)
    if dp is None:
        return
    node, sign = dp

    def assume(n):
        c = nf.cmpnf(n)
        if c is None:
            return None
        cells = vg.cells_of(n)
        if cells == {"current_node"} and c[1] in ("==0", "!=0"):
            return c[1] == "!=0"
        if "current_tech" in cells and c[1] in ("==0", "!=0"):
            return c[1] == "!=0"          # not the last technician
        return None
    v = nf.kleene(node, assume, sign)
    ctx.ob("C05.c", f"{env.name}.mask:depot-open-away-from-the-depot", v is True, sl.where,
           "with the vehicle away from the depot the depot column evaluates to open for every state of the customers" if v is True else
           f"with the vehicle away from the depot the depot column evaluates to {v}: returning to the depot is hidden in states where the problem allows it "
           "(only the pointless depot -> depot move may be pruned)", construct=f"{sl.fi.qualname}:depot-open-away-from-depot")


DEPOT_PRUNING_ENVS = ("CVRPEnv", "SDVRPEnv", "SVRPEnv", "MTVRPEnv")


def extra_rules(ctx: Ctx, env: EnvA, sl, root, lits, bool_cells):
    """C05.b every conjunctive constraint literal of the mask instantiates a literal of the
    reference row (the mask imposes nothing beyond the problem definition);
    C05.c every admitting alternative of the row is present."""
    from ..envs import leaf_matches, find_literal, show_leaf
    leaves = nf.boolwalk(root, bool_cells)
    for l in leaves:
        if not l.conj or l.reduced or l.sign == 0:
            continue
        if l.node.op in ("constfill", "const", "loopvar"):
            continue
        matched = [lit.name for lit in lits if leaf_matches(l, lit)[0]]
        # a conjunct only instantiates a reference literal if it brings no quantity of its own on the tightening side: `capacity -
        # used - demand >= 0` next to the SDVRP literal `capacity - used > 0` is the parent's CVRP rule, not a second copy of it
        # (decided per conjunct, independently of which leaf the matcher assigns to the literal)
        if matched and l.cmp() is not None:
            pol_ = nf.polarity(l.cmp()[0].to_sym())
            clean = []
            for lit in lits:
                if lit.name in matched and lit.kind == "cmp":
                    exp_ = lit.expected_signs()
                    if not any(k_ not in exp_ and -1 in v_ for k_, v_ in pol_.items()):
                        clean.append(lit.name)
                elif lit.name in matched:
                    clean.append(lit.name)
            matched = clean
        txt = show_leaf(l)
        ctx.ob("C05.b", f"{env.name}.mask:conjunct:{txt[:60]}", bool(matched), sl.where,
               (f"`{txt}` instantiates {matched}" if matched else
                f"the mask requires `{txt}` for every offered action, but no constraint of the problem's reference row has these operands on these sides: "
                f"an extra or altered constraint can hide feasible actions"),
               construct=f"{sl.fi.qualname}:extra-conjunct:{','.join(sorted(vg.cells_of(l.node)))}")
    for lit in lits:
        if not lit.alt:
            continue
        good, elsewhere, rev = find_literal(leaves, lit)
        if lit.optional and not good and not elsewhere:
            # a pruning that is not applied at all hides nothing
            ctx.ob("C05.c", f"{env.name}.mask:alternative:{lit.name}", True, sl.where, f"optional pruning '{lit.name}' is not applied", construct=f"{sl.fi.qualname}:{lit.name}:alternative-missing")
            continue
        ctx.ob("C05.c", f"{env.name}.mask:alternative:{lit.name}", bool(good), sl.where,
               (f"admitting alternative '{lit.name}' present: {show_leaf(good[0])}" if good else
                f"admitting alternative '{lit.name}' is missing from the mask: actions it should offer are hidden. {lit.why}"),
               construct=f"{sl.fi.qualname}:{lit.name}:alternative-missing")


def state_the_mask_reads(ctx: Ctx):
    """C05.k the quantities a mask compares against follow their reference recurrence in `_step`: an accumulator that is not
    restarted at the depot, grows with the wrong inputs, or a clock that counts a service time twice makes the mask compare
    against MORE than was used -- feasible actions (the exact fill, the last reachable customer) are closed.  These are the
    exact-form rules C01.e (restart at the depot), C01.h (direction of every input) and C01.t (clock formula) of C01, run here
    because over-counting hides solutions just as under-counting admits infeasible ones; and the mask itself is computed row
    by row (the batch-axis engine of C04 on the mask sinks of the routing environments: a leg length taken as ONE norm over the
    whole batch grows every instance's tour by the legs of all others)."""
    from . import C01
    n0 = len(ctx.obligations)
    for cname, (path, family) in T.ENVS.items():
        env = EnvA(ctx.repo, path, cname)
        C01.rule_e(ctx, env)
        C01.rule_h(ctx, env)
        C01.clock_update(ctx, env)
    for o in ctx.obligations[n0:]:
        o.rule = "C05.k"
    if len(ctx.obligations) - n0 < 10:
        raise AnalysisError(f"state-update obligations lost: {len(ctx.obligations) - n0}")
    C01.op_lengths(ctx, "C05.l")
    C01.depot_first_layout(ctx, "C05.m")
    from .C04 import batch_rows
    batch_rows(ctx, "C05.k", envs=tuple(T.ENVS), meths=("_step", "get_action_mask"),
               sink_ok=lambda cname, meth, sink: sink == "return" or sink in ("cell:action_mask",))


def run(ctx: Ctx):
    for cname, (path, family) in T.ENVS.items():
        env = EnvA(ctx.repo, path, cname)
        sl, root = mask_root(env, family)
        ctx.fn(sl.fi)
        check_literals(ctx, "C05", env, sl, root, T.MASK[cname], "mask", "tighter")
        bound_state_exact(ctx, "C05.f", env, T.MASK[cname], "tighter")
        if cname == "SVRPEnv":
            # the documented pruning covers *pointless* moves.  In SVRP depot -> depot is the hand-over to the next technician:
            # closing the depot because the vehicle stands at the depot forbids `this technician stays idle`, which can be optimal
            lv = [l for l in nf.boolwalk(root, T.BOOL_CELLS) if l.cmp() is not None and l.cmp()[1] in ("==0", "!=0") and vg.cells_of(l.node) == {"current_node"}]
            ctx.ob("C05.c", "SVRPEnv.mask:technician-hand-over-not-pruned", not lv, sl.where,
                   "the depot column does not depend on `the vehicle is at the depot`" if not lv else
                   f"the depot is closed while {vg.show(lv[0].node, 3)} (and a servable customer exists): the CVRP pruning of depot -> depot moves, but in SVRP that move "
                   "sends out the next technician -- a cheaper, less skilled technician can never be left idle, so feasible (and possibly optimal) solutions are not offered",
                   construct="SVRPEnv.get_action_mask:depot-handover-pruned")
        if cname in DEPOT_PRUNING_ENVS:
            depot_open_away_from_depot(ctx, env, sl, root)
        if cname != "MDCPDPEnv":
            extra_rules(ctx, env, sl, root, T.MASK[cname], T.BOOL_CELLS)
        else:
            # slice-wise in-place refinements: decided per column class by truth table (shared with C01.p)
            from .C01 import mdcpdp_mask_classes
            mdcpdp_mask_classes(ctx, env, "tighter")
    state_the_mask_reads(ctx)
    wait_not_pruned_by_default(ctx)
    mtsp_depot_column(ctx)
    from .C01 import mtsp_agent_counter
    mtsp_agent_counter(ctx, EnvA(ctx.repo, T.ENVS["MTSPEnv"][0], "MTSPEnv"), "C05.j")
    old = T.BOOL_CELLS
    try:
        T.BOOL_CELLS = TS.BOOL_CELLS
        for cname, path in TS.ENVS.items():
            env = EnvA(ctx.repo, path, cname)
            sl, root = mask_root(env, "recompute")
            ctx.fn(sl.fi)
            check_literals(ctx, "C05", env, sl, root, TS.AVAIL, "mask", "tighter")
            extra_rules(ctx, env, sl, root, TS.AVAIL, TS.BOOL_CELLS)
        # FFSP: the mask is written by _update_step_state
        env = EnvA(ctx.repo, "rl4co/envs/scheduling/ffsp/env.py", "FFSPEnv")
        sl = env.slot("_update_step_state")
        if sl is None or sl.cell("action_mask") is None:
            from ..model import AnalysisError
            raise AnalysisError("FFSPEnv._update_step_state: action_mask not written")
        ctx.fn(sl.fi)
        root = sl.cell("action_mask")
        check_literals(ctx, "C05", env, sl, root, TS.FFSP, "mask", "tighter")
        ffsp_idle_allowed(ctx, sl, root)
        extra_rules(ctx, env, sl, root, TS.FFSP, TS.BOOL_CELLS)
    finally:
        T.BOOL_CELLS = old


def wait_not_pruned_by_default(ctx: Ctx):
    """C05.g job shop: keeping a machine idle although an operation could start is NOT a pointless move -- the optimum may need
    it (delay schedules).  The wait action may be closed only when nothing is in process (waiting would not change the state).
    `mask_no_ops` closes it for every unfinished instance; the obligation is judged for the constructor's DEFAULT of that flag."""
    import ast
    from ..model import AnalysisError
    cls = ctx.repo.get_class("rl4co/envs/scheduling/fjsp/env.py", "FJSPEnv")
    ini, gm = cls.methods.get("__init__"), cls.methods.get("get_action_mask")
    if ini is None or gm is None:
        raise AnalysisError("FJSPEnv.__init__ / get_action_mask not found")
    ctx.fn(gm)
    a = ini.node.args
    names = [x.arg for x in a.args]
    defaults = dict(zip(names[len(names) - len(a.defaults):], a.defaults))
    flag = None
    for n in ast.walk(ini.node):
        if isinstance(n, ast.Assign) and isinstance(n.targets[0], ast.Attribute) and isinstance(n.value, ast.Name) and n.value.id in defaults \
                and isinstance(defaults[n.value.id], ast.Constant) and isinstance(defaults[n.value.id].value, bool):
            for i in [x for x in ast.walk(gm.node) if isinstance(x, ast.If)]:
                t = i.test
                neg = isinstance(t, ast.UnaryOp) and isinstance(t.op, ast.Not)
                t0 = t.operand if neg else t
                if isinstance(t0, ast.Attribute) and isinstance(t0.value, ast.Name) and t0.value.id == "self" and t0.attr == n.targets[0].attr:
                    flag = (n.targets[0].attr, defaults[n.value.id].value, i, neg)
    if flag is None:
        raise AnalysisError("FJSPEnv.get_action_mask: no branch on a boolean constructor flag found")
    attr, dflt, branch, neg = flag
    taken = branch.body if (dflt != neg) else branch.orelse
    reads = {c.slice.value for st in taken for c in ast.walk(st) if isinstance(c, ast.Subscript) and isinstance(c.slice, ast.Constant) and isinstance(c.slice.value, str)}
    ok = "job_in_process" in reads
    ctx.ob("C05.g", "FJSPEnv.get_action_mask:wait-open-while-a-machine-is-busy", ok, gm.loc,
           f"default {attr}={dflt}: the wait column is computed from {sorted(reads)}" +
           ("" if ok else " only -- waiting is closed for every unfinished instance, so only non-delay schedules are reachable and the optimum can be cut off (JSSP inherits this)"),
           construct="FJSPEnv.get_action_mask:wait-closed-by-default")


def ffsp_idle_allowed(ctx: Ctx, sl, root):
    """C05.h flexible flow shop with unrelated machines: leaving the offered machine idle is not a pointless move while another
    machine of the stage can still take the job (it may be much faster).  The wait column must not be forced shut in the
    configuration `all remaining jobs of the stage are available, instance unfinished` -- there the env dispatches whatever
    machine comes first in its fixed order."""
    from ..model import AnalysisError
    cats = [n for n in vg.walk(root) if nf._fn(n) == "torch.cat" and len(nf._seq_items(n.args[1]) or []) == 2]
    if len(cats) != 1:
        raise AnalysisError(f"FFSPEnv._update_step_state: expected cat((job columns, wait column)), found {len(cats)}")
    wait = nf._seq_items(cats[0].args[1])[-1]

    def assume(n):
        x = nf.strip(n, True)
        if x.op == "cell0" and x.args[1] == "done":
            return False
        if x.op == "meth" and x.args[1] == "any":
            return False              # no job upstream, no job still being processed upstream
        if x.op in ("phi", "ifexp"):
            vals = {assume(a) for a in x.args[1:]}
            return False if vals == {False} else None
        if x.op == "meth" and x.args[1] in ("squeeze", "unsqueeze", "view", "reshape"):
            return assume(x.args[0])
        return None
    v = nf.kleene(wait, assume)
    ok = v is not False
    ctx.ob("C05.h", "FFSPEnv:idle-allowed-when-all-jobs-are-available", ok, sl.where,
           f"wait column {vg.show(wait, 4)[:110]} evaluates to {v} when every remaining job of the stage is available and the instance is unfinished" +
           ("" if ok else ": the offered machine MUST take a job, although machines are unrelated and a faster one may be offered next -- schedules that leave it idle (possibly all optimal ones) are not reachable"),
           construct="FFSPEnv._update_step_state:forced-dispatch")


def mtsp_depot_column(ctx: Ctx):
    """C05.j / C01.s mTSP depot column by truth table: the depot is offered iff (the vehicle is not at the depot AND another agent
    remains) OR the instance is finished -- over the three flags (at depot, agents left, done), evaluated through the two
    column stores of `_step`.  Both directions: an entry opened where the reference closes it admits a sub-tour too many or an
    empty one (C01), an entry closed where the reference opens it hides every multi-agent solution (C05)."""
    import itertools
    from ..model import AnalysisError
    env = EnvA(ctx.repo, T.ENVS["MTSPEnv"][0], "MTSPEnv")
    sl = env.slot("_step")
    root = sl.cell("action_mask")
    col0 = lambda idx: isinstance(idx, vg.S) and idx.op == "tuple" and len(idx.args) == 2 and idx.args[0].op == "ellipsis" and vg.is_const(idx.args[1], 0)
    top = nf.strip(root)
    if not (top.op == "store" and col0(top.args[1])):
        raise AnalysisError("MTSPEnv._step: the mask does not end with a store into the depot column")

    def value_of(n, f, depth=0):
        def assume(x):
            y = nf.strip(x, True)
            if y.op == "sub" and col0(y.args[1]) and nf.strip(y.args[0]).op == "store" and col0(nf.strip(y.args[0]).args[1]):
                return value_of(nf.strip(y.args[0]).args[2], f, depth + 1)
            c = nf.cmpnf(y)
            if c is None:
                return None
            P, op = c
            cells = set()
            for a_ in P.atoms():
                cells |= vg.cells_of(a_)
            if cells == {"action"} and op in ("==0", "!=0") and P.const_term() == 0:
                return f["at"] if op == "==0" else not f["at"]
            if cells == {"agent_idx", "num_agents"}:
                pos, neg = nf.sided_cells(P)
                k = P.const_term()
                if "num_agents" in pos and "agent_idx" in neg and ((op == ">0" and k == -1) or (op == ">=0" and k == -2)):
                    return f["left"]
                if "agent_idx" in pos and "num_agents" in neg and ((op == ">=0" and k == 1) or (op == ">0" and k == 2)):
                    return not f["left"]
                return None
            if any(nf._fn(a_) == "torch.count_nonzero" or (a_.op == "meth" and a_.args[1] == "count_nonzero") for a_ in P.atoms()):
                if op == "==0":
                    return f["done"]
                if op in ("!=0", ">0"):
                    return not f["done"]
            return None
        return nf.kleene(n, assume) if depth < 6 else None

    bad_open, bad_closed, undec = [], [], 0
    for bits in itertools.product([False, True], repeat=3):
        f = dict(zip(("at", "left", "done"), bits))
        v = value_of(top.args[2], f)
        ref = ((not f["at"]) and f["left"]) or f["done"]
        tag = "".join(k[0] if f[k] else "-" for k in ("at", "left", "done"))
        if v is None:
            undec += 1
        elif v and not ref:
            bad_open.append(tag)
        elif ref and not v:
            bad_closed.append(tag)
    ctx.ob("C05.j", "MTSPEnv.mask:depot-column", not bad_closed and not bad_open and undec == 0, sl.where,
           f"depot offered iff (not at the depot & an agent is left) | done over 8 assignments of (at depot, agents left, done): opened against the reference {bad_open}, "
           f"closed against the reference {bad_closed}, undetermined {undec}", construct="MTSPEnv._step:depot-column:truth-table")


def run_thorough(ctx: Ctx):
    from ..selftest.corpus import for_prop
    from ..selftest.runner import run_corpus
    run_corpus(ctx, for_prop("C05"))
