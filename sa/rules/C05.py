"""C05 -- the mask never hides a feasible solution: *boundary clause only*.

Decided: every mask comparison whose ground-truth constraint admits equality is written so
that the equality case is offered (exclusions strict, admissions non-strict), and no
threshold is shifted to the strict side.  Not decided: equality of the mask-reachable solution
set with the feasible set (needs exhaustive exploration -- other technique families)."""
from __future__ import annotations

from .. import nf, vg
from ..core import Ctx
from ..envs import EnvA
from ..tables import routing as T
from ..tables import scheduling as TS
from .C01 import check_literals, mask_root

FLOOR = 50
EXPLANATION = (
    "Static comparison normal forms: each constraint comparison reaching a feasibility mask (13 routing env classes, FJSP/JSSP "
    "availability) is matched to its reference literal and must be no tighter than the ground-truth inequality "
    "(strict vs non-strict, constant shift). Decides only the boundary clause of C05 (equality cases are offered); the "
    "reachable-set = feasible-set clause is not decidable statically and is not claimed."
)
RULE = "one obligation per (env class, comparison literal with a stated boundary); violation = comparison strict where equality is feasible, or threshold shifted to the strict side"


def extra_rules(ctx: Ctx, env: EnvA, sl, root, lits, bool_cells):
    """C05.b every conjunctive constraint literal of the mask instantiates a literal of the
    reference row (the mask imposes nothing beyond the problem definition);
    C05.c every admitting alternative of the row is present."""
    from ..envs import leaf_matches, find_literal, show_leaf
    leaves = nf.boolwalk(root, bool_cells)
    for l in leaves:
        if not l.conj or l.reduced or l.sign == 0:
            continue
        if l.node.op in ("constfill", "const", "loopvar"):
            continue
        matched = [lit.name for lit in lits if leaf_matches(l, lit)[0]]
        txt = show_leaf(l)
        ctx.ob("C05.b", f"{env.name}.mask:conjunct:{txt[:60]}", bool(matched), sl.where,
               (f"`{txt}` instantiates {matched}" if matched else
                f"the mask requires `{txt}` for every offered action, but no constraint of the problem's reference row has these operands on these sides: "
                f"an extra or altered constraint can hide feasible actions"),
               construct=f"{sl.fi.qualname}:extra-conjunct:{','.join(sorted(vg.cells_of(l.node)))}")
    for lit in lits:
        if not lit.alt:
            continue
        good, elsewhere, rev = find_literal(leaves, lit)
        ctx.ob("C05.c", f"{env.name}.mask:alternative:{lit.name}", bool(good), sl.where,
               (f"admitting alternative '{lit.name}' present: {show_leaf(good[0])}" if good else
                f"admitting alternative '{lit.name}' is missing from the mask: actions it should offer are hidden. {lit.why}"),
               construct=f"{sl.fi.qualname}:{lit.name}:alternative-missing")


def run(ctx: Ctx):
    for cname, (path, family) in T.ENVS.items():
        env = EnvA(ctx.repo, path, cname)
        sl, root = mask_root(env, family)
        ctx.fn(sl.fi)
        check_literals(ctx, "C05", env, sl, root, T.MASK[cname], "mask", "tighter")
        if cname != "MDCPDPEnv":
            extra_rules(ctx, env, sl, root, T.MASK[cname], T.BOOL_CELLS)
        else:
            # slice-wise in-place refinements: decided per column class by truth table (shared with C01.p)
            from .C01 import mdcpdp_mask_classes
            mdcpdp_mask_classes(ctx, env, "tighter")
    old = T.BOOL_CELLS
    try:
        T.BOOL_CELLS = TS.BOOL_CELLS
        for cname, path in TS.ENVS.items():
            env = EnvA(ctx.repo, path, cname)
            sl, root = mask_root(env, "recompute")
            ctx.fn(sl.fi)
            check_literals(ctx, "C05", env, sl, root, TS.AVAIL, "mask", "tighter")
            extra_rules(ctx, env, sl, root, TS.AVAIL, TS.BOOL_CELLS)
        # FFSP: the mask is written by _update_step_state
        env = EnvA(ctx.repo, "rl4co/envs/scheduling/ffsp/env.py", "FFSPEnv")
        sl = env.slot("_update_step_state")
        if sl is None or sl.cell("action_mask") is None:
            from ..model import AnalysisError
            raise AnalysisError("FFSPEnv._update_step_state: action_mask not written")
        ctx.fn(sl.fi)
        root = sl.cell("action_mask")
        check_literals(ctx, "C05", env, sl, root, TS.FFSP, "mask", "tighter")
        extra_rules(ctx, env, sl, root, TS.FFSP, TS.BOOL_CELLS)
    finally:
        T.BOOL_CELLS = old


def run_thorough(ctx: Ctx):
    from ..selftest.corpus import for_prop
    from ..selftest.runner import run_corpus
    run_corpus(ctx, for_prop("C05"))
