"""C17 -- datasets, collation and baseline wrapping preserve identity and order.

C17.a  every DataLoader over an rl4co dataset passes that dataset's own collate_fn
C17.b  loaders whose per-batch results are attached to / reported per instance (RolloutBaseline.rollout,
       MDAM rollout, evaluate_policy, test utilities) have no truthy shuffle / sampler / drop_last, and
       their consumers concatenate per-batch results in iteration order on dim 0
C17.c  wrap_dataset rolls out the dataset it was given and attaches the values to that same object
       under the key REINFORCE reads ('extra'); ExtraKeyDataset indexes data and extra with one index
       and asserts equal lengths
C17.d  TensorDictDataset disassembles by position i in range(len) and collate_fn stacks in batch
       order; FastTdDataset / FastGeneration index every key with the index they were given
"""
from __future__ import annotations

import ast

from ..core import Ctx
from ..model import AnalysisError

FLOOR = 20
EXPLANATION = (
    "Static (AST) analysis of every torch DataLoader construction in the package, of the dataset classes in rl4co/data/dataset.py, "
    "of RolloutBaseline.rollout/wrap_dataset, EvalBase.__call__ and evaluate_policy: own collate_fn, no shuffling/sampling/"
    "drop_last where per-instance values are attached or reported, in-order concatenation on dim 0, same-index access of data and "
    "extra values, positional disassembly and in-order stacking. Structural necessary conditions for every set size and batch "
    "size; dtype/shape preservation through torch operations is not decided."
)
RULE = "one obligation per DataLoader site / dataset method / consumer"
DS = "rl4co/data/dataset.py"
BL = "rl4co/models/rl/reinforce/baselines.py"
ORDER_SENSITIVE = {"RolloutBaseline.rollout", "rollout", "evaluate_policy", "get_dataloader"}


def kw(call, name):
    for k in call.keywords:
        if k.arg == name:
            return k.value
    return None


def truthy(node) -> bool:
    if node is None:
        return False
    if isinstance(node, ast.Constant):
        return bool(node.value)
    return True  # a non-constant expression may be true


def run(ctx: Ctx):
    sites = []
    for mi in ctx.repo.modules.values():
        for node in ast.walk(mi.tree):
            if isinstance(node, ast.Call) and isinstance(node.func, ast.Name) and node.func.id == "DataLoader":
                ctx.repo.note(mi)
                fn, _ = ctx.repo.locate(mi.relpath, node.lineno, node.col_offset, getattr(node, "end_lineno", 0), getattr(node, "end_col_offset", 0))
                sites.append((mi, node, fn))
    if len(sites) < 6:
        raise AnalysisError(f"only {len(sites)} DataLoader sites found (expected >= 6)")
    for mi, node, fn in sites:
        ds = ast.unparse(node.args[0]) if node.args else (ast.unparse(kw(node, "dataset")) if kw(node, "dataset") is not None else "?")
        cf = kw(node, "collate_fn")
        ok = cf is not None and ast.unparse(cf) == f"{ds}.collate_fn"
        ctx.ob("C17.a", f"{fn}:DataLoader({ds})", ok, f"{mi.relpath}:{node.lineno}",
               f"collate_fn={ast.unparse(cf) if cf is not None else 'default'}" + ("" if ok else f" -- must be {ds}.collate_fn (the default collate cannot rebuild TensorDicts / loses the dataset's own batching)"),
               construct=f"{fn}:collate_fn")
        if fn in ORDER_SENSITIVE or fn.split(".")[-1] in ("rollout",):
            bad = [n for n in ("shuffle", "sampler", "batch_sampler", "drop_last") if truthy(kw(node, n))]
            ctx.ob("C17.b", f"{fn}:order-preserving-loader", not bad, f"{mi.relpath}:{node.lineno}",
                   "no shuffle / sampler / drop_last: batches arrive in dataset order and cover every item" if not bad else
                   f"{bad} set on a loader whose per-batch results are attached to / reported per instance in dataset order",
                   construct=f"{fn}:loader-order")
        ctx.sample({"site": f"{mi.relpath}:{node.lineno}", "function": fn, "dataset": ds})
    # consumers: in-order concatenation
    for rel, fn in ((BL, "RolloutBaseline.rollout"), ("rl4co/models/zoo/mdam/model.py", "rollout")):
        fi = ctx.repo.get_function(rel, fn)
        ctx.fn(fi)
        cats = [n for n in ast.walk(fi.node) if isinstance(n, ast.Call) and ast.unparse(n.func) == "torch.cat"]
        ok = False
        for c in cats:
            a0 = c.args[0]
            if isinstance(a0, ast.ListComp) and len(a0.generators) == 1 and not a0.generators[0].ifs and ast.unparse(a0.generators[0].iter) == "dl":
                dim = c.args[1] if len(c.args) > 1 else kw(c, "dim")
                ok = dim is not None and isinstance(dim, ast.Constant) and dim.value == 0
        ctx.ob("C17.b", f"{fn}:concat-in-order", ok, fi.loc, "torch.cat([f(batch) for batch in dl], 0)", construct=f"{fn}:concat")
    fi = ctx.repo.get_function("rl4co/tasks/eval.py", "EvalBase.__call__")
    ctx.fn(fi)
    src = ast.unparse(fi.node)
    loops = [n for n in ast.walk(fi.node) if isinstance(n, ast.For)]
    ok = False
    for lp in loops:
        body = [ast.unparse(b) for b in lp.body]
        if "rewards_list.append(rewards)" in body and "actions_list.append(actions)" in body and "dataloader" in ast.unparse(lp.iter):
            ok = "rewards = torch.cat(rewards_list)" in src and "for action in actions_list], 0)" in src.replace("\n", " ").replace("  ", " ")
    ctx.ob("C17.b", "EvalBase.__call__:pairwise-append-and-concat", ok, fi.loc, "rewards and actions appended pairwise per batch, concatenated in loader order on dim 0", construct="EvalBase.__call__:concat")
    # wrap_dataset
    rb = ctx.repo.get_class(BL, "RolloutBaseline")
    fi = rb.methods["wrap_dataset"]
    ctx.fn(fi)
    dparam = fi.params()[1]
    rolls = [n for n in ast.walk(fi.node) if isinstance(n, ast.Call) and ast.unparse(n.func) == "self.rollout"]
    addk = [n for n in ast.walk(fi.node) if isinstance(n, ast.Call) and isinstance(n.func, ast.Attribute) and n.func.attr == "add_key"]
    ok = len(rolls) == 1 and len(addk) == 1
    if ok:
        dsarg = kw(rolls[0], "dataset") or (rolls[0].args[4] if len(rolls[0].args) > 4 else None)
        ok = isinstance(dsarg, ast.Name) and dsarg.id == dparam and isinstance(addk[0].func.value, ast.Name) and addk[0].func.value.id == dparam and \
            isinstance(addk[0].args[0], ast.Constant) and addk[0].args[0].value == "extra"
        if ok:
            # the attached value is the rollout result (through .detach()/.cpu())
            val = addk[0].args[1]
            ok = isinstance(val, ast.Name) and any(isinstance(a, ast.Assign) and isinstance(a.targets[0], ast.Name) and a.targets[0].id == val.id and rolls[0] in list(ast.walk(a.value)) for a in ast.walk(fi.node))
    ctx.ob("C17.c", "RolloutBaseline.wrap_dataset", ok, fi.loc, "values computed on `dataset` are attached to that same `dataset` under 'extra'", construct="RolloutBaseline.wrap_dataset:same-dataset")
    rf = ctx.repo.get_function("rl4co/models/rl/reinforce/reinforce.py", "REINFORCE.calculate_loss")
    ctx.ob("C17.c", "REINFORCE.calculate_loss:reads-extra", "batch.get('extra', None)" in ast.unparse(rf.node), rf.loc, "the attached value is read back under the same key", construct="REINFORCE.calculate_loss:extra-key")
    ek = ctx.repo.get_class(DS, "ExtraKeyDataset")
    gi = ek.methods["__getitem__"]
    ctx.fn(gi)
    ip = gi.params()[1]
    subs = {}
    for n in ast.walk(gi.node):
        if isinstance(n, ast.Subscript) and isinstance(n.value, ast.Attribute) and isinstance(n.value.value, ast.Name) and n.value.value.id == "self" and n.value.attr in ("data", "extra"):
            subs.setdefault(n.value.attr, []).append(ast.unparse(n.slice))
    ok = subs.get("data") == [ip] and subs.get("extra") == [ip]
    ctx.ob("C17.c", "ExtraKeyDataset.__getitem__:same-index", ok, gi.loc, "data[idx] and extra[idx] use one index", construct="ExtraKeyDataset.__getitem__:index")
    ini = ek.methods["__init__"]
    src = ast.unparse(ini.node)
    ok = "assert self.data_len == len(extra)" in src and "self.data = dataset.data" in src and "self.extra = extra" in src
    ctx.ob("C17.c", "ExtraKeyDataset.__init__", ok, ini.loc, "lengths asserted equal; data and extra stored unpermuted", construct="ExtraKeyDataset.__init__:lengths")
    for cn in ("TensorDictDataset", "FastTdDataset"):
        c = ctx.repo.get_class(DS, cn)
        ak = c.methods["add_key"]
        ok = "return ExtraKeyDataset(self, value, key_name=key)" in ast.unparse(ak.node)
        ctx.ob("C17.c", f"{cn}.add_key", ok, ak.loc, "wraps this dataset (no copy / reorder)", construct=f"{cn}.add_key")
    # disassembly / collate
    td = ctx.repo.get_class(DS, "TensorDictDataset")
    ini = td.methods["__init__"]
    ctx.fn(ini)
    comps = [n for n in ast.walk(ini.node) if isinstance(n, ast.ListComp)]
    ok = False
    for c in comps:
        if len(c.generators) == 1 and ast.unparse(c.generators[0].iter) == "range(self.data_len)" and not c.generators[0].ifs and isinstance(c.elt, ast.DictComp):
            d = c.elt
            ok = ast.unparse(d.value) == f"value[{ast.unparse(c.generators[0].target)}]" and ast.unparse(d.generators[0].iter) == "td.items()"
    ctx.ob("C17.d", "TensorDictDataset.__init__:positional", ok, ini.loc, "[{key: value[i] for key, value in td.items()} for i in range(len)]", construct="TensorDictDataset.__init__:disassembly")
    cf = td.methods["collate_fn"]
    ctx.fn(cf)
    bp = cf.params()[0]
    src = ast.unparse(cf.node)
    stacks = [n for n in ast.walk(cf.node) if isinstance(n, ast.Call) and ast.unparse(n.func) == "torch.stack"]
    ok = len(stacks) == 1 and isinstance(stacks[0].args[0], ast.ListComp)
    if ok:
        lc = stacks[0].args[0]
        g = lc.generators[0]
        ok = len(lc.generators) == 1 and not g.ifs and isinstance(g.iter, ast.Name) and g.iter.id == bp and isinstance(lc.elt, ast.Subscript) and \
            isinstance(lc.elt.value, ast.Name) and isinstance(g.target, ast.Name) and lc.elt.value.id == g.target.id
        ok = ok and f"len({bp})" in src and not any(w in src for w in ("sorted(", "reversed(", "set(", "shuffle"))
    ctx.ob("C17.d", "TensorDictDataset.collate_fn:in-order-stack", ok, cf.loc, "every key stacked over the batch in batch order", construct="TensorDictDataset.collate_fn:stack")
    gi = td.methods["__getitem__"]
    ctx.ob("C17.d", "TensorDictDataset.__getitem__", f"return self.data[{gi.params()[1]}]" in ast.unparse(gi.node), gi.loc, "returns item idx", construct="TensorDictDataset.__getitem__")
    ft = ctx.repo.get_class(DS, "FastTdDataset")
    gi = ft.methods["__getitems__"]
    ctx.ob("C17.d", "FastTdDataset.__getitems__", f"return self.data[{gi.params()[1]}]" in ast.unparse(gi.node), gi.loc, "indexes the TensorDict with the given indices", construct="FastTdDataset.__getitems__")
    fg = ctx.repo.get_class(DS, "TensorDictDatasetFastGeneration")
    gi = fg.methods["__getitems__"]
    src = ast.unparse(gi.node)
    ixp = gi.params()[1]
    dcs = [n for n in ast.walk(gi.node) if isinstance(n, ast.DictComp)]
    ok = len(dcs) == 1 and isinstance(dcs[0].value, ast.Subscript) and ast.unparse(dcs[0].value.slice) == ixp and ast.unparse(dcs[0].generators[0].iter) == "self.data.items()" and f"len({ixp})" in src
    ctx.ob("C17.d", "TensorDictDatasetFastGeneration.__getitems__", ok, gi.loc, "every key indexed with the same index list", construct="TensorDictDatasetFastGeneration.__getitems__")
    for cn in ("FastTdDataset", "TensorDictDatasetFastGeneration"):
        c = ctx.repo.get_class(DS, cn)
        cfn = c.methods["collate_fn"]
        ctx.ob("C17.d", f"{cn}.collate_fn:identity", "return batch" in ast.unparse(cfn.node) and len(cfn.node.body) <= 2, cfn.loc, "batched __getitems__ result passed through", construct=f"{cn}.collate_fn")
    # the index handed in by the sampler is used as is
    for cn, mn in (("FastTdDataset", "__getitems__"), ("TensorDictDatasetFastGeneration", "__getitems__"), ("TensorDictDataset", "__getitem__"), ("ExtraKeyDataset", "__getitem__")):
        c = ctx.repo.get_class(DS, cn)
        m = c.methods[mn]
        ip = m.params()[1]
        rebound = [n for n in ast.walk(m.node) if isinstance(n, ast.Name) and n.id == ip and isinstance(n.ctx, ast.Store)]
        ctx.ob("C17.d", f"{cn}.{mn}:index-not-rewritten", not rebound, m.loc,
               f"the index parameter `{ip}` is used as given" if not rebound else f"the index parameter `{ip}` is rebound before use: items may be fetched for other positions than requested",
               construct=f"{cn}.{mn}:index-rebound")
    # evaluation loaders of the Lightning module keep dataset order
    for mn in ("_dataloader", "_dataloader_single"):
        fi2 = ctx.repo.get_function("rl4co/models/rl/common/base.py", f"RL4COLitModule.{mn}")
        a = fi2.node.args
        names = [x.arg for x in a.args]
        dflt = dict(zip(names[len(names) - len(a.defaults):], a.defaults))
        d = dflt.get("shuffle")
        okd = isinstance(d, ast.Constant) and d.value is False
        rebound = [n for n in ast.walk(fi2.node) if isinstance(n, ast.Name) and n.id == "shuffle" and isinstance(n.ctx, ast.Store)]
        ctx.ob("C17.b", f"RL4COLitModule.{mn}:shuffle-default-false", okd and not rebound, fi2.loc,
               "shuffle defaults to False and is passed through unchanged: val/test loaders (which do not pass it) keep dataset order" if (okd and not rebound) else
               "the default / value of `shuffle` is not the constant False: validation and test loaders may be shuffled",
               construct=f"RL4COLitModule.{mn}:shuffle-default")
    tl = ctx.repo.get_function("rl4co/models/rl/common/base.py", "RL4COLitModule.train_dataloader")
    vl = ctx.repo.get_function("rl4co/models/rl/common/base.py", "RL4COLitModule.val_dataloader")
    ok = "self.shuffle_train_dataloader" in ast.unparse(tl.node) and "shuffle" not in ast.unparse(vl.node)
    ctx.ob("C17.b", "RL4COLitModule:train-vs-val-shuffle", ok, tl.loc, "only the training loader receives the shuffle setting", construct="RL4COLitModule:loader-shuffle")
    # training loader
    fi = ctx.repo.get_function("rl4co/models/rl/common/base.py", "RL4COLitModule._dataloader_single")
    ctx.fn(fi)
    ok = "shuffle=shuffle" in ast.unparse(fi.node) and "collate_fn=dataset.collate_fn" in ast.unparse(fi.node)
    ctx.ob("C17.a", "RL4COLitModule._dataloader_single", ok, fi.loc, "shuffling happens inside the loader over (instance, extra) items, after wrapping", construct="RL4COLitModule._dataloader_single")


def run_thorough(ctx: Ctx):
    from ..selftest.corpus import for_prop
    from ..selftest.runner import run_corpus
    run_corpus(ctx, for_prop("C17"))
