"""C17 -- datasets, collation and baseline wrapping preserve identity and order.

C17.a  every DataLoader over an rl4co dataset passes that dataset's own collate_fn
C17.b  loaders whose per-batch results are attached to / reported per instance (RolloutBaseline.rollout,
       MDAM rollout, evaluate_policy, test utilities) have no truthy shuffle / sampler / drop_last, and
       their consumers concatenate per-batch results in iteration order on dim 0
C17.c  wrap_dataset rolls out the dataset it was given and attaches the values to that same object
       under the key REINFORCE reads ('extra'); ExtraKeyDataset indexes data and extra with one index
       and asserts equal lengths
C17.d  TensorDictDataset disassembles by position i in range(len) and collate_fn stacks in batch
       order; FastTdDataset / FastGeneration index every key with the index they were given
"""
from __future__ import annotations

import ast

from .. import nf, vg
from ..core import Ctx
from ..model import AnalysisError

FLOOR = 34
EXPLANATION = (
    "Static (AST) analysis of every torch DataLoader construction in the package, of the dataset classes in rl4co/data/dataset.py, "
    "of RolloutBaseline.rollout/wrap_dataset, EvalBase.__call__ and evaluate_policy: own collate_fn, no shuffling/sampling/"
    "drop_last where per-instance values are attached or reported, in-order concatenation on dim 0, same-index access of data and "
    "extra values, positional disassembly and in-order stacking. Structural necessary conditions for every set size and batch "
    "size; dtype/shape preservation through torch operations is not decided."
)
RULE = "one obligation per DataLoader site / dataset method / consumer"
DS = "rl4co/data/dataset.py"
BL = "rl4co/models/rl/reinforce/baselines.py"
ORDER_SENSITIVE = {"RolloutBaseline.rollout", "rollout", "evaluate_policy", "get_dataloader"}


def kw(call, name):
    for k in call.keywords:
        if k.arg == name:
            return k.value
    return None


def truthy(node) -> bool:
    if node is None:
        return False
    if isinstance(node, ast.Constant):
        return bool(node.value)
    return True  # a non-constant expression may be true


def loaders_keep_every_instance(ctx: Ctx):
    """C17.h / C17.i / C17.j
    h) no DataLoader built by the library drops the final partial batch: `drop_last` is absent or the literal False at every
       `DataLoader(...)` call under rl4co/ (a shuffled loader with drop_last silently discards a different set of instances,
       wrapped baseline values included, every epoch);
    i) the greedy-rollout baseline value attached to item i is the reward of the FROZEN baseline policy: `_update_policy` takes a
       deep copy (`copy.deepcopy`) of the policy -- a shallow `copy.copy` shares every parameter with the policy being trained,
       so the values attached at the start of an epoch are no longer what `self.policy` would give later in that epoch;
    j) the values handed to `dataset.add_key` keep their leading instance axis: no dimension-less `.squeeze()` between the rollout
       and `add_key` (a one-instance set would attach a 0-d tensor)."""
    n = 0
    for name, mi in sorted(ctx.repo.modules.items()):
        if not name.startswith("rl4co."):
            continue
        for c in ast.walk(mi.tree):
            if isinstance(c, ast.Call) and ((isinstance(c.func, ast.Name) and c.func.id == "DataLoader") or (isinstance(c.func, ast.Attribute) and c.func.attr == "DataLoader")):
                n += 1
                dl = [k.value for k in c.keywords if k.arg == "drop_last"]
                ok = not dl or (isinstance(dl[0], ast.Constant) and dl[0].value is False)
                ctx.ob("C17.h", f"{mi.relpath}:{c.lineno}:DataLoader-keeps-the-last-batch", ok, f"{mi.relpath}:{c.lineno}",
                       "drop_last is off" if ok else f"drop_last={ast.unparse(dl[0])}: the final partial batch of the set is not delivered", construct=f"{mi.relpath}:DataLoader:drop_last")
    if n < 5:
        raise AnalysisError(f"DataLoader construction sites lost: {n} < 5")
    rb = ctx.repo.get_class("rl4co/models/rl/reinforce/baselines.py", "RolloutBaseline")
    fu = rb.methods.get("_update_policy")
    if fu is None:
        raise AnalysisError("RolloutBaseline._update_policy not found")
    ctx.fn(fu)
    deep = None
    for st in ast.walk(fu.node):
        if isinstance(st, ast.Assign) and any(isinstance(t, ast.Attribute) and isinstance(t.value, ast.Name) and t.value.id == "self" and t.attr == "policy" for t in st.targets):
            calls = [x for x in ast.walk(st.value) if isinstance(x, ast.Call) and ((isinstance(x.func, ast.Attribute) and x.func.attr in ("deepcopy", "copy") and isinstance(x.func.value, ast.Name) and x.func.value.id == "copy")
                                                                                 or (isinstance(x.func, ast.Name) and x.func.id in ("deepcopy", "copy")))]
            deep = bool(calls) and all((x.func.attr if isinstance(x.func, ast.Attribute) else x.func.id) == "deepcopy" for x in calls)
    if deep is None:
        raise AnalysisError("RolloutBaseline._update_policy: assignment of self.policy not found")
    ctx.ob("C17.i", "RolloutBaseline._update_policy:frozen-copy", deep, fu.loc,
           "self.policy = copy.deepcopy(policy)" if deep else "self.policy is not a deep copy of the policy: the `frozen` baseline shares its parameters with the policy being trained",
           construct="RolloutBaseline._update_policy:policy-copy")
    fw = rb.methods.get("wrap_dataset")
    if fw is None:
        raise AnalysisError("RolloutBaseline.wrap_dataset not found")
    ctx.fn(fw)
    sq = [x.lineno for x in ast.walk(fw.node) if isinstance(x, ast.Call) and isinstance(x.func, ast.Attribute) and x.func.attr == "squeeze" and not x.args and not x.keywords]
    ctx.ob("C17.j", "RolloutBaseline.wrap_dataset:values-keep-the-instance-axis", not sq, fw.loc,
           "no dimension-less squeeze on the attached values" if not sq else f"dimension-less .squeeze() at line(s) {sq}: for a set of ONE instance the attached tensor is 0-d, not [1]",
           construct="RolloutBaseline.wrap_dataset:squeeze-all")


def run(ctx: Ctx):
    sites = []
    for mi in ctx.repo.modules.values():
        for node in ast.walk(mi.tree):
            if isinstance(node, ast.Call) and isinstance(node.func, ast.Name) and node.func.id == "DataLoader":
                ctx.repo.note(mi)
                fn, _ = ctx.repo.locate(mi.relpath, node.lineno, node.col_offset, getattr(node, "end_lineno", 0), getattr(node, "end_col_offset", 0))
                sites.append((mi, node, fn))
    if len(sites) < 6:
        raise AnalysisError(f"only {len(sites)} DataLoader sites found (expected >= 6)")
    for mi, node, fn in sites:
        ds = ast.unparse(node.args[0]) if node.args else (ast.unparse(kw(node, "dataset")) if kw(node, "dataset") is not None else "?")
        cf = kw(node, "collate_fn")
        ok = cf is not None and isinstance(cf, ast.Attribute) and cf.attr == "collate_fn" and ast.unparse(cf.value) in (ds, f"type({ds})", f"{ds}.__class__")
        ctx.ob("C17.a", f"{fn}:DataLoader({ds})", ok, f"{mi.relpath}:{node.lineno}",
               f"collate_fn={ast.unparse(cf) if cf is not None else 'default'}" + ("" if ok else f" -- must be {ds}.collate_fn (the default collate cannot rebuild TensorDicts / loses the dataset's own batching)"),
               construct=f"{fn}:collate_fn")
        if fn in ORDER_SENSITIVE or fn.split(".")[-1] in ("rollout",):
            bad = [n for n in ("shuffle", "sampler", "batch_sampler", "drop_last") if truthy(kw(node, n))]
            ctx.ob("C17.b", f"{fn}:order-preserving-loader", not bad, f"{mi.relpath}:{node.lineno}",
                   "no shuffle / sampler / drop_last: batches arrive in dataset order and cover every item" if not bad else
                   f"{bad} set on a loader whose per-batch results are attached to / reported per instance in dataset order",
                   construct=f"{fn}:loader-order")
        ctx.sample({"site": f"{mi.relpath}:{node.lineno}", "function": fn, "dataset": ds})
    # consumers: in-order concatenation
    for rel, fn in ((BL, "RolloutBaseline.rollout"), ("rl4co/models/zoo/mdam/model.py", "rollout")):
        fi = ctx.repo.get_function(rel, fn)
        ctx.fn(fi)
        cats = [n for n in ast.walk(fi.node) if isinstance(n, ast.Call) and ast.unparse(n.func) == "torch.cat"]
        ok = False
        for c in cats:
            a0 = c.args[0]
            def is_loader(expr):
                """the comprehension iterates a DataLoader: the constructor call itself or a local bound to one"""
                if isinstance(expr, ast.Call) and isinstance(expr.func, ast.Name) and expr.func.id == "DataLoader":
                    return True
                if isinstance(expr, ast.Name):
                    binds = [n for n in ast.walk(fi.node) if isinstance(n, ast.Assign) and any(isinstance(t, ast.Name) and t.id == expr.id for t in n.targets)]
                    return bool(binds) and all(isinstance(b.value, ast.Call) and isinstance(b.value.func, ast.Name) and b.value.func.id == "DataLoader" for b in binds)
                return False
            if isinstance(a0, ast.ListComp) and len(a0.generators) == 1 and not a0.generators[0].ifs and is_loader(a0.generators[0].iter):
                dim = c.args[1] if len(c.args) > 1 else kw(c, "dim")
                ok = dim is not None and isinstance(dim, ast.Constant) and dim.value == 0
        ctx.ob("C17.b", f"{fn}:concat-in-order", ok, fi.loc, "torch.cat([f(batch) for batch in dl], 0)", construct=f"{fn}:concat")
    fi = ctx.repo.get_function("rl4co/tasks/eval.py", "EvalBase.__call__")
    ctx.fn(fi)
    ite = vg.Interp(ctx.repo, fi.cls, inline_policy=lambda f, a: False)
    fre = ite.run_function(fi)
    apps = [e for e in ite.events if e.kind == "methcall" and e.data[1] == "append" and len(e.data[2]) == 1]
    ok, why = False, "per-batch appends of the _inner results not found"
    def is_inner_call(x):
        x = nf.strip(x)
        while isinstance(x, vg.S) and x.op == "nograd":
            x = nf.strip(x.args[0])
        return isinstance(x, vg.S) and (nf._fn(x) or "").endswith("._inner")

    pair = [e for e in apps if isinstance(e.data[2][0], vg.S) and nf.strip(e.data[2][0]).op == "sub" and is_inner_call(nf.strip(e.data[2][0]).args[0])]
    if len(pair) == 2:
        v0, v1 = [nf.strip(e.data[2][0]) for e in pair]
        same_call = v0.args[0] is v1.args[0]
        same_loop = pair[0].conds == pair[1].conds and len(pair[0].conds) == 1
        lists = {nf.strip(e.data[2][0]).args[1].args[0]: nf.strip(e.data[0]) for e in pair if nf.strip(e.data[2][0]).args[1].op == "const"}
        distinct = len(lists) == 2 and lists.get(0) is not lists.get(1)
        over_loader = any(isinstance(n, ast.For) and any(isinstance(x, ast.Name) and x.id == "dataloader" for x in ast.walk(n.iter)) for n in ast.walk(fi.node))
        ret = fre.ret
        items = {it_.args[0].args[0]: it_.args[1] for it_ in (ret.args if isinstance(ret, vg.S) and ret.op == "dict" else []) if it_.op == "item" and it_.args[0].op == "const"}

        def cat_of(v, lst):
            """v contains torch.cat over exactly the list `lst` (possibly through a per-item comprehension), on dim 0"""
            for n in vg.walk(v) if isinstance(v, vg.S) else []:
                if nf._fn(n) == "torch.cat":
                    src = nf.strip(n.args[1])
                    dim_ok = len(n.args) == 2 or vg.is_const(n.args[2], 0) or (n.args[2].op == "kw" and vg.is_const(n.args[2].args[1], 0))
                    if src is lst and dim_ok:
                        return True
                    if src.op == "comp" and dim_ok:
                        overs = [x for x in src.args if isinstance(x, vg.S) and x.op == "over"]
                        if len(overs) == 1 and nf.strip(overs[0].args[0]) is lst:
                            return True
            return False
        r_ok = distinct and cat_of(items.get("rewards"), lists[1])
        a_ok = distinct and cat_of(items.get("actions"), lists[0])
        ok = same_call and same_loop and distinct and over_loader and r_ok and a_ok
        why = (f"actions / rewards of one _inner call appended per loader batch: {same_call and same_loop and over_loader}; into two distinct lists: {distinct}; "
               f"'rewards' = cat(rewards list) on dim 0: {r_ok}; 'actions' = cat(padded actions list) on dim 0: {a_ok}")
    ctx.ob("C17.b", "EvalBase.__call__:pairwise-append-and-concat", ok, fi.loc, why, construct="EvalBase.__call__:concat")
    # batches of different decoding length are right-padded to the longest one (a shorter target would truncate: F.pad with a negative width cuts)
    okp, whyp = False, "padding of the per-batch action tensors not found"
    if len(pair) == 2 and isinstance(fre.ret, vg.S):
        la = lists.get(0) if len(lists) == 2 else None
        while isinstance(la, vg.S) and la.op == "nograd":
            la = la.args[0]
        pads = [n for n in vg.walk(fre.ret) if nf._fn(n) == "torch.nn.functional.pad"]
        if len(pads) == 1 and la is not None and len(pads[0].args) >= 3:
            pd_ = pads[0]
            item, widths = pd_.args[1], pd_.args[2]
            it_ok = item.op == "iter" and nf.strip(item.args[0]) is la or (item.op == "iter" and item.args[0].op == "nograd" and item.args[0].args[0] is la)
            w_ok = False
            def unw(x):
                while isinstance(x, vg.S) and x.op == "nograd":
                    x = x.args[0]
                return x

            def is_len_of(x, of):
                x = unw(x)
                d = nf.dim_of(x)
                return d is not None and d[1] == -1 and unw(d[0]).op == "iter" and unw(unw(d[0]).args[0]) is of

            if widths.op == "tuple" and len(widths.args) == 2 and vg.is_const(widths.args[0], 0):
                w = unw(widths.args[1])
                if w.op == "-" and len(w.args) == 2 and is_len_of(w.args[1], la) and unw(nf.dim_of(unw(w.args[1]))[0]) is unw(item):
                    mx = unw(w.args[0])
                    if nf._fn(mx) == "max" and len(mx.args) == 2 and unw(mx.args[1]).op == "comp":
                        src = unw(mx.args[1])
                        overs = [x for x in src.args if isinstance(x, vg.S) and x.op == "over"]
                        vals = [x for x in src.args[1:] if isinstance(x, vg.S) and x.op != "over"]
                        w_ok = len(overs) == 1 and unw(overs[0].args[0]) is la and len(vals) == 1 and is_len_of(vals[0], la) and len(src.args) == 3
            okp = it_ok and w_ok
            whyp = f"every batch's actions are padded on the right by max_j len_j - len_i over ALL batches: items {it_ok}, width {w_ok}"
    ctx.ob("C17.b", "EvalBase.__call__:pad-to-longest", okp, fi.loc, whyp, construct="EvalBase.__call__:padding")
    # wrap_dataset
    rb = ctx.repo.get_class(BL, "RolloutBaseline")
    fi = rb.methods["wrap_dataset"]
    ctx.fn(fi)
    dparam = fi.params()[1]
    rolls = [n for n in ast.walk(fi.node) if isinstance(n, ast.Call) and ast.unparse(n.func) == "self.rollout"]
    addk = [n for n in ast.walk(fi.node) if isinstance(n, ast.Call) and isinstance(n.func, ast.Attribute) and n.func.attr == "add_key"]
    ok = len(rolls) == 1 and len(addk) == 1
    if ok:
        dsarg = kw(rolls[0], "dataset") or (rolls[0].args[4] if len(rolls[0].args) > 4 else None)
        ok = isinstance(dsarg, ast.Name) and dsarg.id == dparam and isinstance(addk[0].func.value, ast.Name) and addk[0].func.value.id == dparam and \
            isinstance(addk[0].args[0], ast.Constant) and addk[0].args[0].value == "extra"
        if ok:
            # the attached value is the rollout result (through .detach()/.cpu())
            val = addk[0].args[1]
            ok = isinstance(val, ast.Name) and any(isinstance(a, ast.Assign) and isinstance(a.targets[0], ast.Name) and a.targets[0].id == val.id and rolls[0] in list(ast.walk(a.value)) for a in ast.walk(fi.node))
    ctx.ob("C17.c", "RolloutBaseline.wrap_dataset", ok, fi.loc, "values computed on `dataset` are attached to that same `dataset` under 'extra'", construct="RolloutBaseline.wrap_dataset:same-dataset")
    rf = ctx.repo.get_function("rl4co/models/rl/reinforce/reinforce.py", "REINFORCE.calculate_loss")
    ctx.fn(rf)
    itr = vg.Interp(ctx.repo, rf.cls, inline_policy=lambda f, a: False)
    frr = itr.run_function(rf)
    reads_extra = any(key == "extra" for f_ in [frr] + list(itr.call_frames) for (_, key, _, _) in f_.reads) or any(e.kind == "methcall" and e.data[1] == "get" and e.data[2] and vg.is_const(e.data[2][0], "extra") and "batch" in vg.show(e.data[0], 2) for e in itr.events) or \
        any(isinstance(n, ast.Subscript) and isinstance(n.slice, ast.Constant) and n.slice.value == "extra" and isinstance(n.value, ast.Name) and n.value.id == "batch" for n in ast.walk(rf.node))
    ctx.ob("C17.c", "REINFORCE.calculate_loss:reads-extra", reads_extra, rf.loc, "the attached value is read back under the same key", construct="REINFORCE.calculate_loss:extra-key")
    def run_m(cls, name):
        fi_ = cls.methods[name]
        ctx.fn(fi_)
        it_ = vg.Interp(ctx.repo, cls, inline_policy=lambda f, a: False)
        return fi_, it_, it_.run_function(fi_)

    def is_param(x, name):
        return isinstance(x, vg.S) and x.op == "param" and x.args[0] == name

    def is_selfattr(x, name):
        return isinstance(x, vg.S) and x.op == "selfattr" and x.args[0] == name

    ek = ctx.repo.get_class(DS, "ExtraKeyDataset")
    gi, it_, fr_ = run_m(ek, "__getitem__")
    ip = gi.params()[1]
    r = fr_.ret
    base = r.args[0] if isinstance(r, vg.S) and r.op == "store" else None
    copied = False
    if base is not None:
        # a fresh mapping: x.copy(), dict(x), copy.copy(x), {**x}
        if base.op == "meth" and base.args[1] in ("copy", "clone"):
            base, copied = base.args[0], True
        elif base.op == "call" and (nf._fn(base) in ("dict", "copy.copy", "copy.deepcopy") or vg.show(base.args[0], 2) in ("dict",)) and len(base.args) == 2:
            base, copied = base.args[1], True
    ok = base is not None and base.op == "sub" and is_selfattr(base.args[0], "data") and is_param(base.args[1], ip) and is_selfattr(r.args[1], "key_name") \
        and r.args[2].op == "sub" and is_selfattr(r.args[2].args[0], "extra") and is_param(r.args[2].args[1], ip)
    ctx.ob("C17.c", "ExtraKeyDataset.__getitem__:same-index", ok, gi.loc, "returns (a copy of) data[idx] with [key_name] = extra[idx]: one index for both", construct="ExtraKeyDataset.__getitem__:index")
    ctx.ob("C17.c", "ExtraKeyDataset.__getitem__:no-write-through", bool(ok and copied), gi.loc,
           "the extra key is written into a fresh copy of the item" if copied else
           "the extra key is assigned on self.data[idx] itself; self.data is the wrapped dataset's own list of item dicts (ExtraKeyDataset.__init__ stores dataset.data), so reading the "
           "wrapped set changes what the original dataset returns afterwards (it gains the extra key)", construct="ExtraKeyDataset.__getitem__:write-through")
    ini, it_, fr_ = run_m(ek, "__init__")
    pd, pe = ini.params()[1], ini.params()[2]
    d_ = it_.selfattrs.get("data")
    x_ = it_.selfattrs.get("extra")
    same_len = False
    for e in it_.events:
        if e.kind == "assert" and not e.conds and isinstance(e.data, vg.S) and e.data.op == "==":
            sides = [vg.show(nf.strip(x), 3) for x in e.data.args]
            lens = [x for x in e.data.args if nf._fn(nf.strip(x)) == "len"]
            if len(lens) == 2:
                objs = {vg.show(nf.strip(x).args[1], 2) for x in lens}
                same_len = any(pe == o for o in objs) and any(pd in o for o in objs)
    ok = same_len and isinstance(d_, vg.S) and d_.op == "attr" and d_.args[1] == "data" and pd in vg.show(d_.args[0], 2) and is_param(x_, pe)
    ctx.ob("C17.c", "ExtraKeyDataset.__init__", ok, ini.loc, f"len(dataset) == len(extra) asserted: {same_len}; data and extra stored as given (no copy / permutation)", construct="ExtraKeyDataset.__init__:lengths")
    for cn in ("TensorDictDataset", "FastTdDataset"):
        c = ctx.repo.get_class(DS, cn)
        ak, it_, fr_ = run_m(c, "add_key")
        r = fr_.ret
        pk, pv = ak.params()[1], ak.params()[2]
        ok = isinstance(r, vg.S) and r.op == "call" and isinstance(r.args[0], vg.S) and r.args[0].op == "class" and r.args[0].args[0].endswith(":ExtraKeyDataset")
        if ok:
            pos = [x for x in r.args[1:] if not (isinstance(x, vg.S) and x.op == "kw")]
            kws = {k.args[0]: k.args[1] for k in r.args[1:] if isinstance(k, vg.S) and k.op == "kw"}
            ok = len(pos) >= 2 and pos[0].op == "self" and is_param(pos[1], pv) and is_param(kws.get("key_name", pos[2] if len(pos) > 2 else None), pk)
        ctx.ob("C17.c", f"{cn}.add_key", ok, ak.loc, "ExtraKeyDataset(self, value, key_name=key): wraps this dataset (no copy / reorder)", construct=f"{cn}.add_key")
    # disassembly / collate
    td = ctx.repo.get_class(DS, "TensorDictDataset")
    ini, it_, fr_ = run_m(td, "__init__")
    d_ = it_.selfattrs.get("data")
    n_ = it_.selfattrs.get("data_len")
    ok = False
    if isinstance(d_, vg.S) and d_.op == "comp" and d_.args[0].args[0] == "ListComp" if isinstance(d_, vg.S) and d_.op == "comp" and isinstance(d_.args[0], vg.S) else False:
        pass
    if isinstance(d_, vg.S) and d_.op == "comp":
        kind = d_.args[0].args[0] if isinstance(d_.args[0], vg.S) else d_.args[0]
        overs = [x for x in d_.args if isinstance(x, vg.S) and x.op == "over"]
        inner = [x for x in d_.args[1:] if isinstance(x, vg.S) and x.op == "comp"]
        if kind == "ListComp" and len(overs) == 1 and len(inner) == 1 and nf._fn(overs[0].args[0]) == "range" and len(overs[0].args[0].args) == 2 and overs[0].args[0].args[1] is n_:
            i_ = [x for x in vg.walk(inner[0]) if x.op == "iter" and x.args[0] is overs[0].args[0]]
            dc = inner[0]
            dk = dc.args[0].args[0] if isinstance(dc.args[0], vg.S) else dc.args[0]
            d_over = [x for x in dc.args if isinstance(x, vg.S) and x.op == "over"]
            vals = [x for x in dc.args[1:] if isinstance(x, vg.S) and x.op not in ("over",)]
            # {key: value[i] for key, value in td.items()}
            ok = dk == "DictComp" and len(d_over) == 1 and d_over[0].args[0].op == "meth" and d_over[0].args[0].args[1] == "items" and len(vals) == 2 and \
                vals[0].op == "sub" and vg.is_const(vals[0].args[1], 0) and vals[1].op == "sub" and bool(i_) and vals[1].args[1] is i_[0] and \
                vals[1].args[0].op == "sub" and vg.is_const(vals[1].args[0].args[1], 1) and vals[1].args[0].args[0] is vals[0].args[0]
    ctx.ob("C17.d", "TensorDictDataset.__init__:positional", ok, ini.loc, "[{key: value[i] for key, value in td.items()} for i in range(len)]", construct="TensorDictDataset.__init__:disassembly")
    cf, it_, fr_ = run_m(td, "collate_fn")
    bp = cf.params()[0]
    ok = False
    if isinstance(fr_.ret, vg.TD) and len(fr_.ret.opaque_updates) == 1 and not fr_.ret.cells:
        dc = fr_.ret.opaque_updates[0]
        bs = fr_.ret.meta.get("batch_size")
        if dc.op == "comp":
            d_over = [x for x in dc.args if isinstance(x, vg.S) and x.op == "over"]
            vals = [x for x in dc.args[1:] if isinstance(x, vg.S) and x.op != "over"]
            if len(d_over) == 1 and len(vals) == 2 and nf._fn(vals[1]) == "torch.stack":
                key = vals[0]
                lc = vals[1].args[1]
                st_dim0 = len(vals[1].args) == 2 or vg.is_const(vals[1].args[2], 0) or (vals[1].args[2].op == "kw" and vg.is_const(vals[1].args[2].args[1], 0))
                if lc.op == "comp":
                    l_over = [x for x in lc.args if isinstance(x, vg.S) and x.op == "over"]
                    l_val = [x for x in lc.args[1:] if isinstance(x, vg.S) and x.op != "over"]
                    in_order = len(l_over) == 1 and bp in vg.show(l_over[0].args[0], 2) and l_over[0].args[0].op in ("tdref", "param") and len(lc.args) == 3
                    elt_ok = len(l_val) == 1 and l_val[0].op == "sub" and l_val[0].args[1] is key and l_val[0].args[0].op == "iter" and l_val[0].args[0].args[0] is l_over[0].args[0]
                    n_ok = isinstance(bs, vg.S) and any(nf._fn(x) == "len" and x.args[1] is l_over[0].args[0] for x in vg.walk(bs))
                    ok = st_dim0 and in_order and elt_ok and n_ok
    ctx.ob("C17.d", "TensorDictDataset.collate_fn:in-order-stack", ok, cf.loc, "every key stacked (dim 0) over the items of the batch in the order given; batch size = len(batch)", construct="TensorDictDataset.collate_fn:stack")
    for cn, mn in (("TensorDictDataset", "__getitem__"), ("FastTdDataset", "__getitems__")):
        c = ctx.repo.get_class(DS, cn)
        gi, it_, fr_ = run_m(c, mn)
        r = fr_.ret
        if isinstance(r, vg.TD):
            ok = r.parent is not None and is_param(r.parent[1], gi.params()[1]) and not r.cells
        else:
            ok = isinstance(r, vg.S) and r.op == "sub" and is_selfattr(r.args[0], "data") and is_param(r.args[1], gi.params()[1])
        ctx.ob("C17.d", f"{cn}.{mn}", ok, gi.loc, "returns self.data[idx] for the index given", construct=f"{cn}.{mn}")
    fg = ctx.repo.get_class(DS, "TensorDictDatasetFastGeneration")
    gi, it_, fr_ = run_m(fg, "__getitems__")
    ixp = gi.params()[1]
    ok = False
    if isinstance(fr_.ret, vg.TD) and len(fr_.ret.opaque_updates) == 1 and not fr_.ret.cells:
        dc = fr_.ret.opaque_updates[0]
        bs = fr_.ret.meta.get("batch_size")
        if dc.op == "comp":
            d_over = [x for x in dc.args if isinstance(x, vg.S) and x.op == "over"]
            vals = [x for x in dc.args[1:] if isinstance(x, vg.S) and x.op != "over"]
            ok = len(d_over) == 1 and d_over[0].args[0].op == "meth" and d_over[0].args[0].args[1] == "items" and "self.data" in vg.show(d_over[0].args[0].args[0], 2) and len(vals) == 2 and \
                vals[0].op == "sub" and vg.is_const(vals[0].args[1], 0) and vals[1].op == "sub" and is_param(vals[1].args[1], ixp) and vals[1].args[0].op == "sub" and \
                vg.is_const(vals[1].args[0].args[1], 1) and vals[1].args[0].args[0] is vals[0].args[0] and len(dc.args) == 4 and \
                isinstance(bs, vg.S) and any(nf._fn(x) == "len" and is_param(x.args[1], ixp) for x in vg.walk(bs))
    ctx.ob("C17.d", "TensorDictDatasetFastGeneration.__getitems__", ok, gi.loc, "every key indexed with the same index list; batch size = len(index)", construct="TensorDictDatasetFastGeneration.__getitems__")
    for cn in ("FastTdDataset", "TensorDictDatasetFastGeneration"):
        c = ctx.repo.get_class(DS, cn)
        cfn, it_, fr_ = run_m(c, "collate_fn")
        r = fr_.ret
        bp_ = cfn.params()[0]
        ok = (isinstance(r, vg.TD) and r.name == bp_ and r.parent is None and not r.cells and not r.opaque_updates) or is_param(r, bp_)
        ctx.ob("C17.d", f"{cn}.collate_fn:identity", ok, cfn.loc, "batched __getitems__ result passed through unchanged", construct=f"{cn}.collate_fn")
    # the index handed in by the sampler is used as is
    for cn, mn in (("FastTdDataset", "__getitems__"), ("TensorDictDatasetFastGeneration", "__getitems__"), ("TensorDictDataset", "__getitem__"), ("ExtraKeyDataset", "__getitem__")):
        c = ctx.repo.get_class(DS, cn)
        m = c.methods[mn]
        ip = m.params()[1]
        rebound = [n for n in ast.walk(m.node) if isinstance(n, ast.Name) and n.id == ip and isinstance(n.ctx, ast.Store)]
        ctx.ob("C17.d", f"{cn}.{mn}:index-not-rewritten", not rebound, m.loc,
               f"the index parameter `{ip}` is used as given" if not rebound else f"the index parameter `{ip}` is rebound before use: items may be fetched for other positions than requested",
               construct=f"{cn}.{mn}:index-rebound")
    # evaluation loaders of the Lightning module keep dataset order
    for mn in ("_dataloader", "_dataloader_single"):
        fi2 = ctx.repo.get_function("rl4co/models/rl/common/base.py", f"RL4COLitModule.{mn}")
        a = fi2.node.args
        names = [x.arg for x in a.args]
        dflt = dict(zip(names[len(names) - len(a.defaults):], a.defaults))
        d = dflt.get("shuffle")
        okd = isinstance(d, ast.Constant) and d.value is False
        rebound = [n for n in ast.walk(fi2.node) if isinstance(n, ast.Name) and n.id == "shuffle" and isinstance(n.ctx, ast.Store)]
        ctx.ob("C17.b", f"RL4COLitModule.{mn}:shuffle-default-false", okd and not rebound, fi2.loc,
               "shuffle defaults to False and is passed through unchanged: val/test loaders (which do not pass it) keep dataset order" if (okd and not rebound) else
               "the default / value of `shuffle` is not the constant False: validation and test loaders may be shuffled",
               construct=f"RL4COLitModule.{mn}:shuffle-default")
    def loader_call(fn_name):
        f_ = ctx.repo.get_function("rl4co/models/rl/common/base.py", f"RL4COLitModule.{fn_name}")
        ctx.fn(f_)
        calls = [n for n in ast.walk(f_.node) if isinstance(n, ast.Call) and isinstance(n.func, ast.Attribute) and n.func.attr == "_dataloader"]
        return f_, calls

    def shuffle_arg(call):
        a = call.args[2] if len(call.args) > 2 else kw(call, "shuffle")
        return a

    tl, tcalls = loader_call("train_dataloader")
    ok = len(tcalls) == 1 and shuffle_arg(tcalls[0]) is not None and any(isinstance(n, ast.Attribute) and n.attr == "shuffle_train_dataloader" for n in ast.walk(shuffle_arg(tcalls[0])))
    for other in ("val_dataloader", "test_dataloader"):
        f_, calls_ = loader_call(other)
        ok = ok and len(calls_) == 1 and (shuffle_arg(calls_[0]) is None or (isinstance(shuffle_arg(calls_[0]), ast.Constant) and shuffle_arg(calls_[0]).value is False)) \
            and not any(k.arg is None for k in calls_[0].keywords)
    ctx.ob("C17.b", "RL4COLitModule:train-vs-val-shuffle", ok, tl.loc, "only the training loader receives the shuffle setting; validation and test loaders pass none (default False)", construct="RL4COLitModule:loader-shuffle")
    # training loader
    fi = ctx.repo.get_function("rl4co/models/rl/common/base.py", "RL4COLitModule._dataloader_single")
    ctx.fn(fi)
    dls = [n for n in ast.walk(fi.node) if isinstance(n, ast.Call) and isinstance(n.func, ast.Name) and n.func.id == "DataLoader"]
    dsp = fi.params()[1]
    ok = len(dls) == 1
    if ok:
        sh = kw(dls[0], "shuffle")
        d0 = dls[0].args[0] if dls[0].args else kw(dls[0], "dataset")
        ok = isinstance(sh, ast.Name) and sh.id == "shuffle" and isinstance(d0, ast.Name) and d0.id == dsp
    ctx.ob("C17.a", "RL4COLitModule._dataloader_single", ok, fi.loc, "the (already wrapped) dataset it is given is what the loader iterates; shuffling happens inside the loader over (instance, extra) items", construct="RL4COLitModule._dataloader_single")
    epoch_end_order(ctx)
    fetch_protocol_agrees(ctx)
    baseline_rollouts_in_eval_mode(ctx)
    loaders_keep_every_instance(ctx)


def epoch_end_order(ctx: Ctx):
    """C17.e the training set of the next epoch carries the values of the baseline that will be used with it: in
    REINFORCE.on_train_epoch_end the baseline is challenged / advanced (`baseline.epoch_callback`) BEFORE the base class
    regenerates the training set and wraps it with `self.baseline.wrap_dataset`.  The other order attaches the greedy values of
    the baseline policy that has just been replaced (or, right after the warm-up epoch, no values at all)."""
    path = "rl4co/models/rl/reinforce/reinforce.py"
    cls = ctx.repo.get_class(path, "REINFORCE")
    fi = cls.methods.get("on_train_epoch_end")
    if fi is None:
        raise AnalysisError("REINFORCE.on_train_epoch_end not found")
    ctx.fn(fi)
    cb, sup = [], []
    for n in ast.walk(fi.node):
        if isinstance(n, ast.Call) and isinstance(n.func, ast.Attribute):
            if n.func.attr == "epoch_callback" and "baseline" in ast.unparse(n.func.value):
                cb.append(n)
            if n.func.attr == "on_train_epoch_end" and isinstance(n.func.value, ast.Call) and getattr(n.func.value.func, "id", "") == "super":
                sup.append(n)
    if len(cb) != 1 or len(sup) != 1:
        raise AnalysisError(f"REINFORCE.on_train_epoch_end: expected one baseline.epoch_callback and one super() call ({len(cb)}, {len(sup)})")
    # statement order on one straight path: both are top-level statements of the method body
    top = {id(st): i for i, st in enumerate(fi.node.body)}

    def stmt_index(call):
        for i, st in enumerate(fi.node.body):
            if any(x is call for x in ast.walk(st)):
                return i
        return None
    i_cb, i_sup = stmt_index(cb[0]), stmt_index(sup[0])
    ok = i_cb is not None and i_sup is not None and i_cb < i_sup
    ctx.ob("C17.e", "REINFORCE.on_train_epoch_end:baseline-updated-before-rewrap", ok, fi.loc,
           "baseline.epoch_callback(...) precedes super().on_train_epoch_end() (which regenerates and wraps the next training set)" if ok else
           "super().on_train_epoch_end() runs before baseline.epoch_callback(...): the next epoch's data is wrapped with the values of the baseline that is about to be replaced",
           construct="REINFORCE.on_train_epoch_end:order")
    # and the base class does wrap the regenerated set through self.wrap_dataset
    base = ctx.repo.get_class("rl4co/models/rl/common/base.py", "RL4COLitModule")
    bf = base.methods.get("on_train_epoch_end")
    ctx.fn(bf)
    wraps = any(isinstance(n, ast.Assign) and any(isinstance(t, ast.Attribute) and t.attr == "train_dataset" for t in n.targets)
                and isinstance(n.value, ast.Call) and isinstance(n.value.func, ast.Attribute) and n.value.func.attr == "wrap_dataset" for n in ast.walk(bf.node))
    ctx.ob("C17.e", "RL4COLitModule.on_train_epoch_end:regenerated-set-is-wrapped", wraps, bf.loc,
           "self.train_dataset = self.wrap_dataset(<freshly generated set>)", construct="RL4COLitModule.on_train_epoch_end:wrap")


def fetch_protocol_agrees(ctx: Ctx):
    """C17.f torch's DataLoader fetches a batch through `__getitems__(indices)` when the dataset has one and through
    `__getitem__(i)` otherwise.  For every dataset class the two must be the same view of the data: a class whose `__getitem__`
    is overridden below the class that provides `__getitems__` (ExtraKeyDataset attaches the baseline value in `__getitem__`)
    would be read through the parent's batched fetch and lose what the override adds."""
    mi = ctx.repo.module_by_path(DS)
    n = 0
    for cname, c in sorted(mi.classes.items()):
        mro = [k for k in ctx.repo.mro(c) if not isinstance(k, str)]
        def owner(meth):
            for i, k in enumerate(mro):
                if meth in k.methods:
                    return i, k
            return None, None
        i1, k1 = owner("__getitem__")
        i2, k2 = owner("__getitems__")
        if k1 is None:
            continue
        n += 1
        ok = k2 is None or i2 <= i1
        ctx.ob("C17.f", f"{cname}:batched-fetch-is-the-item-fetch", ok, f"{DS}:{c.node.lineno}",
               (f"__getitem__ comes from {k1.name}; " + ("no __getitems__ in the hierarchy: the loader uses __getitem__" if k2 is None else f"__getitems__ comes from {k2.name}")) +
               ("" if ok else f" -- the loader reads {cname} through {k2.name}.__getitems__ and never calls the override in {k1.name}"),
               construct=f"{cname}:fetch-protocol")
    if n < 2:
        raise AnalysisError(f"only {n} dataset classes with __getitem__ found in {DS}")


def baseline_rollouts_in_eval_mode(ctx: Ctx):
    """C17.g the value attached to item i is the baseline policy's greedy reward ON INSTANCE i: the rollout that computes it
    switches the policy to eval mode first (`policy.eval()`), otherwise batch normalisation uses the statistics of whatever
    batch the instance is evaluated in and the value depends on its batch-mates and on the batch size.  Sibling agreement
    over the rollout functions of the baselines (RolloutBaseline.rollout and the module-level rollout MDAM installs)."""
    sites = [("rl4co/models/rl/reinforce/baselines.py", "RolloutBaseline.rollout"), ("rl4co/models/zoo/mdam/model.py", "rollout")]
    for rel, qn in sites:
        fi = ctx.repo.get_function(rel, qn)
        if fi is None:
            raise AnalysisError(f"{rel}:{qn} not found")
        ctx.fn(fi)
        params = fi.params()
        pol = params[1] if params and params[0] == "self" and len(params) > 1 else (params[0] if params else None)
        evals = [c for c in ast.walk(fi.node) if isinstance(c, ast.Call) and isinstance(c.func, ast.Attribute) and c.func.attr == "eval" and isinstance(c.func.value, ast.Name) and c.func.value.id == pol and not c.args]
        trains = [c for c in ast.walk(fi.node) if isinstance(c, ast.Call) and isinstance(c.func, ast.Attribute) and c.func.attr == "train" and isinstance(c.func.value, ast.Name) and c.func.value.id == pol]
        calls = [c for c in ast.walk(fi.node) if isinstance(c, ast.Call) and isinstance(c.func, ast.Name) and c.func.id == pol]
        ok = bool(evals) and bool(calls) and min(c.lineno for c in evals) < min(c.lineno for c in calls) and not [t for t in trains if t.lineno < max(c.lineno for c in calls)]
        ctx.ob("C17.g", f"{qn}:policy-in-eval-mode", ok, fi.loc,
               f"`{pol}.eval()` before the policy is called: {ok}" + ("" if ok else " -- the baseline value of an instance then depends on the batch it is rolled out in"),
               construct=f"{rel}:{qn}:eval-mode")
        # C17.g (2) ... and it decodes GREEDILY whatever the policy's own phase defaults are: every call of the policy in the
        # rollout passes the literal decode_type="greedy" (a `phase="val"` call decodes with the policy's configurable
        # val_decode_type, "sampling" / multistart included -- the attached value is then a sampled reward)
        for k, c in enumerate(sorted(calls, key=lambda c: (c.lineno, c.col_offset))):
            dt = [kw for kw in c.keywords if kw.arg == "decode_type"]
            okd = len(dt) == 1 and isinstance(dt[0].value, ast.Constant) and dt[0].value.value == "greedy"
            ctx.ob("C17.g", f"{qn}:policy-call#{k}:decodes-greedily", okd, f"{rel}:{c.lineno}",
                   f"`{ast.unparse(c)[:80]}`: decode_type=\"greedy\" given literally: {okd}" +
                   ("" if okd else " -- the rollout decodes with whatever the policy is configured to use for that phase; the value attached to item i is not the baseline policy's greedy reward"),
                   construct=f"{rel}:{qn}:policy-call:decode-type")


def run_thorough(ctx: Ctx):
    from ..selftest.corpus import for_prop
    from ..selftest.runner import run_corpus
    run_corpus(ctx, for_prop("C17"))
